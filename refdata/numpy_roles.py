"""Role table for C16: for every NumPy function / ufunc / array method that pint handles, HOW it is
called here, which arguments carry a unit (and which of them must share one), and the unit the
mathematics implies for the result.  Written from the NumPy documentation — not from pint's
behaviour tables.

An entry:  (name, kind, args, call, out, opts)
  kind  'ufunc' | 'function' | 'method'
  args  {arg name: (dimension letter, value key)}; arguments with the same dimension letter are
        re-expressed INDEPENDENTLY in every spelling of that dimension (that is the covariance test)
        dimension letters: L length, T time, D dimensionless, A angle
  call  lambda f, a: ...   (f = the NumPy callable, or the bound method for kind 'method'; a = dict of values)
  out   implied result: 'bare' | unit expression over L, T, A ('L', 'L*T', 'L/T', 'L**2', 'L**0.5', '1/L', 'D', 'A', 'deg')
        or a tuple of those for multiple results; 'first' = unit of the first argument AS GIVEN (non-covariant ops)
  opts  covariant=False for operations that are not unit-covariant by nature (rounding, sign of a digit);
        their reference is NumPy on the magnitudes as given
"""
import math

VALUES = {
    "v1": [-2.0, 0.5, 3.0],
    "v2": [3.0, -2.0, 0.5],
    "v3": [0.5, 0.5, 4.0],
    # for exact comparisons / set operations: the only tie is at 0, which is exact in every unit
    "c1": [-2.0, 0.0, 3.0],
    "c2": [3.0, 0.0, 0.5],
    "c3": [0.0, 0.0, 4.0],
    "csorted": [-2.0, 0.0, 3.0],
    "pos": [0.5, 3.0, 2.0],
    "pos2": [4.0, 0.25, 2.0],
    "unit": [0.5, 0.25, -0.5],
    "big": [1.5, 3.0, 2.0],
    "sorted": [-2.0, 0.5, 3.0],
    "nan": [-2.0, float("nan"), 3.0],
    "m22": [[-2.0, 0.0], [0.5, 3.0]],
    "n22": [[3.0, 0.5], [-2.0, 1.0]],
    "p22": [[2.0, 0.5], [0.5, 3.0]],
    "s": 3.0,
    "s2": 0.5,
    "zeros": [0.0, 0.5, 0.0],
    "long": [-2.0, 0.5, 3.0, 0.0, 1.0],
}

# a second assignment of values to the same roles (order-, sign- and magnitude-relations differ from the first one);
# keys with a structural constraint (sorted, exact ties, NaN position) keep their values
ALT = {"v1": "v2", "v2": "v3", "v3": "v1", "pos": "pos2", "pos2": "pos", "m22": "n22", "n22": "p22", "p22": "m22", "s": "s2", "s2": "s", "unit": "zeros", "big": "pos"}

SPELL = {
    "L": [("meter", 1.0), ("centimeter", 100.0), ("kilometer", 1e-3)],
    "T": [("second", 1.0), ("millisecond", 1000.0)],
    "D": [("", 1.0), ("percent", 100.0)],
    "A": [("radian", 1.0), ("degree", 180.0 / math.pi)],
}
BASE = {"L": "meter", "T": "second", "D": "", "A": "radian"}

E = []


def u1(names, dim="L", vals="v1", out="L", **opts):
    for n in names:
        E.append((n, "ufunc", {"x": (dim, vals)}, (lambda f, a: f(a["x"])), out, opts))


def u2(names, d1="L", d2="L", v1="v1", v2="v2", out="L", **opts):
    for n in names:
        E.append((n, "ufunc", {"x": (d1, v1), "y": (d2, v2)}, (lambda f, a: f(a["x"], a["y"])), out, opts))


def fn(name, args, call, out, kind="function", **opts):
    E.append((name, kind, args, call, out, opts))


# ------------------------------------------------------------------ unary ufuncs
u1(["negative", "positive", "absolute", "fabs", "conj", "conjugate"], out="L")
u1(["rint", "floor", "ceil", "trunc"], out="first", covariant=False)
u1(["sqrt"], vals="pos", out="L**0.5")
u1(["cbrt"], vals="pos", out="L**(1/3)")
u1(["square"], out="L**2")
u1(["reciprocal"], vals="pos", out="1/L")
u1(["sin", "cos", "tan", "sinh", "cosh", "tanh"], dim="A", vals="unit", out="D")
u1(["arcsin", "arccos", "arctan", "arcsinh", "arctanh"], dim="D", vals="unit", out="A")
u1(["arccosh"], dim="D", vals="big", out="A")
u1(["exp", "expm1", "exp2", "log1p"], dim="D", vals="pos", out="D")
u1(["log", "log10", "log2"], dim="D", vals="pos", out="D")
u1(["deg2rad", "radians"], dim="A", vals="v1", out="A", ref=lambda a: a["x"])          # the same angle, in radians
u1(["rad2deg", "degrees"], dim="A", vals="v1", out="A", ref=lambda a: a["x"])          # the same angle (reported in degrees)
u1(["isnan", "isinf", "isfinite", "signbit"], vals="nan", out="bare")
u1(["sign"], out="bare")
fn("modf", {"x": ("L", "v1")}, lambda f, a: f(a["x"]), ("first", "first"), kind="ufunc", covariant=False)
fn("frexp", {"x": ("L", "v1")}, lambda f, a: f(a["x"]), ("first", "bare"), kind="ufunc", covariant=False)

# ------------------------------------------------------------------ binary ufuncs
u2(["add", "subtract", "maximum", "minimum", "hypot", "copysign"], out="L")
u2(["fmod", "mod", "remainder"], v1="pos2", v2="pos", out="L")
u2(["nextafter"], out="first", covariant=False)
u2(["equal", "not_equal", "greater", "greater_equal", "less", "less_equal"], v1="c1", v2="c2", out="bare")
u2(["multiply", "matmul"], d2="T", out="L*T")
u2(["divide", "true_divide"], d2="T", v2="pos", out="L/T")
u2(["floor_divide"], v1="pos2", v2="pos", out="D")
u2(["arctan2"], out="A")
u2(["logaddexp", "logaddexp2"], d1="D", d2="D", v1="unit", v2="pos", out="D")
fn("power", {"x": ("L", "pos")}, lambda f, a: f(a["x"], 2), "L**2", kind="ufunc")
VALUES["pexp"] = [0.5, 2.0, 1.0]
fn("power", {"x": ("D", "pos"), "p": ("D", "pexp")}, lambda f, a: f(a["x"], a["p"]), "D", kind="ufunc")  # array exponent: only a dimensionless base has a meaning
fn("float_power", {"x": ("D", "pos"), "p": ("D", "pexp")}, lambda f, a: f(a["x"], a["p"]), "D", kind="ufunc")
fn("power", {"x": ("L", "pos"), "p": ("D", "s")}, lambda f, a: f(a["x"], a["p"]), "L**3", kind="ufunc", no_alt=True)  # the implied unit depends on the VALUE of p
fn("ldexp", {"x": ("L", "v1")}, lambda f, a: f(a["x"], 2), "L", kind="ufunc")

# ------------------------------------------------------------------ reductions (function form), with axis variants
for ax in (None, 0, -1):
    for n in ("sum", "nansum", "mean", "nanmean", "median", "nanmedian", "std", "nanstd", "max", "min", "amax", "amin", "nanmax", "nanmin", "ptp", "average"):
        fn(n, {"a": ("L", "m22")}, (lambda ax: lambda f, a: f(a["a"], axis=ax))(ax), "L")
    for n in ("var", "nanvar"):
        fn(n, {"a": ("L", "m22")}, (lambda ax: lambda f, a: f(a["a"], axis=ax))(ax), "L**2")
    for n in ("argmax", "argmin", "nanargmax", "nanargmin", "count_nonzero"):
        fn(n, {"a": ("L", "m22")}, (lambda ax: lambda f, a: f(a["a"], axis=ax))(ax), "bare")
    for n in ("cumsum", "nancumsum"):
        fn(n, {"a": ("L", "m22")}, (lambda ax: lambda f, a: f(a["a"], axis=ax))(ax), "L")
fn("sum", {"a": ("L", "v1")}, lambda f, a: f(a["a"], where=[True, False, True]), "L")
fn("max", {"a": ("L", "v1"), "i": ("L", "s")}, lambda f, a: f(a["a"], initial=a["i"]), "L")
fn("min", {"a": ("L", "v1"), "i": ("L", "s")}, lambda f, a: f(a["a"], initial=a["i"]), "L")
fn("amax", {"a": ("L", "v1"), "i": ("L", "s")}, lambda f, a: f(a["a"], initial=a["i"]), "L")
fn("prod", {"a": ("L", "pos")}, lambda f, a: f(a["a"]), "L**3")
fn("nanprod", {"a": ("L", "pos")}, lambda f, a: f(a["a"]), "L**3")
fn("prod", {"a": ("L", "p22")}, lambda f, a: f(a["a"], axis=0), "L**2")
fn("prod", {"a": ("L", "p22")}, lambda f, a: f(a["a"], axis=1), "L**2")
# products under a mask: the unit is the input unit to the NUMBER OF SELECTED factors; when that number differs between
# output cells only a dimensionless input has a meaning (the product of the selected plain numbers)
fn("prod", {"a": ("L", "pos")}, lambda f, a: f(a["a"], where=[True, False, True]), "L**2")
fn("nanprod", {"a": ("L", "pos")}, lambda f, a: f(a["a"], where=[True, False, True]), "L**2")
fn("prod", {"a": ("L", "p22")}, lambda f, a: f(a["a"], axis=0, where=[[True, False], [False, True]]), "L")  # (a cell with NOTHING selected is the bare identity 1: no unit is right for it, so no such mask here)
fn("prod", {"a": ("L", "p22")}, lambda f, a: f(a["a"], axis=1, where=[[True, True], [True, True]]), "L**2")
fn("prod", {"a": ("D", "p22")}, lambda f, a: f(a["a"], axis=0, where=[[True, True], [False, True]]), "D")
fn("prod", {"a": ("D", "p22")}, lambda f, a: f(a["a"], axis=1, where=[[True, False], [True, True]]), "D")
fn("nanprod", {"a": ("D", "p22")}, lambda f, a: f(a["a"], axis=0, where=[[True, True], [False, True]]), "D")
fn("prod", {"a": ("D", "p22")}, lambda f, a: f(a["a"], axis=0, keepdims=True, where=[[False, True], [True, True]]), "D")
fn("cumprod", {"a": ("D", "pos")}, lambda f, a: f(a["a"]), "D")
fn("nancumprod", {"a": ("D", "pos")}, lambda f, a: f(a["a"]), "D")
fn("average", {"a": ("L", "v1"), "w": ("T", "pos")}, lambda f, a: f(a["a"], weights=a["w"]), "L")
fn("percentile", {"a": ("L", "long")}, lambda f, a: f(a["a"], 30), "L")
fn("nanpercentile", {"a": ("L", "long")}, lambda f, a: f(a["a"], 30), "L")
fn("quantile", {"a": ("L", "long")}, lambda f, a: f(a["a"], 0.3), "L")
fn("nanquantile", {"a": ("L", "long")}, lambda f, a: f(a["a"], 0.3), "L")
fn("linalg.norm", {"a": ("L", "v1")}, lambda f, a: f(a["a"]), "L")
fn("any", {"a": ("L", "zeros")}, lambda f, a: f(a["a"]), "bare")
fn("all", {"a": ("L", "zeros")}, lambda f, a: f(a["a"]), "bare")
fn("nonzero", {"a": ("L", "zeros")}, lambda f, a: f(a["a"])[0], "bare")

# ------------------------------------------------------------------ differences / integrals
fn("diff", {"a": ("L", "long")}, lambda f, a: f(a["a"]), "L")
fn("ediff1d", {"a": ("L", "long")}, lambda f, a: f(a["a"]), "L")
fn("gradient", {"a": ("L", "long")}, lambda f, a: f(a["a"]), "L")
fn("gradient", {"a": ("L", "long"), "h": ("T", "s2")}, lambda f, a: f(a["a"], a["h"]), "L/T")
fn("trapezoid", {"y": ("L", "v1")}, lambda f, a: f(a["y"]), "L")
fn("trapezoid", {"y": ("L", "v1"), "x": ("T", "sorted")}, lambda f, a: f(a["y"], a["x"]), "L*T")
fn("trapezoid", {"y": ("L", "v1"), "dx": ("T", "s2")}, lambda f, a: f(a["y"], dx=a["dx"]), "L*T")

# ------------------------------------------------------------------ products
fn("dot", {"a": ("L", "v1"), "b": ("T", "v2")}, lambda f, a: f(a["a"], a["b"]), "L*T")
fn("dot", {"a": ("L", "m22"), "b": ("T", "n22")}, lambda f, a: f(a["a"], a["b"]), "L*T")
fn("cross", {"a": ("L", "v1"), "b": ("T", "v2")}, lambda f, a: f(a["a"], a["b"]), "L*T")
fn("einsum", {"a": ("L", "m22"), "b": ("T", "n22")}, lambda f, a: f("ij,jk->ik", a["a"], a["b"]), "L*T")
fn("correlate", {"a": ("L", "v1"), "b": ("T", "v2")}, lambda f, a: f(a["a"], a["b"]), "L*T")
fn("linalg.solve", {"A": ("T", "p22"), "b": ("L", "v3s")}, lambda f, a: f(a["A"], a["b"]), "L/T")
VALUES["v3s"] = [1.0, 2.0]

# ------------------------------------------------------------------ shape / order (unit kept)
for n, c in (
    ("sort", lambda f, a: f(a["a"])), ("ravel", lambda f, a: f(a["a"])), ("transpose", lambda f, a: f(a["a"])), ("squeeze", lambda f, a: f(a["a"])),
    ("copy", lambda f, a: f(a["a"])), ("flip", lambda f, a: f(a["a"])), ("rot90", lambda f, a: f(a["a"])), ("diagonal", lambda f, a: f(a["a"])),
    ("expand_dims", lambda f, a: f(a["a"], 0)), ("roll", lambda f, a: f(a["a"], 1)), ("tile", lambda f, a: f(a["a"], 2)), ("reshape", lambda f, a: f(a["a"], (4,))),
    ("resize", lambda f, a: f(a["a"], (3, 2))), ("swapaxes", lambda f, a: f(a["a"], 0, 1)), ("moveaxis", lambda f, a: f(a["a"], 0, 1)), ("rollaxis", lambda f, a: f(a["a"], 1)),
    ("broadcast_to", lambda f, a: f(a["a"], (2, 2, 2))), ("atleast_1d", lambda f, a: f(a["a"])), ("atleast_2d", lambda f, a: f(a["a"])), ("atleast_3d", lambda f, a: f(a["a"])),
    ("delete", lambda f, a: f(a["a"], 0, axis=0)), ("compress", lambda f, a: f([True, False], a["a"], axis=0)), ("nan_to_num", lambda f, a: f(a["a"])),
    ("lib.stride_tricks.sliding_window_view", lambda f, a: f(a["a"], (1, 2))),
):
    fn(n, {"a": ("L", "m22")}, c, "L")
fn("trim_zeros", {"a": ("L", "zeros")}, lambda f, a: f(a["a"]), "L")
fn("around", {"a": ("L", "v1")}, lambda f, a: f(a["a"]), "first", covariant=False)
fn("round", {"a": ("L", "v1")}, lambda f, a: f(a["a"]), "first", covariant=False)
fn("fix", {"a": ("L", "v1")}, lambda f, a: f(a["a"]), "first", covariant=False)
fn("argsort", {"a": ("L", "v2")}, lambda f, a: f(a["a"]), "bare")
for n in ("size", "shape", "ndim"):
    fn(n, {"a": ("L", "m22")}, lambda f, a: f(a["a"]), "bare")
for n in ("isreal", "iscomplex"):
    fn(n, {"a": ("L", "v1")}, lambda f, a: f(a["a"]), "bare")
for n in ("ones_like", "zeros_like"):
    fn(n, {"a": ("L", "v1")}, lambda f, a: f(a["a"]), "bare")

# ------------------------------------------------------------------ several arrays sharing a unit
for n in ("concatenate", "stack", "hstack", "vstack", "dstack", "column_stack"):
    fn(n, {"a": ("L", "v1"), "b": ("L", "v2")}, lambda f, a: f([a["a"], a["b"]]), "L")
fn("block", {"a": ("L", "v1"), "b": ("L", "v2")}, lambda f, a: f([a["a"], a["b"]]), "L")
fn("append", {"a": ("L", "v1"), "b": ("L", "v2")}, lambda f, a: f(a["a"], a["b"]), "L")
fn("insert", {"a": ("L", "v1"), "b": ("L", "s")}, lambda f, a: f(a["a"], 1, a["b"]), "L")
fn("where", {"a": ("L", "v1"), "b": ("L", "v2")}, lambda f, a: f([True, False, True], a["a"], a["b"]), "L")
fn("where", {"c": ("T", "zeros"), "a": ("L", "v1"), "b": ("L", "v2")}, lambda f, a: f(a["c"], a["a"], a["b"]), "L")
fn("clip", {"a": ("L", "v1"), "lo": ("L", "s2"), "hi": ("L", "s")}, lambda f, a: f(a["a"], a["lo"], a["hi"]), "L")
# optional unit-carrying arguments given with GAPS: an earlier one omitted or None, a later one supplied
fn("clip", {"a": ("L", "v1"), "hi": ("L", "s2")}, lambda f, a: f(a["a"], None, a["hi"]), "L")
fn("clip", {"a": ("L", "v1"), "lo": ("L", "s2")}, lambda f, a: f(a["a"], a["lo"], None), "L")
fn("clip", {"a": ("L", "v1"), "hi": ("L", "s2")}, lambda f, a: f(a["a"], a_max=a["hi"], a_min=None), "L")
VALUES["pinf"] = [0.5, float("inf"), 2.0]
VALUES["ninf"] = [float("-inf"), 0.5, 2.0]
VALUES["nanv"] = [float("nan"), 0.5, 2.0]
VALUES["allinf"] = [float("-inf"), float("nan"), float("inf")]
fn("nan_to_num", {"a": ("L", "pinf"), "p": ("L", "s")}, lambda f, a: f(a["a"], posinf=a["p"]), "L", no_alt=True)
fn("nan_to_num", {"a": ("L", "ninf"), "n": ("L", "s")}, lambda f, a: f(a["a"], neginf=a["n"]), "L", no_alt=True)
fn("nan_to_num", {"a": ("L", "nanv"), "v": ("L", "s2")}, lambda f, a: f(a["a"], nan=a["v"]), "L", no_alt=True)
fn("nan_to_num", {"a": ("L", "allinf"), "v": ("L", "s2"), "n": ("L", "s")}, lambda f, a: f(a["a"], nan=a["v"], neginf=a["n"], posinf=a["v"]), "L", no_alt=True)
fn("nan_to_num", {"a": ("L", "allinf"), "v": ("L", "s2"), "n": ("L", "s"), "p": ("L", "big1")}, lambda f, a: f(a["a"], nan=a["v"], posinf=a["p"], neginf=a["n"]), "L", no_alt=True)
VALUES["big1"] = 7.0
fn("linspace", {"a": ("L", "s2"), "b": ("L", "s")}, lambda f, a: f(a["a"], a["b"], 4), "L")
fn("intersect1d", {"a": ("L", "c1"), "b": ("L", "c3")}, lambda f, a: f(a["a"], a["b"]), "L")
fn("searchsorted", {"a": ("L", "csorted"), "v": ("L", "c3")}, lambda f, a: f(a["a"], a["v"]), "bare")
fn("isclose", {"a": ("L", "v1"), "b": ("L", "v3")}, lambda f, a: f(a["a"], a["b"]), "bare")
fn("allclose", {"a": ("L", "v1"), "b": ("L", "v1")}, lambda f, a: f(a["a"], a["b"]), "bare")
fn("isclose", {"a": ("L", "v1"), "b": ("L", "v2"), "t": ("L", "s")}, lambda f, a: f(a["a"], a["b"], rtol=0, atol=a["t"]), "bare")
# a BARE tolerance is documented to be read in the units of `a` as given: bare_like passes that argument as a plain
# number spelled like the named argument (the reference stays NumPy on base-unit magnitudes)
VALUES["s6"] = 6.0
fn("isclose", {"a": ("L", "v1"), "b": ("L", "v2"), "t": ("L", "s")}, lambda f, a: f(a["a"], a["b"], rtol=0, atol=a["t"]), "bare", bare_like={"t": "a"})
fn("allclose", {"a": ("L", "v1"), "b": ("L", "v2"), "t": ("L", "s6")}, lambda f, a: f(a["a"], a["b"], rtol=0, atol=a["t"]), "bare", bare_like={"t": "a"})
fn("allclose", {"a": ("L", "v1"), "b": ("L", "v2"), "t": ("L", "s")}, lambda f, a: f(a["a"], a["b"], rtol=0, atol=a["t"]), "bare", bare_like={"t": "a"})
fn("allclose", {"a": ("L", "v1"), "b": ("L", "v2"), "t": ("L", "s6")}, lambda f, a: f(a["a"], a["b"], rtol=0, atol=a["t"]), "bare")
fn("isin", {"a": ("L", "c1"), "b": ("L", "c3")}, lambda f, a: f(a["a"], a["b"]), "bare")
VALUES["d3"] = [0.5, 7.0, 2.0]
fn("isin", {"a": ("D", "d3")}, lambda f, a: f(a["a"], [0.5, 7.0]), "bare")   # bare test elements are dimensionless numbers
fn("interp", {"x": ("T", "unit"), "xp": ("T", "sorted"), "fp": ("L", "v2")}, lambda f, a: f(a["x"], a["xp"], a["fp"]), "L")
fn("interp", {"x": ("T", "wide"), "xp": ("T", "sorted"), "fp": ("L", "v2"), "l": ("L", "s"), "r": ("L", "s2")}, lambda f, a: f(a["x"], a["xp"], a["fp"], left=a["l"], right=a["r"]), "L")
VALUES["wide"] = [-5.0, 0.0, 9.0]
fn("full_like", {"a": ("T", "v1"), "v": ("L", "s")}, lambda f, a: f(a["a"], a["v"]), "L")
fn("pad", {"a": ("L", "v1"), "c": ("L", "s")}, lambda f, a: f(a["a"], 1, constant_values=a["c"]), "L")
fn("pad", {"a": ("L", "v1")}, lambda f, a: f(a["a"], 1), "L")
fn("meshgrid", {"a": ("L", "v1"), "b": ("T", "v2")}, lambda f, a: tuple(f(a["a"], a["b"])), ("L", "T"))
fn("broadcast_arrays", {"a": ("L", "v1"), "b": ("L", "s")}, lambda f, a: tuple(f(a["a"], a["b"])), ("L", "L"))
fn("unwrap", {"a": ("A", "wide")}, lambda f, a: f(a["a"]), "A")

# ------------------------------------------------------------------ array methods
for n, c, out in (
    ("sum", lambda m, a: m(), "L"), ("mean", lambda m, a: m(), "L"), ("std", lambda m, a: m(), "L"), ("var", lambda m, a: m(), "L**2"), ("max", lambda m, a: m(), "L"), ("min", lambda m, a: m(), "L"),
    ("cumsum", lambda m, a: m(), "L"), ("ravel", lambda m, a: m(), "L"), ("transpose", lambda m, a: m(), "L"), ("squeeze", lambda m, a: m(), "L"), ("copy", lambda m, a: m(), "L"),
    ("reshape", lambda m, a: m((4,)), "L"), ("swapaxes", lambda m, a: m(0, 1), "L"), ("diagonal", lambda m, a: m(), "L"), ("trace", lambda m, a: m(), "L"), ("repeat", lambda m, a: m(2), "L"),
    ("take", lambda m, a: m([0, 1]), "L"), ("compress", lambda m, a: m([True, False], axis=0), "L"), ("conj", lambda m, a: m(), "L"), ("roll", None, None), ("flatten", lambda m, a: m(), "L"),
    ("prod", lambda m, a: m(), "L**4"), ("argmax", lambda m, a: m(), "bare"), ("argsort", lambda m, a: m(), "bare"), ("nonzero", lambda m, a: m()[0], "bare"), ("tolist", None, None),
):
    if c is not None:
        fn(n, {"self": ("L", "p22")}, c, out, kind="method")
fn("cumprod", {"self": ("D", "pos")}, lambda m, a: m(), "D", kind="method")  # only a dimensionless array has a cumulative product
fn("round", {"self": ("L", "v1")}, lambda m, a: m(), "first", kind="method", covariant=False)
fn("ptp", {"self": ("L", "v1")}, lambda m, a: m(), "L", kind="method")
fn("clip", {"self": ("L", "v1"), "lo": ("L", "s2"), "hi": ("L", "s")}, lambda m, a: m(a["lo"], a["hi"]), "L", kind="method")
fn("searchsorted", {"self": ("L", "csorted"), "v": ("L", "c3")}, lambda m, a: m(a["v"]), "bare", kind="method")
fn("dot", {"self": ("L", "v1"), "b": ("T", "v2")}, lambda m, a: m(a["b"]), "L*T", kind="method")

ENTRIES = E
