"""Independently curated standard values for C20.

Typed in by hand from: BIPM, The International System of Units (SI Brochure), 9th ed. (2019, v2.01 2022:
prefixes ronna/quetta/ronto/quecto); NIST SP 811 (2008) Appendix B and NIST SP 330 (2019); NIST Handbook 44
Appendix C (US customary, avoirdupois, troy, apothecaries); the UK Weights and Measures Act 1985 (imperial
gallon 4.54609 L); IAU 2012 Resolution B2 (au) and IAU 2015 Resolution B2 (parsec); CODATA 2022 recommended
values (Mohr, Newell, Taylor, Tiesinga 2024).  NOT generated from pint's definition files.

Row: (pint spelling, exact SI value, SI dimension exponents, standard symbol or None, source)
  value: a string read by Fraction ("0.3048", "1200/3937"), or a tuple ("pi", numerator, denominator[, power of pi])
         for values containing pi, or ("expr", Fraction) computed below from other exact rows.
  dims : exponents over kg m s A K mol cd (and the dimensionless base units rad, bit, count that pint keeps)
"""
from fractions import Fraction as F

PI50 = "3.14159265358979323846264338327950288419716939937510"

L = {"m": 1}
A2 = {"m": 2}
V3 = {"m": 3}
M = {"kg": 1}
T = {"s": 1}
FORCE = {"kg": 1, "m": 1, "s": -2}
PRESS = {"kg": 1, "m": -1, "s": -2}
ENERGY = {"kg": 1, "m": 2, "s": -2}
POWER = {"kg": 1, "m": 2, "s": -3}
SPEED = {"m": 1, "s": -1}
NONE = {}

inch = F("0.0254")
ft = F("0.3048")
yd = F("0.9144")
lb = F("0.45359237")
g0 = F("9.80665")
gr = F("0.00006479891")
sft = F(1200, 3937)
gal = 231 * inch**3
igal = F("0.00454609")
bu = F("2150.42") * inch**3
lbf = lb * g0
c0 = F(299792458)
h_ = F("6.62607015e-34")
e_ = F("1.602176634e-19")
k_ = F("1.380649e-23")
NA = F("6.02214076e23")
day = F(86400)
jyear = F("365.25") * day

PREFIXES = [
    ("quecto", F(10) ** -30, "q"), ("ronto", F(10) ** -27, "r"), ("yocto", F(10) ** -24, "y"), ("zepto", F(10) ** -21, "z"), ("atto", F(10) ** -18, "a"), ("femto", F(10) ** -15, "f"),
    ("pico", F(10) ** -12, "p"), ("nano", F(10) ** -9, "n"), ("micro", F(10) ** -6, "µ"), ("milli", F(10) ** -3, "m"), ("centi", F(10) ** -2, "c"), ("deci", F(10) ** -1, "d"),
    ("deca", F(10), "da"), ("hecto", F(10) ** 2, "h"), ("kilo", F(10) ** 3, "k"), ("mega", F(10) ** 6, "M"), ("giga", F(10) ** 9, "G"), ("tera", F(10) ** 12, "T"), ("peta", F(10) ** 15, "P"),
    ("exa", F(10) ** 18, "E"), ("zetta", F(10) ** 21, "Z"), ("yotta", F(10) ** 24, "Y"), ("ronna", F(10) ** 27, "R"), ("quetta", F(10) ** 30, "Q"),
    ("kibi", F(2) ** 10, "Ki"), ("mebi", F(2) ** 20, "Mi"), ("gibi", F(2) ** 30, "Gi"), ("tebi", F(2) ** 40, "Ti"), ("pebi", F(2) ** 50, "Pi"), ("exbi", F(2) ** 60, "Ei"), ("zebi", F(2) ** 70, "Zi"), ("yobi", F(2) ** 80, "Yi"),
]

ROWS = [
    # ---- SI base units
    ("meter", "1", L, "m", "SI"), ("kilogram", "1", M, "kg", "SI"), ("gram", "0.001", M, "g", "SI"), ("second", "1", T, "s", "SI"), ("ampere", "1", {"A": 1}, "A", "SI"),
    ("kelvin", "1", {"K": 1}, "K", "SI"), ("mole", "1", {"mol": 1}, "mol", "SI"), ("candela", "1", {"cd": 1}, "cd", "SI"),
    # ---- the 22 SI units with special names
    ("radian", "1", {"rad": 1}, "rad", "SI"), ("steradian", "1", {"rad": 2}, "sr", "SI"), ("hertz", "1", {"s": -1}, "Hz", "SI"), ("newton", "1", FORCE, "N", "SI"), ("pascal", "1", PRESS, "Pa", "SI"),
    ("joule", "1", ENERGY, "J", "SI"), ("watt", "1", POWER, "W", "SI"), ("coulomb", "1", {"A": 1, "s": 1}, "C", "SI"), ("volt", "1", {"kg": 1, "m": 2, "s": -3, "A": -1}, "V", "SI"),
    ("farad", "1", {"kg": -1, "m": -2, "s": 4, "A": 2}, "F", "SI"), ("ohm", "1", {"kg": 1, "m": 2, "s": -3, "A": -2}, "Ω", "SI"), ("siemens", "1", {"kg": -1, "m": -2, "s": 3, "A": 2}, "S", "SI"),
    ("weber", "1", {"kg": 1, "m": 2, "s": -2, "A": -1}, "Wb", "SI"), ("tesla", "1", {"kg": 1, "s": -2, "A": -1}, "T", "SI"), ("henry", "1", {"kg": 1, "m": 2, "s": -2, "A": -2}, "H", "SI"),
    ("lumen", "1", {"cd": 1, "rad": 2}, "lm", "SI"), ("lux", "1", {"cd": 1, "rad": 2, "m": -2}, "lx", "SI"), ("becquerel", "1", {"s": -1, "count": 1}, "Bq", "SI"), ("gray", "1", {"m": 2, "s": -2}, "Gy", "SI"),
    ("sievert", "1", {"m": 2, "s": -2}, "Sv", "SI"), ("katal", "1", {"mol": 1, "s": -1}, "kat", "SI"),
    # ---- defining constants of the SI (2019) and conventional values
    ("speed_of_light", "299792458", SPEED, None, "SI 2019"), ("planck_constant", "6.62607015e-34", {"kg": 1, "m": 2, "s": -1}, None, "SI 2019"), ("elementary_charge", "1.602176634e-19", {"A": 1, "s": 1}, None, "SI 2019"),
    ("boltzmann_constant", "1.380649e-23", {"kg": 1, "m": 2, "s": -2, "K": -1}, None, "SI 2019"), ("avogadro_constant", "6.02214076e23", {"mol": -1}, None, "SI 2019"), ("avogadro_number", "6.02214076e23", NONE, None, "SI 2019"),
    ("standard_gravity", "9.80665", {"m": 1, "s": -2}, None, "CGPM 1901"), ("standard_atmosphere", "101325", PRESS, "atm", "CGPM 1954"),
    ("conventional_josephson_constant", "4.835979e14", {"kg": -1, "m": -2, "s": 2, "A": 1}, None, "CIPM 1988"), ("conventional_von_klitzing_constant", "25812.807", {"kg": 1, "m": 2, "s": -3, "A": -2}, None, "CIPM 1988"),
    ("molar_gas_constant", ("expr", k_ * NA), {"kg": 1, "m": 2, "s": -2, "K": -1, "mol": -1}, None, "SI 2019 (exact product)"), ("faraday_constant", ("expr", e_ * NA), {"A": 1, "s": 1, "mol": -1}, None, "SI 2019 (exact product)"),
    ("electron_volt", "1.602176634e-19", ENERGY, "eV", "SI 2019"), ("josephson_constant", ("expr", 2 * e_ / h_), {"kg": -1, "m": -2, "s": 2, "A": 1}, None, "SI 2019"), ("von_klitzing_constant", ("expr", h_ / e_**2), {"kg": 1, "m": 2, "s": -3, "A": -2}, None, "SI 2019"),
    # ---- non-SI units accepted for use with the SI
    ("minute", "60", T, "min", "SI table 8"), ("hour", "3600", T, "h", "SI table 8"), ("day", "86400", T, "d", "SI table 8"), ("hectare", "10000", A2, "ha", "SI table 8"), ("liter", "0.001", V3, "l", "SI table 8"),
    ("metric_ton", "1000", M, "t", "SI table 8"), ("astronomical_unit", "149597870700", L, "au", "IAU 2012 B2"), ("degree", ("pi", 1, 180), {"rad": 1}, "deg", "SI table 8"), ("arcminute", ("pi", 1, 10800), {"rad": 1}, "arcmin", "SI table 8"),
    ("arcsecond", ("pi", 1, 648000), {"rad": 1}, "arcsec", "SI table 8"), ("are", "100", A2, None, "SI"), ("bar", "100000", PRESS, "bar", "SP 811"), ("angstrom", "1e-10", L, "Å", "SP 811"), ("barn", "1e-28", A2, "b", "SP 811"),
    ("nautical_mile", "1852", L, "nmi", "IHB 1929"), ("knot", "1852/3600", SPEED, "kt", "SP 811"), ("micron", "1e-6", L, None, "SP 811"), ("fermi", "1e-15", L, None, "SP 811"), ("carat", "0.0002", M, "ct", "CGPM 1907"),
    ("turn", ("pi", 2, 1), {"rad": 1}, None, "SP 811"), ("grade", ("pi", 1, 200), {"rad": 1}, None, "SP 811 (gon)"), ("light_year", ("expr", c0 * jyear), L, "ly", "IAU"), ("parsec", ("pi", 149597870700 * 648000, 1, -1), L, "pc", "IAU 2015 B2"),
    # ---- time
    ("week", "604800", T, None, "SP 811"), ("fortnight", "1209600", T, None, ""), ("year", "31557600", T, "a", "IAU Julian year"), ("julian_year", "31557600", T, None, "IAU"), ("common_year", "31536000", T, None, "365 d"), ("leap_year", "31622400", T, None, "366 d"),
    ("gregorian_year", "31556952", T, None, "365.2425 d"), ("century", "3155760000", T, None, "100 Julian years"), ("millennium", "31557600000", T, None, ""), ("shake", "1e-8", T, None, "SP 811"),
    # ---- international yard and pound (1959) and multiples
    ("inch", "0.0254", L, "in", "1959"), ("foot", "0.3048", L, "ft", "1959"), ("yard", "0.9144", L, "yd", "1959"), ("mile", "1609.344", L, "mi", "1959"), ("thou", "0.0000254", L, "th", "SP 811 (mil)"), ("hand", "0.1016", L, None, "4 in"),
    ("square_inch", ("expr", inch**2), A2, "sq_in", ""), ("square_foot", ("expr", ft**2), A2, "sq_ft", ""), ("square_yard", ("expr", yd**2), A2, "sq_yd", ""), ("square_mile", ("expr", (1760 * yd) ** 2), A2, "sq_mi", ""),
    ("cubic_inch", ("expr", inch**3), V3, "cu_in", ""), ("cubic_foot", ("expr", ft**3), V3, "cu_ft", ""), ("cubic_yard", ("expr", yd**3), V3, "cu_yd", ""),
    ("mile_per_hour", ("expr", 1760 * yd / 3600), SPEED, "mph", ""), ("foot_per_second", "0.3048", SPEED, "fps", ""),
    # ---- US survey measure (NIST Handbook 44)
    ("survey_foot", "1200/3937", L, "sft", "HB 44"), ("survey_mile", ("expr", 5280 * sft), L, "smi", "HB 44"), ("rod", ("expr", F("16.5") * sft), L, "rd", "HB 44"), ("chain", ("expr", 66 * sft), L, None, "HB 44"),
    ("furlong", ("expr", 660 * sft), L, "fur", "HB 44"), ("link", ("expr", F("0.66") * sft), L, "li", "HB 44"), ("fathom", ("expr", 6 * sft), L, None, "HB 44 (pint: survey)"), ("league", ("expr", 3 * 5280 * sft), L, None, "HB 44"),
    ("acre", ("expr", 43560 * sft**2), A2, None, "HB 44"), ("square_rod", ("expr", (F("16.5") * sft) ** 2), A2, "sq_rod", "HB 44"),
    # ---- avoirdupois, troy, apothecaries
    ("pound", "0.45359237", M, "lb", "1959"), ("ounce", ("expr", lb / 16), M, "oz", "HB 44"), ("dram", ("expr", lb / 256), M, "dr", "HB 44"), ("grain", "0.00006479891", M, "gr", "HB 44"), ("stone", ("expr", 14 * lb), M, None, "UK WMA"),
    ("hundredweight", ("expr", 100 * lb), M, "cwt", "HB 44 (short)"), ("long_hundredweight", ("expr", 112 * lb), M, None, "HB 44"), ("ton", ("expr", 2000 * lb), M, None, "HB 44 (short)"), ("long_ton", ("expr", 2240 * lb), M, None, "HB 44"),
    ("pennyweight", ("expr", 24 * gr), M, "dwt", "HB 44"), ("troy_ounce", ("expr", 480 * gr), M, "toz", "HB 44"), ("troy_pound", ("expr", 5760 * gr), M, "tlb", "HB 44"),
    ("scruple", ("expr", 20 * gr), M, None, "HB 44"), ("apothecary_dram", ("expr", 60 * gr), M, "ap_dr", "HB 44"), ("apothecary_ounce", ("expr", 480 * gr), M, "ap_oz", "HB 44"), ("apothecary_pound", ("expr", 5760 * gr), M, "ap_lb", "HB 44"),
    ("slug", ("expr", lbf / ft), M, None, "SP 811"),
    # ---- US liquid and dry measure
    ("gallon", ("expr", gal), V3, "gal", "HB 44 (231 in3)"), ("quart", ("expr", gal / 4), V3, "qt", "HB 44"), ("pint", ("expr", gal / 8), V3, "pt", "HB 44"), ("cup", ("expr", gal / 16), V3, "cp", "HB 44"), ("gill", ("expr", gal / 32), V3, "gi", "HB 44"),
    ("fluid_ounce", ("expr", gal / 128), V3, "floz", "HB 44"), ("tablespoon", ("expr", gal / 256), V3, "tbsp", "HB 44"), ("teaspoon", ("expr", gal / 768), V3, "tsp", "HB 44"), ("fluid_dram", ("expr", gal / 1024), V3, "fldr", "HB 44"),
    ("minim", ("expr", gal / 61440), V3, None, "HB 44"), ("oil_barrel", ("expr", 42 * gal), V3, "oil_bbl", "HB 44"), ("barrel", ("expr", F("31.5") * gal), V3, "bbl", "HB 44"), ("hogshead", ("expr", 63 * gal), V3, None, "HB 44"),
    ("bushel", ("expr", bu), V3, "bu", "HB 44 (2150.42 in3)"), ("peck", ("expr", bu / 4), V3, "pk", "HB 44"), ("dry_gallon", ("expr", bu / 8), V3, "dgal", "HB 44"), ("dry_quart", ("expr", bu / 32), V3, "dqt", "HB 44"), ("dry_pint", ("expr", bu / 64), V3, "dpi", "HB 44"),
    # ---- imperial capacity
    ("imperial_gallon", "0.00454609", V3, "imperial_gal", "UK WMA 1985"), ("imperial_quart", ("expr", igal / 4), V3, "imperial_qt", "UK WMA"), ("imperial_pint", ("expr", igal / 8), V3, "imperial_pt", "UK WMA"),
    ("imperial_gill", ("expr", igal / 32), V3, "imperial_gi", "UK WMA"), ("imperial_fluid_ounce", ("expr", igal / 160), V3, "imperial_floz", "UK WMA"), ("imperial_peck", ("expr", 2 * igal), V3, "imperial_pk", "UK WMA"), ("imperial_bushel", ("expr", 8 * igal), V3, "imperial_bu", "UK WMA"),
    # ---- force, pressure, energy, power
    ("dyne", "1e-5", FORCE, "dyn", "CGS"), ("force_kilogram", "9.80665", FORCE, "kgf", "SP 811"), ("force_pound", ("expr", lbf), FORCE, "lbf", "SP 811"), ("poundal", ("expr", lb * ft), FORCE, "pdl", "SP 811"),
    ("kip", ("expr", 1000 * lbf), FORCE, None, "SP 811"), ("force_ounce", ("expr", lbf / 16), FORCE, "ozf", "SP 811"),
    ("barye", "0.1", PRESS, "Ba", "CGS"), ("technical_atmosphere", "98066.5", PRESS, "at", "SP 811"), ("torr", "101325/760", PRESS, None, "SP 811"), ("pound_force_per_square_inch", ("expr", lbf / inch**2), PRESS, "psi", "SP 811"),
    ("millimeter_Hg", "133.322387415", PRESS, "mmHg", "SP 811 (conventional)"), ("erg", "1e-7", ENERGY, None, "CGS"), ("calorie", "4.184", ENERGY, "cal", "SP 811 (thermochemical)"), ("international_calorie", "4.1868", ENERGY, "cal_it", "SP 811 (IT)"),
    ("watt_hour", "3600", ENERGY, "Wh", ""), ("international_british_thermal_unit", ("expr", F("4.1868") * 1000 * lb * 5 / 9), ENERGY, "Btu_it", "SP 811 (IT)"), ("foot_pound", ("expr", lbf * ft), ENERGY, "ft_lb", "SP 811"),
    ("horsepower", ("expr", 550 * lbf * ft), POWER, "hp", "SP 811 (550 ft lbf/s)"), ("metric_horsepower", ("expr", 75 * g0), POWER, None, "SP 811"), ("electrical_horsepower", "746", POWER, None, "SP 811"),
    ("ton_TNT", "4.184e9", ENERGY, "tTNT", "SP 811"),
    # ---- viscosity and other CGS
    ("poise", "0.1", {"kg": 1, "m": -1, "s": -1}, "P", "CGS"), ("stokes", "0.0001", {"m": 2, "s": -1}, "St", "CGS"), ("galileo", "0.01", {"m": 1, "s": -2}, "Gal", "CGS"), ("reciprocal_centimeter", "100", {"m": -1}, None, "CGS (kayser)"),
    ("stilb", "10000", {"cd": 1, "m": -2}, None, "CGS"), ("nit", "1", {"cd": 1, "m": -2}, None, ""), ("langley", "41840", {"kg": 1, "s": -2}, "Ly", "cal_th/cm2"),
    # ---- temperature scales (scale only here; the affine maps are checked separately)
    ("degree_Rankine", "5/9", {"K": 1}, "°R", "SP 811"),
    # ---- radiation
    ("curie", "3.7e10", {"s": -1, "count": 1}, "Ci", "SP 811"), ("rutherford", "1e6", {"s": -1, "count": 1}, "Rd", ""), ("rads", "0.01", {"m": 2, "s": -2}, None, "SP 811 (rad)"), ("rem", "0.01", {"m": 2, "s": -2}, None, "SP 811"),
    ("roentgen", "2.58e-4", {"A": 1, "s": 1, "kg": -1}, None, "SP 811"),
    # ---- electricity
    ("ampere_hour", "3600", {"A": 1, "s": 1}, "Ah", ""), ("abampere", "10", {"A": 1}, "abA", "CGS-EMU"), ("abcoulomb", "10", {"A": 1, "s": 1}, "abC", "CGS-EMU"), ("abvolt", "1e-8", {"kg": 1, "m": 2, "s": -3, "A": -1}, "abV", "CGS-EMU"),
    ("abohm", "1e-9", {"kg": 1, "m": 2, "s": -3, "A": -2}, "abΩ", "CGS-EMU"), ("abfarad", "1e9", {"kg": -1, "m": -2, "s": 4, "A": 2}, "abF", "CGS-EMU"), ("abhenry", "1e-9", {"kg": 1, "m": 2, "s": -2, "A": -2}, "abH", "CGS-EMU"),
    ("gamma", "1e-9", {"kg": 1, "s": -2, "A": -1}, "γ", "SP 811"), ("volt_ampere", "1", POWER, "VA", ""),
    # ---- information, dimensionless
    ("bit", "1", {"bit": 1}, None, "IEC 80000-13"), ("byte", "8", {"bit": 1}, "B", "IEC 80000-13"), ("baud", "1", {"bit": 1, "s": -1}, "Bd", ""), ("percent", "0.01", NONE, "%", ""), ("permille", "0.001", NONE, "‰", ""), ("ppm", "1e-6", NONE, None, ""),
    # ---- chemistry / textile / typography
    ("molar", "1000", {"mol": 1, "m": -3}, "M", "mol/L"), ("enzyme_unit", ("expr", F("1e-6") / 60), {"mol": 1, "s": -1}, "U", "IUB"), ("tex", "1e-6", {"kg": 1, "m": -1}, "Tt", "ISO 1144"), ("denier", ("expr", F("1e-6") / 9), {"kg": 1, "m": -1}, "den", ""),
    ("pica", ("expr", inch / 6), L, None, "DTP"), ("point", ("expr", inch / 72), L, "pp", "DTP"), ("css_pixel", ("expr", inch / 96), L, "px", "CSS"), ("tex_point", ("expr", inch / F("72.27")), L, None, "TeX"),
    # ---- CODATA 2022 measured constants (digits as printed in the adjustment)
    ("newtonian_constant_of_gravitation", "6.67430e-11", {"kg": -1, "m": 3, "s": -2}, None, "CODATA 2022"), ("rydberg_constant", "10973731.568157", {"m": -1}, None, "CODATA 2022"), ("electron_g_factor", "-2.00231930436092", NONE, None, "CODATA 2022"),
    ("atomic_mass_constant", "1.66053906892e-27", M, None, "CODATA 2022"), ("electron_mass", "9.1093837139e-31", M, None, "CODATA 2022"), ("proton_mass", "1.67262192595e-27", M, None, "CODATA 2022"), ("neutron_mass", "1.67492750056e-27", M, None, "CODATA 2022"),
    ("x_unit_Cu", "1.00207697e-13", L, None, "CODATA 2022"), ("x_unit_Mo", "1.00209952e-13", L, None, "CODATA 2022"), ("angstrom_star", "1.00001495e-10", L, None, "CODATA 2022"), ("dalton", "1.66053906892e-27", M, "Da", "CODATA 2022"),
    ("unified_atomic_mass_unit", "1.66053906892e-27", M, "u", "CODATA 2022"),
]

# ---------------------------------------------------------------------------------------------------------------------
# second part: every remaining multiplicative unit / constant of the bundled files, so that no definition line is
# outside the table.  Exact values are written as exact expressions over the independently typed constants above;
# values that contain a square root or a transcendental number are computed here with 60-digit decimals and
# compared with a stated relative tolerance: ("approx", decimal string, reltol).
from decimal import Decimal as D, getcontext as _gc

_gc().prec = 60


def _d(fr):
    return D(fr.numerator) / D(fr.denominator)


PI = D(PI50)
G_ = F("6.67430e-11")            # CODATA 2022
RINF = F("10973731.568157")      # CODATA 2022
ME = F("9.1093837139e-31")       # CODATA 2022
MP = F("1.67262192595e-27")      # CODATA 2022
KJ90, RK90 = F("4.835979e14"), F("25812.807")
hbar_d = _d(h_) / (2 * PI)
alpha_d = (2 * _d(h_) * _d(RINF) / (_d(ME) * _d(c0))).sqrt()          # alpha^2 = 2 h R_inf / (m_e c)
assert abs(alpha_d / D("7.2973525643e-3") - 1) < D("3e-10"), alpha_d   # CODATA 2022 printed value
mu0_d = 2 * alpha_d * _d(h_) / (_d(e_) ** 2 * _d(c0))
assert abs(mu0_d / D("1.25663706127e-6") - 1) < D("3e-10")
eps0_d = 1 / (mu0_d * _d(c0) ** 2)
kC_d = 1 / (4 * PI * eps0_d)
a0_d = hbar_d / (alpha_d * _d(ME) * _d(c0))
assert abs(a0_d / D("5.29177210544e-11") - 1) < D("3e-10")
Eh_d = 2 * _d(h_) * _d(c0) * _d(RINF)
assert abs(Eh_d / D("4.3597447222060e-18") - 1) < D("1e-11")
re_d = alpha_d * hbar_d / (_d(ME) * _d(c0))
aut_d = hbar_d / Eh_d
auE_d = _d(e_) * kC_d / a0_d**2


def _ln(x):
    """natural logarithm by Newton iteration on exp (60 digits)"""
    y = D(str(__import__("math").log(float(x))))
    for _ in range(8):
        y = y + 2 * (x - y.exp()) / (x + y.exp())
    return y


def _solve(f, lo, hi):
    lo, hi = D(lo), D(hi)
    for _ in range(220):
        mid = (lo + hi) / 2
        if (f(lo) > 0) == (f(mid) > 0):
            lo = mid
        else:
            hi = mid
    return (lo + hi) / 2


LN10 = _ln(D(10))
WIEN_X = _solve(lambda x: 5 * (1 - (-x).exp()) - x, "4", "6")     # x = 5 (1 - e^-x)
WIEN_U = _solve(lambda x: 3 * (1 - (-x).exp()) - x, "2", "4")     # x = 3 (1 - e^-x)


def _tan(x):
    # x tiny: series is enough for 60 digits
    x = D(x)
    return x + x**3 / 3 + 2 * x**5 / 15 + 17 * x**7 / 315 + 62 * x**9 / 2835


TANSEC = _tan(PI / 648000)
E_NUM = D(1).exp()


def approx(d, tol="1e-13"):
    return ("approx", format(d, ".40e"), float(tol))


def pi_(fr, power=1):
    fr = F(fr)
    return ("pi", fr.numerator, fr.denominator, power)


ifloz = igal / 160
txp = inch / F("72.27")
sqrt_1e9_inv = D("1e-9").sqrt()          # franklin in SI-like root units: sqrt(erg * cm) = sqrt(1e-9) kg^1/2 m^3/2 s^-1
ACTION = {"kg": 1, "m": 2, "s": -1}
CHARGE = {"A": 1, "s": 1}
VOLT = {"kg": 1, "m": 2, "s": -3, "A": -1}
OHM = {"kg": 1, "m": 2, "s": -3, "A": -2}
DENS = {"kg": 1, "m": -3}
H2 = F(1, 2)

ROWS2 = [
    # ---- mathematical constants (dimensionless numbers)
    ("pi", pi_(1), NONE, None, "mathematics"), ("tansec", approx(TANSEC, "1e-15"), NONE, None, "tan(1 arcsec)"), ("ln10", approx(LN10, "1e-15"), NONE, None, "mathematics"),
    ("wien_x", approx(WIEN_X, "1e-15"), NONE, None, "root of x = 5(1-exp(-x))"), ("wien_u", approx(WIEN_U, "1e-15"), NONE, None, "root of x = 3(1-exp(-x))"), ("eulers_number", approx(E_NUM, "1e-15"), NONE, None, "mathematics"),
    ("zeta", "29979245800", NONE, None, "c in cm/s"),
    # ---- constants that follow exactly from the defining constants of the SI
    ("dirac_constant", pi_(h_ / 2, -1), ACTION, None, "h / 2 pi"), ("conductance_quantum", ("expr", 2 * e_**2 / h_), {"kg": -1, "m": -2, "s": 3, "A": 2}, None, "2 e^2 / h"),
    ("magnetic_flux_quantum", ("expr", h_ / (2 * e_)), {"kg": 1, "m": 2, "s": -2, "A": -1}, None, "h / 2e"),
    ("stefan_boltzmann_constant", pi_(2 * k_**4 / (15 * h_**3 * c0**2), 5), {"kg": 1, "s": -3, "K": -4}, None, "2 pi^5 k^4 / 15 h^3 c^2"),
    ("first_radiation_constant", pi_(2 * h_ * c0**2), {"kg": 1, "m": 4, "s": -3}, None, "2 pi h c^2"), ("second_radiation_constant", ("expr", h_ * c0 / k_), {"m": 1, "K": 1}, None, "h c / k"),
    ("wien_wavelength_displacement_law_constant", approx(_d(h_ * c0 / k_) / WIEN_X), {"m": 1, "K": 1}, None, "h c / (k x)"), ("wien_frequency_displacement_law_constant", approx(WIEN_U * _d(k_ / h_)), {"s": -1, "K": -1}, None, "u k / h"),
    ("faraday", ("expr", e_ * NA), CHARGE, None, "e N_A (as a unit of charge)"), ("particle", ("expr", 1 / NA), {"mol": 1}, None, "1 / N_A"),
    # ---- constants that follow from CODATA 2022 measured inputs (R_inf, m_e, m_p, G)
    ("fine_structure_constant", approx(alpha_d, "1e-12"), NONE, None, "CODATA 2022 relation"), ("vacuum_permeability", approx(mu0_d, "1e-12"), {"kg": 1, "m": 1, "s": -2, "A": -2}, None, "2 alpha h / e^2 c"),
    ("vacuum_permittivity", approx(eps0_d, "1e-12"), {"kg": -1, "m": -3, "s": 4, "A": 2}, None, "e^2 / 2 alpha h c"), ("impedance_of_free_space", approx(mu0_d * _d(c0), "1e-12"), OHM, None, "mu0 c"),
    ("coulomb_constant", approx(kC_d, "1e-12"), {"kg": 1, "m": 3, "s": -4, "A": -2}, None, "1 / 4 pi eps0"), ("classical_electron_radius", approx(re_d, "1e-12"), L, None, "alpha hbar / m_e c"),
    ("thomson_cross_section", approx(8 * PI * re_d**2 / 3, "1e-12"), A2, None, "8 pi r_e^2 / 3"), ("bohr", approx(a0_d, "1e-12"), L, None, "hbar / alpha m_e c"),
    ("rydberg", approx(Eh_d / 2, "1e-13"), ENERGY, None, "h c R_inf"), ("hartree", approx(Eh_d, "1e-13"), ENERGY, None, "2 h c R_inf"),
    ("atomic_unit_of_time", approx(aut_d, "1e-12"), T, None, "hbar / E_h"), ("atomic_unit_of_temperature", approx(Eh_d / _d(k_), "1e-12"), {"K": 1}, None, "E_h / k"), ("atomic_unit_of_force", approx(Eh_d / a0_d, "1e-12"), FORCE, None, "E_h / a_0"),
    ("atomic_unit_of_current", approx(_d(e_) / aut_d, "1e-12"), {"A": 1}, None, "e E_h / hbar"), ("atomic_unit_of_electric_field", approx(auE_d, "1e-12"), {"kg": 1, "m": 1, "s": -3, "A": -1}, None, "e k_C / a_0^2"),
    ("atomic_unit_of_intensity", approx(eps0_d * _d(c0) * auE_d**2 / 2, "1e-12"), {"kg": 1, "s": -3}, None, "eps0 c E^2 / 2"),
    ("bohr_magneton", approx(_d(e_) * hbar_d / (2 * _d(ME)), "1e-13"), {"A": 1, "m": 2}, None, "e hbar / 2 m_e"), ("nuclear_magneton", approx(_d(e_) * hbar_d / (2 * _d(MP)), "1e-13"), {"A": 1, "m": 2}, None, "e hbar / 2 m_p"),
    ("planck_length", approx((hbar_d * _d(G_) / _d(c0) ** 3).sqrt(), "1e-13"), L, None, "sqrt(hbar G / c^3)"), ("planck_mass", approx((hbar_d * _d(c0) / _d(G_)).sqrt(), "1e-13"), M, None, "sqrt(hbar c / G)"),
    ("planck_time", approx((hbar_d * _d(G_) / _d(c0) ** 5).sqrt(), "1e-13"), T, None, "sqrt(hbar G / c^5)"), ("planck_temperature", approx((hbar_d * _d(c0) ** 5 / _d(G_)).sqrt() / _d(k_), "1e-13"), {"K": 1}, None, "sqrt(hbar c^5 / G) / k"),
    ("planck_current", approx((_d(c0) ** 6 / (_d(G_) * kC_d)).sqrt(), "1e-12"), {"A": 1}, None, "sqrt(c^6 / G k_C)"),
    ("unit_pole", approx(mu0_d / 10, "1e-12"), {"kg": 1, "m": 2, "s": -2, "A": -1}, None, "mu0 x 10 A x 1 cm"),
    # ---- 1990 conventional electrical units (CIPM 1988; factors from the exact K_J, R_K of the 2019 SI)
    ("conventional_volt_90", ("expr", KJ90 * h_ / (2 * e_)), VOLT, None, "K_J-90 / K_J"), ("conventional_ohm_90", ("expr", h_ / e_**2 / RK90), OHM, None, "R_K / R_K-90"),
    ("conventional_ampere_90", ("expr", KJ90 * RK90 * e_ / 2), {"A": 1}, None, "V_90 / ohm_90"), ("conventional_coulomb_90", ("expr", KJ90 * RK90 * e_ / 2), CHARGE, None, ""),
    ("conventional_watt_90", ("expr", KJ90**2 * RK90 * h_ / 4), POWER, None, ""), ("conventional_farad_90", ("expr", RK90 * e_**2 / h_), {"kg": -1, "m": -2, "s": 4, "A": 2}, None, ""),
    ("conventional_henry_90", ("expr", h_ / e_**2 / RK90), {"kg": 1, "m": 2, "s": -2, "A": -2}, None, ""),
    # ---- historical "international" electrical units (NIST SP 811 footnotes)
    ("mean_international_volt", "1.00034", VOLT, None, "SP 811"), ("US_international_volt", "1.00033", VOLT, None, "SP 811"), ("mean_international_ohm", "1.00049", OHM, None, "SP 811"), ("US_international_ohm", "1.000495", OHM, None, "SP 811"),
    ("mean_international_ampere", ("expr", F("1.00034") / F("1.00049")), {"A": 1}, None, "V / ohm"), ("US_international_ampere", ("expr", F("1.00033") / F("1.000495")), {"A": 1}, None, "V / ohm"),
    # ---- angle, time
    ("milliarcsecond", pi_(F(1, 648000000)), {"rad": 1}, None, ""), ("mil", pi_(F(1, 32000)), {"rad": 1}, None, "NATO mil: 6400 per turn"), ("square_degree", pi_(F(1, 32400), 2), {"rad": 2}, None, "(pi/180)^2 sr"),
    ("month", ("expr", jyear / 12), T, None, "Julian year / 12"), ("eon", ("expr", jyear * 10**9), T, None, ""), ("svedberg", "1e-13", T, None, ""),
    ("sidereal_year", ("expr", F("365.256363004") * day), T, None, "IERS (J2000.0)"), ("tropical_year", ("expr", F("365.242190402") * day), T, None, "IERS (J2000.0)"),
    ("sidereal_day", ("approx", "86164.0905308329", 1e-12), T, None, "IERS: 86400 / 1.002737909350795"), ("sidereal_month", ("approx", "2360591.5579", 2e-9), T, None, "27.321661547 d"),
    ("tropical_month", ("approx", "2360584.68", 2e-8), T, None, "27.321582 d"), ("synodic_month", ("approx", "2551442.89", 2e-8), T, None, "29.530589 d"),
    # ---- mass, volume, flow, speed
    ("gamma_mass", "1e-9", M, None, "microgram"), ("cubic_centimeter", "1e-6", V3, None, ""), ("lambda", "1e-9", V3, None, "microliter"), ("stere", "1", V3, None, ""), ("sverdrup", "1e6", {"m": 3, "s": -1}, None, ""),
    ("revolutions_per_minute", pi_(F(1, 30)), {"rad": 1, "s": -1}, None, "2 pi / 60"), ("revolutions_per_second", pi_(2), {"rad": 1, "s": -1}, None, ""), ("counts_per_second", "1", {"count": 1, "s": -1}, None, ""),
    ("kilometer_per_hour", "1000/3600", SPEED, None, ""), ("kilometer_per_second", "1000", SPEED, None, ""), ("meter_per_second", "1", SPEED, None, ""), ("LMH", ("expr", F("1e-3") / 3600), SPEED, None, "L / m2 / h"),
    ("darcy", ("expr", F("1e-7") / 101325), A2, None, "cP cm2 / (s atm)"),
    # ---- force, energy, power
    ("force_gram", ("expr", g0 / 1000), FORCE, None, "SP 811"), ("force_metric_ton", ("expr", g0 * 1000), FORCE, None, ""), ("force_ton", ("expr", 2000 * lbf), FORCE, None, "SP 811 (short)"), ("force_long_ton", ("expr", 2240 * lbf), FORCE, None, ""),
    ("UK_force_ton", ("expr", 2240 * lbf), FORCE, None, ""), ("US_force_ton", ("expr", 2000 * lbf), FORCE, None, ""), ("slinch", ("expr", lbf / inch), M, None, "lbf s2 / in"),
    ("fifteen_degree_calorie", "4.1855", ENERGY, None, "SP 811 (cal_15)"), ("british_thermal_unit", "1055.056", ENERGY, None, "ISO 31-4"), ("thermochemical_british_thermal_unit", ("expr", F("4.184") * 1000 * lb * 5 / 9), ENERGY, None, "SP 811 (Btu_th)"),
    ("quadrillion_Btu", "1.055056e18", ENERGY, None, "1e15 Btu"), ("therm", "1.055056e8", ENERGY, None, "EC therm: 1e5 Btu"), ("US_therm", "1.054804e8", ENERGY, None, "SP 811"), ("tonne_of_oil_equivalent", "4.1868e10", ENERGY, None, "IEA: 1e10 cal_IT"),
    ("atmosphere_liter", "101.325", ENERGY, None, ""), ("boiler_horsepower", ("approx", "9809.50", 2e-4), POWER, None, "SP 811"), ("refrigeration_ton", ("approx", "3516.853", 1e-6), POWER, None, "SP 811: 12000 Btu/h"),
    ("cooling_tower_ton", ("approx", "4396.066", 1e-6), POWER, None, "1.25 refrigeration ton"), ("standard_liter_per_minute", ("expr", F("101.325") / 60), POWER, None, "atm L / min"),
    ("peak_sun_hour", "3.6e6", {"kg": 1, "s": -2}, None, "1 kWh / m2"), ("clausius", "4.184", {"kg": 1, "m": 2, "s": -2, "K": -1}, None, "cal_th / K"), ("entropy_unit", "4.184", {"kg": 1, "m": 2, "s": -2, "K": -1, "mol": -1}, None, "cal_th / K / mol"),
    # ---- densities used by the manometric pressure units, and those units (NIST SP 811 conventional values)
    ("mercury", "13595.1", DENS, None, "0 degC"), ("water", "1000", DENS, None, "conventional"), ("mercury_60F", "13556.8", DENS, None, ""), ("water_39F", "999.972", DENS, None, ""), ("water_60F", "999.001", DENS, None, ""),
    ("centimeter_Hg", ("expr", F("0.01") * F("13595.1") * g0), PRESS, None, "SP 811: 1333.22"), ("inch_Hg", ("expr", inch * F("13595.1") * g0), PRESS, None, "SP 811: 3386.39 (32 degF)"),
    ("inch_Hg_60F", ("expr", inch * F("13556.8") * g0), PRESS, None, "SP 811: 3376.85"), ("inch_H2O_39F", ("expr", inch * F("999.972") * g0), PRESS, None, "SP 811: 249.082"), ("inch_H2O_60F", ("expr", inch * F("999.001") * g0), PRESS, None, "SP 811: 248.84"),
    ("foot_H2O", ("expr", ft * 1000 * g0), PRESS, None, "SP 811: 2989.07"), ("centimeter_H2O", "98.0665", PRESS, None, "SP 811"), ("kip_per_square_inch", ("expr", 1000 * lbf / inch**2), PRESS, None, "ksi"),
    ("sound_pressure_level", "20e-6", PRESS, None, "reference pressure 20 uPa"), ("reyn", ("expr", lbf / inch**2), {"kg": 1, "m": -1, "s": -1}, None, "psi s"), ("rhe", "10", {"kg": -1, "m": 1, "s": 1}, None, "1 / poise"),
    # ---- photometry, electromagnetism (SI side)
    ("lambert", pi_(10000, -1), {"cd": 1, "m": -2}, None, "1/pi cd/cm2"), ("biot", "10", {"A": 1}, None, "abampere"), ("ampere_turn", "1", {"A": 1}, None, ""), ("biot_turn", "10", {"A": 1}, None, ""), ("gilbert", pi_(F(10, 4), -1), {"A": 1}, None, "10/4pi A"),
    ("townsend", "1e-21", {"kg": 1, "m": 4, "s": -3, "A": -1}, None, "1e-21 V m2"), ("absiemens", "1e9", {"kg": -1, "m": -2, "s": 3, "A": 2}, None, "CGS-EMU"),
    ("debye", ("expr", F("1e-19") / 29979245800), {"A": 1, "s": 1, "m": 1}, None, "1e-18 statC cm"), ("buckingham", ("expr", F("1e-29") / 29979245800), {"A": 1, "s": 1, "m": 2}, None, "debye angstrom"),
    # ---- Gaussian units (pint keeps half-integer powers of the mechanical base units)
    ("franklin", approx(sqrt_1e9_inv, "1e-15"), {"kg": H2, "m": F(3, 2), "s": -1}, None, "sqrt(erg cm)"), ("statvolt", approx(D("1e-7") / sqrt_1e9_inv, "1e-15"), {"kg": H2, "m": H2, "s": -1}, None, "erg / Fr"),
    ("statampere", approx(sqrt_1e9_inv, "1e-15"), {"kg": H2, "m": F(3, 2), "s": -2}, None, "Fr / s"), ("gauss", approx(D("1e-5") / sqrt_1e9_inv, "1e-15"), {"kg": H2, "m": -H2, "s": -1}, None, "dyn / Fr"),
    ("maxwell", approx(D("1e-9") / sqrt_1e9_inv, "1e-15"), {"kg": H2, "m": F(3, 2), "s": -1}, None, "G cm2"), ("oersted", approx(D("1e-5") / sqrt_1e9_inv, "1e-15"), {"kg": H2, "m": -H2, "s": -1}, None, "dyn / Mx"),
    ("statohm", approx(D(100), "1e-14"), {"m": -1, "s": 1}, None, "statV / statA"), ("statfarad", approx(D("0.01"), "1e-14"), {"m": 1}, None, "Fr / statV: 1 cm"), ("statmho", approx(D("0.01"), "1e-14"), {"m": 1, "s": -1}, None, ""),
    ("statweber", approx(D("1e-7") / sqrt_1e9_inv, "1e-15"), {"kg": H2, "m": H2}, None, "statV s"), ("stattesla", approx(D("1e-3") / sqrt_1e9_inv, "1e-15"), {"kg": H2, "m": -F(3, 2)}, None, "statWb / cm2"),
    ("stathenry", approx(D(100), "1e-14"), {"m": -1, "s": 2}, None, "statWb / statA"),
    # ---- US customary / imperial leftovers
    ("circular_mil", ("pi", 16129, 10**14), A2, None, "pi/4 (0.001 in)^2"), ("cables_length", ("expr", 720 * sft), L, None, "120 fathoms (pint: survey fathom)"), ("square_survey_mile", ("expr", (5280 * sft) ** 2), A2, None, "HB 44"),
    ("square_league", ("expr", (3 * 5280 * sft) ** 2), A2, None, ""), ("acre_foot", ("expr", 43560 * sft**3), V3, None, "HB 44"), ("dry_barrel", ("expr", 7056 * inch**3), V3, None, "HB 44"), ("board_foot", ("expr", 144 * inch**3), V3, None, ""),
    ("fifth", ("expr", gal / 5), V3, None, ""), ("shot", ("expr", 3 * gal / 256), V3, None, "3 tablespoons"), ("beer_barrel", ("expr", 31 * gal), V3, None, "US federal"), ("quarter", ("expr", 28 * lb), M, None, "imperial quarter: 28 lb = 2 stone = 1/4 long hundredweight"), ("bag", ("expr", 94 * lb), M, None, "cement"),
    ("UK_hundredweight", ("expr", 112 * lb), M, None, ""), ("UK_ton", ("expr", 2240 * lb), M, None, ""), ("US_hundredweight", ("expr", 100 * lb), M, None, ""), ("US_ton", ("expr", 2000 * lb), M, None, ""),
    ("imperial_minim", ("expr", ifloz / 480), V3, None, "UK WMA"), ("imperial_fluid_scruple", ("expr", ifloz / 24), V3, None, "UK WMA"), ("imperial_fluid_drachm", ("expr", ifloz / 8), V3, None, "UK WMA"),
    ("imperial_cup", ("expr", igal / 16), V3, None, "half an imperial pint"), ("imperial_barrel", ("expr", 36 * igal), V3, None, "UK"),
    # ---- typography, textile, pixels, dimensionless markers
    ("didot", "1/2660", L, None, "Didot point (1/2660 m)"), ("cicero", "12/2660", L, None, ""), ("tex_pica", ("expr", 12 * txp), L, None, "TeX"), ("tex_didot", ("expr", F(1238, 1157) * txp), L, None, "TeX"),
    ("tex_cicero", ("expr", 12 * F(1238, 1157) * txp), L, None, "TeX"), ("scaled_point", ("expr", txp / 65536), L, None, "TeX"),
    ("pixel", "1", {"px": 1}, None, ""), ("pixels_per_centimeter", "100", {"px": 1, "m": -1}, None, ""), ("pixels_per_inch", ("expr", 1 / inch), {"px": 1, "m": -1}, None, ""), ("bits_per_pixel", "1", {"bit": 1, "px": -1}, None, ""),
    ("dtex", "1e-7", {"kg": 1, "m": -1}, None, "decitex"), ("jute", ("expr", lb / (14400 * yd)), {"kg": 1, "m": -1}, None, ""), ("aberdeen", ("expr", lb / (14400 * yd)), {"kg": 1, "m": -1}, None, ""),
    ("RKM", "9806.65", {"m": 2, "s": -2}, None, "gf / tex"), ("number_english", ("expr", 840 * yd / lb), {"kg": -1, "m": 1}, None, ""), ("number_meter", "1000", {"kg": -1, "m": 1}, None, "km / kg"),
    ("count", "1", {"count": 1}, None, ""), ("refractive_index_unit", "1", {"riu": 1}, None, ""), ("absorbance_unit", "1", {"abu": 1}, None, ""),
]
ROWS = ROWS + ROWS2

# affine temperature scales: kelvin = a * x + b
SCALES = [
    ("degree_Celsius", "1", "273.15", "°C"), ("degree_Fahrenheit", "5/9", "45967/180", "°F"), ("degree_Rankine", "5/9", "0", "°R"), ("degree_Reaumur", "5/4", "273.15", "°Re"), ("kelvin", "1", "0", "K"),
]

# symbols are asserted only where an international standard fixes one (SI Brochure, SP 811, HB 44 abbreviations)
KEEP_SYMBOL = {
    "meter", "kilogram", "gram", "second", "ampere", "kelvin", "mole", "candela", "radian", "steradian", "hertz", "newton", "pascal", "joule", "watt", "coulomb", "volt", "farad", "ohm", "siemens", "weber", "tesla",
    "henry", "lumen", "lux", "becquerel", "gray", "sievert", "katal", "electron_volt", "minute", "hour", "day", "hectare", "liter", "metric_ton", "astronomical_unit", "angstrom", "barn", "standard_atmosphere",
    "inch", "foot", "yard", "mile", "pound", "ounce", "grain", "gallon", "quart", "pint", "byte", "curie", "poise", "stokes", "galileo", "dyne", "calorie", "horsepower", "force_pound", "force_kilogram",
    "dalton", "unified_atomic_mass_unit", "percent", "permille", "parsec", "light_year", "year",
}
ROWS = [(n, v, d, (sym if n in KEEP_SYMBOL else None), src) for (n, v, d, sym, src) in ROWS]
