"""Independently curated standard values for C20.

Typed in by hand from: BIPM, The International System of Units (SI Brochure), 9th ed. (2019, v2.01 2022:
prefixes ronna/quetta/ronto/quecto); NIST SP 811 (2008) Appendix B and NIST SP 330 (2019); NIST Handbook 44
Appendix C (US customary, avoirdupois, troy, apothecaries); the UK Weights and Measures Act 1985 (imperial
gallon 4.54609 L); IAU 2012 Resolution B2 (au) and IAU 2015 Resolution B2 (parsec); CODATA 2022 recommended
values (Mohr, Newell, Taylor, Tiesinga 2024).  NOT generated from pint's definition files.

Row: (pint spelling, exact SI value, SI dimension exponents, standard symbol or None, source)
  value: a string read by Fraction ("0.3048", "1200/3937"), or a tuple ("pi", numerator, denominator[, power of pi])
         for values containing pi, or ("expr", Fraction) computed below from other exact rows.
  dims : exponents over kg m s A K mol cd (and the dimensionless base units rad, bit, count that pint keeps)
"""
from fractions import Fraction as F

PI50 = "3.14159265358979323846264338327950288419716939937510"

L = {"m": 1}
A2 = {"m": 2}
V3 = {"m": 3}
M = {"kg": 1}
T = {"s": 1}
FORCE = {"kg": 1, "m": 1, "s": -2}
PRESS = {"kg": 1, "m": -1, "s": -2}
ENERGY = {"kg": 1, "m": 2, "s": -2}
POWER = {"kg": 1, "m": 2, "s": -3}
SPEED = {"m": 1, "s": -1}
NONE = {}

inch = F("0.0254")
ft = F("0.3048")
yd = F("0.9144")
lb = F("0.45359237")
g0 = F("9.80665")
gr = F("0.00006479891")
sft = F(1200, 3937)
gal = 231 * inch**3
igal = F("0.00454609")
bu = F("2150.42") * inch**3
lbf = lb * g0
c0 = F(299792458)
h_ = F("6.62607015e-34")
e_ = F("1.602176634e-19")
k_ = F("1.380649e-23")
NA = F("6.02214076e23")
day = F(86400)
jyear = F("365.25") * day

PREFIXES = [
    ("quecto", F(10) ** -30, "q"), ("ronto", F(10) ** -27, "r"), ("yocto", F(10) ** -24, "y"), ("zepto", F(10) ** -21, "z"), ("atto", F(10) ** -18, "a"), ("femto", F(10) ** -15, "f"),
    ("pico", F(10) ** -12, "p"), ("nano", F(10) ** -9, "n"), ("micro", F(10) ** -6, "µ"), ("milli", F(10) ** -3, "m"), ("centi", F(10) ** -2, "c"), ("deci", F(10) ** -1, "d"),
    ("deca", F(10), "da"), ("hecto", F(10) ** 2, "h"), ("kilo", F(10) ** 3, "k"), ("mega", F(10) ** 6, "M"), ("giga", F(10) ** 9, "G"), ("tera", F(10) ** 12, "T"), ("peta", F(10) ** 15, "P"),
    ("exa", F(10) ** 18, "E"), ("zetta", F(10) ** 21, "Z"), ("yotta", F(10) ** 24, "Y"), ("ronna", F(10) ** 27, "R"), ("quetta", F(10) ** 30, "Q"),
    ("kibi", F(2) ** 10, "Ki"), ("mebi", F(2) ** 20, "Mi"), ("gibi", F(2) ** 30, "Gi"), ("tebi", F(2) ** 40, "Ti"), ("pebi", F(2) ** 50, "Pi"), ("exbi", F(2) ** 60, "Ei"), ("zebi", F(2) ** 70, "Zi"), ("yobi", F(2) ** 80, "Yi"),
]

ROWS = [
    # ---- SI base units
    ("meter", "1", L, "m", "SI"), ("kilogram", "1", M, "kg", "SI"), ("gram", "0.001", M, "g", "SI"), ("second", "1", T, "s", "SI"), ("ampere", "1", {"A": 1}, "A", "SI"),
    ("kelvin", "1", {"K": 1}, "K", "SI"), ("mole", "1", {"mol": 1}, "mol", "SI"), ("candela", "1", {"cd": 1}, "cd", "SI"),
    # ---- the 22 SI units with special names
    ("radian", "1", {"rad": 1}, "rad", "SI"), ("steradian", "1", {"rad": 2}, "sr", "SI"), ("hertz", "1", {"s": -1}, "Hz", "SI"), ("newton", "1", FORCE, "N", "SI"), ("pascal", "1", PRESS, "Pa", "SI"),
    ("joule", "1", ENERGY, "J", "SI"), ("watt", "1", POWER, "W", "SI"), ("coulomb", "1", {"A": 1, "s": 1}, "C", "SI"), ("volt", "1", {"kg": 1, "m": 2, "s": -3, "A": -1}, "V", "SI"),
    ("farad", "1", {"kg": -1, "m": -2, "s": 4, "A": 2}, "F", "SI"), ("ohm", "1", {"kg": 1, "m": 2, "s": -3, "A": -2}, "Ω", "SI"), ("siemens", "1", {"kg": -1, "m": -2, "s": 3, "A": 2}, "S", "SI"),
    ("weber", "1", {"kg": 1, "m": 2, "s": -2, "A": -1}, "Wb", "SI"), ("tesla", "1", {"kg": 1, "s": -2, "A": -1}, "T", "SI"), ("henry", "1", {"kg": 1, "m": 2, "s": -2, "A": -2}, "H", "SI"),
    ("lumen", "1", {"cd": 1, "rad": 2}, "lm", "SI"), ("lux", "1", {"cd": 1, "rad": 2, "m": -2}, "lx", "SI"), ("becquerel", "1", {"s": -1, "count": 1}, "Bq", "SI"), ("gray", "1", {"m": 2, "s": -2}, "Gy", "SI"),
    ("sievert", "1", {"m": 2, "s": -2}, "Sv", "SI"), ("katal", "1", {"mol": 1, "s": -1}, "kat", "SI"),
    # ---- defining constants of the SI (2019) and conventional values
    ("speed_of_light", "299792458", SPEED, None, "SI 2019"), ("planck_constant", "6.62607015e-34", {"kg": 1, "m": 2, "s": -1}, None, "SI 2019"), ("elementary_charge", "1.602176634e-19", {"A": 1, "s": 1}, None, "SI 2019"),
    ("boltzmann_constant", "1.380649e-23", {"kg": 1, "m": 2, "s": -2, "K": -1}, None, "SI 2019"), ("avogadro_constant", "6.02214076e23", {"mol": -1}, None, "SI 2019"), ("avogadro_number", "6.02214076e23", NONE, None, "SI 2019"),
    ("standard_gravity", "9.80665", {"m": 1, "s": -2}, None, "CGPM 1901"), ("standard_atmosphere", "101325", PRESS, "atm", "CGPM 1954"),
    ("conventional_josephson_constant", "4.835979e14", {"kg": -1, "m": -2, "s": 2, "A": 1}, None, "CIPM 1988"), ("conventional_von_klitzing_constant", "25812.807", {"kg": 1, "m": 2, "s": -3, "A": -2}, None, "CIPM 1988"),
    ("molar_gas_constant", ("expr", k_ * NA), {"kg": 1, "m": 2, "s": -2, "K": -1, "mol": -1}, None, "SI 2019 (exact product)"), ("faraday_constant", ("expr", e_ * NA), {"A": 1, "s": 1, "mol": -1}, None, "SI 2019 (exact product)"),
    ("electron_volt", "1.602176634e-19", ENERGY, "eV", "SI 2019"), ("josephson_constant", ("expr", 2 * e_ / h_), {"kg": -1, "m": -2, "s": 2, "A": 1}, None, "SI 2019"), ("von_klitzing_constant", ("expr", h_ / e_**2), {"kg": 1, "m": 2, "s": -3, "A": -2}, None, "SI 2019"),
    # ---- non-SI units accepted for use with the SI
    ("minute", "60", T, "min", "SI table 8"), ("hour", "3600", T, "h", "SI table 8"), ("day", "86400", T, "d", "SI table 8"), ("hectare", "10000", A2, "ha", "SI table 8"), ("liter", "0.001", V3, "l", "SI table 8"),
    ("metric_ton", "1000", M, "t", "SI table 8"), ("astronomical_unit", "149597870700", L, "au", "IAU 2012 B2"), ("degree", ("pi", 1, 180), {"rad": 1}, "deg", "SI table 8"), ("arcminute", ("pi", 1, 10800), {"rad": 1}, "arcmin", "SI table 8"),
    ("arcsecond", ("pi", 1, 648000), {"rad": 1}, "arcsec", "SI table 8"), ("are", "100", A2, None, "SI"), ("bar", "100000", PRESS, "bar", "SP 811"), ("angstrom", "1e-10", L, "Å", "SP 811"), ("barn", "1e-28", A2, "b", "SP 811"),
    ("nautical_mile", "1852", L, "nmi", "IHB 1929"), ("knot", "1852/3600", SPEED, "kt", "SP 811"), ("micron", "1e-6", L, None, "SP 811"), ("fermi", "1e-15", L, None, "SP 811"), ("carat", "0.0002", M, "ct", "CGPM 1907"),
    ("turn", ("pi", 2, 1), {"rad": 1}, None, "SP 811"), ("grade", ("pi", 1, 200), {"rad": 1}, None, "SP 811 (gon)"), ("light_year", ("expr", c0 * jyear), L, "ly", "IAU"), ("parsec", ("pi", 149597870700 * 648000, 1, -1), L, "pc", "IAU 2015 B2"),
    # ---- time
    ("week", "604800", T, None, "SP 811"), ("fortnight", "1209600", T, None, ""), ("year", "31557600", T, "a", "IAU Julian year"), ("julian_year", "31557600", T, None, "IAU"), ("common_year", "31536000", T, None, "365 d"), ("leap_year", "31622400", T, None, "366 d"),
    ("gregorian_year", "31556952", T, None, "365.2425 d"), ("century", "3155760000", T, None, "100 Julian years"), ("millennium", "31557600000", T, None, ""), ("shake", "1e-8", T, None, "SP 811"),
    # ---- international yard and pound (1959) and multiples
    ("inch", "0.0254", L, "in", "1959"), ("foot", "0.3048", L, "ft", "1959"), ("yard", "0.9144", L, "yd", "1959"), ("mile", "1609.344", L, "mi", "1959"), ("thou", "0.0000254", L, "th", "SP 811 (mil)"), ("hand", "0.1016", L, None, "4 in"),
    ("square_inch", ("expr", inch**2), A2, "sq_in", ""), ("square_foot", ("expr", ft**2), A2, "sq_ft", ""), ("square_yard", ("expr", yd**2), A2, "sq_yd", ""), ("square_mile", ("expr", (1760 * yd) ** 2), A2, "sq_mi", ""),
    ("cubic_inch", ("expr", inch**3), V3, "cu_in", ""), ("cubic_foot", ("expr", ft**3), V3, "cu_ft", ""), ("cubic_yard", ("expr", yd**3), V3, "cu_yd", ""),
    ("mile_per_hour", ("expr", 1760 * yd / 3600), SPEED, "mph", ""), ("foot_per_second", "0.3048", SPEED, "fps", ""),
    # ---- US survey measure (NIST Handbook 44)
    ("survey_foot", "1200/3937", L, "sft", "HB 44"), ("survey_mile", ("expr", 5280 * sft), L, "smi", "HB 44"), ("rod", ("expr", F("16.5") * sft), L, "rd", "HB 44"), ("chain", ("expr", 66 * sft), L, None, "HB 44"),
    ("furlong", ("expr", 660 * sft), L, "fur", "HB 44"), ("link", ("expr", F("0.66") * sft), L, "li", "HB 44"), ("fathom", ("expr", 6 * sft), L, None, "HB 44 (pint: survey)"), ("league", ("expr", 3 * 5280 * sft), L, None, "HB 44"),
    ("acre", ("expr", 43560 * sft**2), A2, None, "HB 44"), ("square_rod", ("expr", (F("16.5") * sft) ** 2), A2, "sq_rod", "HB 44"),
    # ---- avoirdupois, troy, apothecaries
    ("pound", "0.45359237", M, "lb", "1959"), ("ounce", ("expr", lb / 16), M, "oz", "HB 44"), ("dram", ("expr", lb / 256), M, "dr", "HB 44"), ("grain", "0.00006479891", M, "gr", "HB 44"), ("stone", ("expr", 14 * lb), M, None, "UK WMA"),
    ("hundredweight", ("expr", 100 * lb), M, "cwt", "HB 44 (short)"), ("long_hundredweight", ("expr", 112 * lb), M, None, "HB 44"), ("ton", ("expr", 2000 * lb), M, None, "HB 44 (short)"), ("long_ton", ("expr", 2240 * lb), M, None, "HB 44"),
    ("pennyweight", ("expr", 24 * gr), M, "dwt", "HB 44"), ("troy_ounce", ("expr", 480 * gr), M, "toz", "HB 44"), ("troy_pound", ("expr", 5760 * gr), M, "tlb", "HB 44"),
    ("scruple", ("expr", 20 * gr), M, None, "HB 44"), ("apothecary_dram", ("expr", 60 * gr), M, "ap_dr", "HB 44"), ("apothecary_ounce", ("expr", 480 * gr), M, "ap_oz", "HB 44"), ("apothecary_pound", ("expr", 5760 * gr), M, "ap_lb", "HB 44"),
    ("slug", ("expr", lbf / ft), M, None, "SP 811"),
    # ---- US liquid and dry measure
    ("gallon", ("expr", gal), V3, "gal", "HB 44 (231 in3)"), ("quart", ("expr", gal / 4), V3, "qt", "HB 44"), ("pint", ("expr", gal / 8), V3, "pt", "HB 44"), ("cup", ("expr", gal / 16), V3, "cp", "HB 44"), ("gill", ("expr", gal / 32), V3, "gi", "HB 44"),
    ("fluid_ounce", ("expr", gal / 128), V3, "floz", "HB 44"), ("tablespoon", ("expr", gal / 256), V3, "tbsp", "HB 44"), ("teaspoon", ("expr", gal / 768), V3, "tsp", "HB 44"), ("fluid_dram", ("expr", gal / 1024), V3, "fldr", "HB 44"),
    ("minim", ("expr", gal / 61440), V3, None, "HB 44"), ("oil_barrel", ("expr", 42 * gal), V3, "oil_bbl", "HB 44"), ("barrel", ("expr", F("31.5") * gal), V3, "bbl", "HB 44"), ("hogshead", ("expr", 63 * gal), V3, None, "HB 44"),
    ("bushel", ("expr", bu), V3, "bu", "HB 44 (2150.42 in3)"), ("peck", ("expr", bu / 4), V3, "pk", "HB 44"), ("dry_gallon", ("expr", bu / 8), V3, "dgal", "HB 44"), ("dry_quart", ("expr", bu / 32), V3, "dqt", "HB 44"), ("dry_pint", ("expr", bu / 64), V3, "dpi", "HB 44"),
    # ---- imperial capacity
    ("imperial_gallon", "0.00454609", V3, "imperial_gal", "UK WMA 1985"), ("imperial_quart", ("expr", igal / 4), V3, "imperial_qt", "UK WMA"), ("imperial_pint", ("expr", igal / 8), V3, "imperial_pt", "UK WMA"),
    ("imperial_gill", ("expr", igal / 32), V3, "imperial_gi", "UK WMA"), ("imperial_fluid_ounce", ("expr", igal / 160), V3, "imperial_floz", "UK WMA"), ("imperial_peck", ("expr", 2 * igal), V3, "imperial_pk", "UK WMA"), ("imperial_bushel", ("expr", 8 * igal), V3, "imperial_bu", "UK WMA"),
    # ---- force, pressure, energy, power
    ("dyne", "1e-5", FORCE, "dyn", "CGS"), ("force_kilogram", "9.80665", FORCE, "kgf", "SP 811"), ("force_pound", ("expr", lbf), FORCE, "lbf", "SP 811"), ("poundal", ("expr", lb * ft), FORCE, "pdl", "SP 811"),
    ("kip", ("expr", 1000 * lbf), FORCE, None, "SP 811"), ("force_ounce", ("expr", lbf / 16), FORCE, "ozf", "SP 811"),
    ("barye", "0.1", PRESS, "Ba", "CGS"), ("technical_atmosphere", "98066.5", PRESS, "at", "SP 811"), ("torr", "101325/760", PRESS, None, "SP 811"), ("pound_force_per_square_inch", ("expr", lbf / inch**2), PRESS, "psi", "SP 811"),
    ("millimeter_Hg", "133.322387415", PRESS, "mmHg", "SP 811 (conventional)"), ("erg", "1e-7", ENERGY, None, "CGS"), ("calorie", "4.184", ENERGY, "cal", "SP 811 (thermochemical)"), ("international_calorie", "4.1868", ENERGY, "cal_it", "SP 811 (IT)"),
    ("watt_hour", "3600", ENERGY, "Wh", ""), ("international_british_thermal_unit", ("expr", F("4.1868") * 1000 * lb * 5 / 9), ENERGY, "Btu_it", "SP 811 (IT)"), ("foot_pound", ("expr", lbf * ft), ENERGY, "ft_lb", "SP 811"),
    ("horsepower", ("expr", 550 * lbf * ft), POWER, "hp", "SP 811 (550 ft lbf/s)"), ("metric_horsepower", ("expr", 75 * g0), POWER, None, "SP 811"), ("electrical_horsepower", "746", POWER, None, "SP 811"),
    ("ton_TNT", "4.184e9", ENERGY, "tTNT", "SP 811"),
    # ---- viscosity and other CGS
    ("poise", "0.1", {"kg": 1, "m": -1, "s": -1}, "P", "CGS"), ("stokes", "0.0001", {"m": 2, "s": -1}, "St", "CGS"), ("galileo", "0.01", {"m": 1, "s": -2}, "Gal", "CGS"), ("reciprocal_centimeter", "100", {"m": -1}, None, "CGS (kayser)"),
    ("stilb", "10000", {"cd": 1, "m": -2}, None, "CGS"), ("nit", "1", {"cd": 1, "m": -2}, None, ""), ("langley", "41840", {"kg": 1, "s": -2}, "Ly", "cal_th/cm2"),
    # ---- temperature scales (scale only here; the affine maps are checked separately)
    ("degree_Rankine", "5/9", {"K": 1}, "°R", "SP 811"),
    # ---- radiation
    ("curie", "3.7e10", {"s": -1, "count": 1}, "Ci", "SP 811"), ("rutherford", "1e6", {"s": -1, "count": 1}, "Rd", ""), ("rads", "0.01", {"m": 2, "s": -2}, None, "SP 811 (rad)"), ("rem", "0.01", {"m": 2, "s": -2}, None, "SP 811"),
    ("roentgen", "2.58e-4", {"A": 1, "s": 1, "kg": -1}, None, "SP 811"),
    # ---- electricity
    ("ampere_hour", "3600", {"A": 1, "s": 1}, "Ah", ""), ("abampere", "10", {"A": 1}, "abA", "CGS-EMU"), ("abcoulomb", "10", {"A": 1, "s": 1}, "abC", "CGS-EMU"), ("abvolt", "1e-8", {"kg": 1, "m": 2, "s": -3, "A": -1}, "abV", "CGS-EMU"),
    ("abohm", "1e-9", {"kg": 1, "m": 2, "s": -3, "A": -2}, "abΩ", "CGS-EMU"), ("abfarad", "1e9", {"kg": -1, "m": -2, "s": 4, "A": 2}, "abF", "CGS-EMU"), ("abhenry", "1e-9", {"kg": 1, "m": 2, "s": -2, "A": -2}, "abH", "CGS-EMU"),
    ("gamma", "1e-9", {"kg": 1, "s": -2, "A": -1}, "γ", "SP 811"), ("volt_ampere", "1", POWER, "VA", ""),
    # ---- information, dimensionless
    ("bit", "1", {"bit": 1}, None, "IEC 80000-13"), ("byte", "8", {"bit": 1}, "B", "IEC 80000-13"), ("baud", "1", {"bit": 1, "s": -1}, "Bd", ""), ("percent", "0.01", NONE, "%", ""), ("permille", "0.001", NONE, "‰", ""), ("ppm", "1e-6", NONE, None, ""),
    # ---- chemistry / textile / typography
    ("molar", "1000", {"mol": 1, "m": -3}, "M", "mol/L"), ("enzyme_unit", ("expr", F("1e-6") / 60), {"mol": 1, "s": -1}, "U", "IUB"), ("tex", "1e-6", {"kg": 1, "m": -1}, "Tt", "ISO 1144"), ("denier", ("expr", F("1e-6") / 9), {"kg": 1, "m": -1}, "den", ""),
    ("pica", ("expr", inch / 6), L, None, "DTP"), ("point", ("expr", inch / 72), L, "pp", "DTP"), ("css_pixel", ("expr", inch / 96), L, "px", "CSS"), ("tex_point", ("expr", inch / F("72.27")), L, None, "TeX"),
    # ---- CODATA 2022 measured constants (digits as printed in the adjustment)
    ("newtonian_constant_of_gravitation", "6.67430e-11", {"kg": -1, "m": 3, "s": -2}, None, "CODATA 2022"), ("rydberg_constant", "10973731.568157", {"m": -1}, None, "CODATA 2022"), ("electron_g_factor", "-2.00231930436092", NONE, None, "CODATA 2022"),
    ("atomic_mass_constant", "1.66053906892e-27", M, None, "CODATA 2022"), ("electron_mass", "9.1093837139e-31", M, None, "CODATA 2022"), ("proton_mass", "1.67262192595e-27", M, None, "CODATA 2022"), ("neutron_mass", "1.67492750056e-27", M, None, "CODATA 2022"),
    ("x_unit_Cu", "1.00207697e-13", L, None, "CODATA 2022"), ("x_unit_Mo", "1.00209952e-13", L, None, "CODATA 2022"), ("angstrom_star", "1.00001495e-10", L, None, "CODATA 2022"), ("dalton", "1.66053906892e-27", M, "Da", "CODATA 2022"),
    ("unified_atomic_mass_unit", "1.66053906892e-27", M, "u", "CODATA 2022"),
]

# affine temperature scales: kelvin = a * x + b
SCALES = [
    ("degree_Celsius", "1", "273.15", "°C"), ("degree_Fahrenheit", "5/9", "45967/180", "°F"), ("degree_Rankine", "5/9", "0", "°R"), ("degree_Reaumur", "5/4", "273.15", "°Re"), ("kelvin", "1", "0", "K"),
]

# symbols are asserted only where an international standard fixes one (SI Brochure, SP 811, HB 44 abbreviations)
KEEP_SYMBOL = {
    "meter", "kilogram", "gram", "second", "ampere", "kelvin", "mole", "candela", "radian", "steradian", "hertz", "newton", "pascal", "joule", "watt", "coulomb", "volt", "farad", "ohm", "siemens", "weber", "tesla",
    "henry", "lumen", "lux", "becquerel", "gray", "sievert", "katal", "electron_volt", "minute", "hour", "day", "hectare", "liter", "metric_ton", "astronomical_unit", "angstrom", "barn", "standard_atmosphere",
    "inch", "foot", "yard", "mile", "pound", "ounce", "grain", "gallon", "quart", "pint", "byte", "curie", "poise", "stokes", "galileo", "dyne", "calorie", "horsepower", "force_pound", "force_kilogram",
    "dalton", "unified_atomic_mass_unit", "percent", "permille", "parsec", "light_year", "year",
}
ROWS = [(n, v, d, (sym if n in KEEP_SYMBOL else None), src) for (n, v, d, sym, src) in ROWS]
