#!/bin/bash
# usage: tools/verify_seed.sh <seed dir with patch.diff + demo.py> <ID> <out.json>
# Confirms independently, in a scratch worktree of /repo HEAD: demo passes on the clean tree, the patch applies,
# demo fails with it, the full test-suite still passes, and ./check <ID> reports a VIOLATION.
set -u
SD="$1"; ID="$2"; OUT="$3"
WT=$(mktemp -d /tmp/wt_verify.XXXXXX); rmdir "$WT"
git -C /repo worktree add --detach "$WT" ${SEED_BASE:-HEAD} >/dev/null 2>&1 || { echo '{"error":"worktree"}' > "$OUT"; exit 2; }
cleanup() { git -C /repo worktree remove --force "$WT" >/dev/null 2>&1; rm -rf "$WT"; }
trap cleanup EXIT
cd "$WT"; export PYTHONPATH="$WT"
/venv/bin/python -W ignore "$SD/demo.py" >/dev/null 2>&1; demo_clean=$?
P="$SD/patch.diff"; [ -f "$SD/patch_rebased.diff" ] && P="$SD/patch_rebased.diff"; if git apply --whitespace=nowarn "$P" 2>/dev/null; then applies=true; else applies=false; fi
demo_patched=-1; tests="not run"; check_rc=-1; check_sites=""
if $applies; then
  /venv/bin/python -W ignore "$SD/demo.py" >/dev/null 2>&1; demo_patched=$?
  tests=$(/venv/bin/python -m pytest -q -p no:cacheprovider --timeout=900 pint 2>&1 | tail -1)
  res=$(VERIF_OUT="$WT/.verif_out" VERIF_REPO="$WT" /verif/check "$ID" --tier quick 2>&1)
  check_rc=$?
  check_sites=$(echo "$res" | grep "site=" | grep -v KNOWN | head -4 | sed 's/occurrences.*//' | tr '\n' ';' | tr '"' "'")
fi
python3 - "$OUT" <<PY
import json,sys
json.dump({"id":"$ID","demo_clean_rc":$demo_clean,"patch_applies":"$applies","demo_patched_rc":$demo_patched,"tests":"""$tests""","check_rc":$check_rc,"check_sites":"""$check_sites"""}, open(sys.argv[1],'w'), indent=1)
PY
