#!/bin/bash
# usage: tools/seedtest.sh <patch.diff> <ID> [tier]   — run ./check ID against a scratch copy of /repo with the patch applied
set -u
PATCH="$1"; ID="$2"; TIER="${3:-quick}"
D=$(mktemp -d /dev/shm/verif_mut.XXXXXX)
trap 'rm -rf "$D"' EXIT
git -C /repo archive ${SEED_BASE:-HEAD} | tar -x -C "$D"
( cd "$D" && git init -q . 2>/dev/null >/dev/null; git -C "$D" apply --whitespace=nowarn "$PATCH" ) || { echo "PATCH DOES NOT APPLY"; exit 3; }
VERIF_OUT="$D/.verif_out" VERIF_REPO="$D" /verif/check "$ID" --tier "$TIER" 2>&1 | grep -v conda | grep -E "^(VIOLATION|KNOWN|HARNESS|\[C)|site=" | head -${LINES_MAX:-12}
echo "rc=${PIPESTATUS[0]}"
