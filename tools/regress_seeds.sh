#!/bin/bash
# usage: tools/regress_seeds.sh [out.tsv] [jobs]   — every kept seeded change against its own check (quick tier), in scratch copies
OUT="${1:-/tmp/regress_seeds.tsv}"; JOBS="${2:-3}"
: > "$OUT"
one() {
  d="$1"; id=$(basename "$d"); chk="${id:0:3}"
  base=$(python3 -c "import json,re,sys; m=json.load(open('$d/meta.json')); a=m.get('applies_to',''); r=re.search(r'/repo ([0-9a-f]{7}) \(the parent', a); print(r.group(1) if r else 'HEAD')")
  res=$(SEED_BASE=$base LINES_MAX=400 /verif/tools/seedtest.sh "$d/patch.diff" "$chk" quick 2>&1)
  rc=$(echo "$res" | grep -o "rc=[0-9]*" | tail -1)
  nv=$(echo "$res" | grep -c "^VIOLATION")
  he=$(echo "$res" | grep -c "HARNESS-ERROR")
  echo -e "$id\t$rc\tviolations=$nv\tharness=$he" >> "$OUT"
}
export -f one; export OUT
ls -d /verif/seeded/C??? | xargs -P "$JOBS" -I{} bash -c 'one {}'
sort "$OUT" -o "$OUT"
echo done >> "$OUT"
