#!/usr/bin/env python3
"""tools/collect_seed.py <seed id> <summary> <needs> [extra 'Cxx:rc:sites' ...]
Copies a confirmed property-breaking change from /tmp/seedout/<id> into /verif/seeded/<id>/ and writes meta.json
from the independent verification record (/tmp/seedverify/<id>.json, produced by tools/verify_seed.sh)."""
import json, os, shutil, sys

sid, summary, needs = sys.argv[1:4]
extra = sys.argv[4:]
src, dst = f"/tmp/seedout/{sid}", f"/verif/seeded/{sid}"
os.makedirs(dst, exist_ok=True)
v = json.load(open(f"/tmp/seedverify/{sid}.json"))
rebased = os.path.exists(f"{src}/patch_rebased.diff")
if rebased:
    shutil.copy(f"{src}/patch_rebased.diff", f"{dst}/patch.diff")
    shutil.copy(f"{src}/patch.diff", f"{dst}/patch_as_delivered.diff")
else:
    shutil.copy(f"{src}/patch.diff", f"{dst}/patch.diff")
shutil.copy(f"{src}/demo.py", f"{dst}/demo.py")
shutil.copy(f"{src}/notes.md", f"{dst}/notes.md")
head = os.popen("git -C /repo rev-parse --short HEAD").read().strip()
caught = [{"check": v["id"], "tier": "quick", "exit": v["check_rc"], "sites": [s.strip() for s in v["check_sites"].split(";") if s.strip()]}]
for e in extra:
    c, rc, sites = e.split(":", 2)
    caught.append({"check": c, "tier": "quick", "exit": int(rc), "sites": [s for s in sites.split(";") if s]})
meta = {
    "id": sid,
    "property": sid[:3],
    "origin": "written by a fresh sub-agent that was given only the property text and a scratch worktree of /repo",
    "what": summary,
    "needs_to_manifest": needs,
    "applies_to": f"/repo HEAD {head}" + (" (patch.diff is the delivered change rebased over later fix: commits; patch_as_delivered.diff is the original)" if rebased else ""),
    "confirmed_in_scratch_worktree": {
        "demo_on_clean_tree_exit": v["demo_clean_rc"],
        "demo_with_patch_exit": v["demo_patched_rc"],
        "test_suite_with_patch": v["tests"],
        "commands": [
            "git -C /repo worktree add --detach <wt> HEAD; cd <wt>",
            f"/venv/bin/python seeded/{sid}/demo.py   # exit 0",
            f"git apply seeded/{sid}/patch.diff; /venv/bin/python seeded/{sid}/demo.py   # exit 1",
            "/venv/bin/python -m pytest -q -p no:cacheprovider --timeout=900 pint",
            f"VERIF_REPO=<wt> /verif/check {v['id']} --tier quick   # exit 1, VIOLATION lines",
            "git -C /repo worktree remove --force <wt>",
        ],
    },
    "detected_by": caught,
}
json.dump(meta, open(f"{dst}/meta.json", "w"), indent=1)
print("collected", sid, [c["check"] + ":" + str(c["exit"]) for c in caught])
