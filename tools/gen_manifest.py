#!/usr/bin/env python3
"""Regenerates /verif/MANIFEST.json from the table below (run after adding a driver) and
validates it against /root/.vp/MANIFEST.schema.json when jsonschema is importable."""
import glob
import json
import os
import subprocess
import sys

HOME = os.path.dirname(os.path.dirname(os.path.abspath(__file__)))

# id -> (level category, technique, level text, level note, design ref)
CHECKS = {}
sys.path.insert(0, HOME)
import importlib

for _f in sorted(glob.glob(os.path.join(HOME, "checks", "c[0-9]*_*.py"))):
    _m = importlib.import_module("checks." + os.path.basename(_f)[:-3])
    if hasattr(_m, "MANIFEST"):
        _d = _m.MANIFEST
        CHECKS[_m.PROPERTY] = (_d["category"], _d["technique"], _d["text"], _d["note"], _d["ref"])

NOT_YET = "check not built yet in this revision (planned, see DESIGN.md §4); not claimed"
NA = {}


def main():
    props = [json.loads(l) for l in open(os.path.join(HOME, "properties.jsonl"))]
    checks = []
    na = []
    for p in props:
        pid = p["id"]
        have = glob.glob(os.path.join(HOME, "checks", pid.lower() + "_*.py"))
        if pid in CHECKS and have:
            cat, tech, text, note, ref = CHECKS[pid]
            checks.append(
                {
                    "property_id": pid,
                    "quick_cmd": f"./check {pid} --tier quick",
                    "thorough_cmd": f"./check {pid} --tier thorough",
                    "evidence_file": f"/verif/evidence/{pid}.json",
                    "replay_cmd_template": f"./check {pid} --replay {{path}}",
                    "engine": "mc",
                    "level_claimed": {"category": cat, "text": text, "design_ref": ref},
                    "level_note": note,
                    "technique": tech,
                }
            )
        else:
            na.append({"property_id": pid, "reason": NA.get(pid, NOT_YET)})
    hooks_commits = []
    man = {
        "version": 1,
        "setup_cmd": "cd /verif && chmod +x check && /venv/bin/python -c \"import sys; sys.path.insert(0,'/repo'); import pint, numpy, uncertainties\" && ./check --list >/dev/null",
        "hooks": {
            "guard": "PINT_VERIF",
            "enable": "no source hooks exist: every seam is reached from the harness (instance-level wrapping, constructor arguments); ./check exports PINT_VERIF=1 for uniformity only",
            "baseline_off_cmd": "cd /repo && /venv/bin/python -m pytest -ra -q -p no:cacheprovider --timeout=900 --continue-on-collection-errors",
            "source_commits": hooks_commits,
            "add_only": True,
        },
        "engines": [
            {
                "name": "mc",
                "path": "/verif/mc",
                "serves_properties": [c["property_id"] for c in checks],
                "kind_free_text": "hand-written bounded-exhaustive explorer for Python: E1 input enumerators, E2 explicit-state BFS over event histories on the real registry with "
                "fingerprint dedup and fresh-registry differential oracle, E3 fault-point enumeration; deterministic sharding over 16 forked workers",
            }
        ],
        "checks": checks,
        "not_applicable": na,
        "notes": "All checks run /repo's current working tree (sys.path[0]=$VERIF_REPO, private PYTHONPYCACHEPREFIX so sources are always recompiled). "
        "Genuine defects found are fixed in /repo by 'fix:' commits or listed in /verif/known_findings.json (see DESIGN.md §8).",
    }
    with open(os.path.join(HOME, "MANIFEST.json"), "w") as fh:
        json.dump(man, fh, indent=1)
    try:
        import jsonschema

        schema = json.load(open("/root/.vp/MANIFEST.schema.json"))
        jsonschema.validate(man, schema)
        es = json.load(open("/root/.vp/EVIDENCE.schema.json"))
        for c in checks:
            ef = c["evidence_file"]
            if os.path.exists(ef):
                jsonschema.validate(json.load(open(ef)), es)
                print("evidence ok:", ef)
            else:
                print("evidence MISSING:", ef)
        print("MANIFEST valid;", len(checks), "checks,", len(na), "not claimed")
    except ImportError:
        print("jsonschema not importable here; run with python3-vt to validate")


if __name__ == "__main__":
    main()
