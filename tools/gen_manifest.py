#!/usr/bin/env python3
"""Regenerates /verif/MANIFEST.json from the table below (run after adding a driver) and
validates it against /root/.vp/MANIFEST.schema.json when jsonschema is importable."""
import glob
import json
import os
import subprocess
import sys

HOME = os.path.dirname(os.path.dirname(os.path.abspath(__file__)))

# id -> (level category, technique, level text, level note, design ref)
CHECKS = {
    "C01": (
        "exploration",
        "bounded exhaustive enumeration of unit pairs / spellings / compound containers / dimension specs against an independent definition-file reader (R1) — small-scope model checking of the compatibility relation",
        "All ordered pairs of the multiplicative canonical units of the bundled registry (~150k), every defined spelling alone and prefixed/pluralised, every ordered pair of 1-2 entry "
        "compound containers over a 7-unit alphabet with integer and half-integer exponents, all triples of a 40-container sub-alphabet (equivalence laws, closure under * / **), every "
        "declared dimension x exponent alphabet as a dimension spec through get_dimensionality / Quantity.check / ureg.check, compatible-unit listings of every unit, and 54 generated "
        "registries with derived-dimension DAGs: each conversion must return a number exactly when R1's base-dimension vectors agree and raise DimensionalityError otherwise, and each "
        "predicate must equal that relation. thorough repeats everything for Fraction, Decimal, case-insensitive and auto_reduce_dimensions registries.",
        "Trusted: R1 (mc/ref/defs.py, no pint imports; cross-checked against pint on the unchanged tree). Strings with several non-equivalent prefix readings are left to C08; offset/log units to C06; "
        "compounds with more than 2 (pairs) / 3 factors and units added after construction are outside the bound.",
        "DESIGN.md §4 C01",
    ),
    "C04": (
        "exploration",
        "bounded exhaustive enumeration of unit containers / dimension matrices against an exponent-vector reference model (small-scope model checking of the operator algebra)",
        "Every container over a 3-name alphabet with exponents in a small range, every ordered pair (* /, ==, hash), every triple of the sub-alphabet "
        "(associativity), every (u,a,b) power-law instance, at the UnitsContainer, ParserHelper, Unit, Quantity-unit and dimensionality layers and for "
        "int/float/Fraction/Decimal exponents, plus every integer dimension matrix within the stated shape for both pi_theorem entry points, is executed "
        "on the real code and compared with dict-of-Fraction arithmetic. The laws are algebraic identities over finitely many branch shapes, so a wrong "
        "branch shows at the smallest instance; the enumeration is complete within the bound.",
        "Trusted: the 40-line exponent-vector model and Fraction rank computation in checks/c04_group.py; float exponents are dyadic so arithmetic is exact. "
        "Not covered: containers with more than 3 names, exponents outside the alphabet, matrices larger than 4x3.",
        "DESIGN.md §4 C04",
    ),
}

NOT_YET = "check not built yet in this revision (planned, see DESIGN.md §4); not claimed"
NA = {}


def main():
    props = [json.loads(l) for l in open(os.path.join(HOME, "properties.jsonl"))]
    checks = []
    na = []
    for p in props:
        pid = p["id"]
        have = glob.glob(os.path.join(HOME, "checks", pid.lower() + "_*.py"))
        if pid in CHECKS and have:
            cat, tech, text, note, ref = CHECKS[pid]
            checks.append(
                {
                    "property_id": pid,
                    "quick_cmd": f"./check {pid} --tier quick",
                    "thorough_cmd": f"./check {pid} --tier thorough",
                    "evidence_file": f"/verif/evidence/{pid}.json",
                    "replay_cmd_template": f"./check {pid} --replay {{path}}",
                    "engine": "mc",
                    "level_claimed": {"category": cat, "text": text, "design_ref": ref},
                    "level_note": note,
                    "technique": tech,
                }
            )
        else:
            na.append({"property_id": pid, "reason": NA.get(pid, NOT_YET)})
    hooks_commits = []
    man = {
        "version": 1,
        "setup_cmd": "cd /verif && chmod +x check && /venv/bin/python -c \"import sys; sys.path.insert(0,'/repo'); import pint, numpy, uncertainties\" && ./check --list >/dev/null",
        "hooks": {
            "guard": "PINT_VERIF",
            "enable": "no source hooks exist: every seam is reached from the harness (instance-level wrapping, constructor arguments); ./check exports PINT_VERIF=1 for uniformity only",
            "baseline_off_cmd": "cd /repo && /venv/bin/python -m pytest -ra -q -p no:cacheprovider --timeout=900 --continue-on-collection-errors",
            "source_commits": hooks_commits,
            "add_only": True,
        },
        "engines": [
            {
                "name": "mc",
                "path": "/verif/mc",
                "serves_properties": [c["property_id"] for c in checks],
                "kind_free_text": "hand-written bounded-exhaustive explorer for Python: E1 input enumerators, E2 explicit-state BFS over event histories on the real registry with "
                "fingerprint dedup and fresh-registry differential oracle, E3 fault-point enumeration; deterministic sharding over 16 forked workers",
            }
        ],
        "checks": checks,
        "not_applicable": na,
        "notes": "All checks run /repo's current working tree (sys.path[0]=$VERIF_REPO, private PYTHONPYCACHEPREFIX so sources are always recompiled). "
        "Genuine defects found are fixed in /repo by 'fix:' commits or listed in /verif/known_findings.json (see DESIGN.md §8).",
    }
    with open(os.path.join(HOME, "MANIFEST.json"), "w") as fh:
        json.dump(man, fh, indent=1)
    try:
        import jsonschema

        schema = json.load(open("/root/.vp/MANIFEST.schema.json"))
        jsonschema.validate(man, schema)
        es = json.load(open("/root/.vp/EVIDENCE.schema.json"))
        for c in checks:
            ef = c["evidence_file"]
            if os.path.exists(ef):
                jsonschema.validate(json.load(open(ef)), es)
                print("evidence ok:", ef)
            else:
                print("evidence MISSING:", ef)
        print("MANIFEST valid;", len(checks), "checks,", len(na), "not claimed")
    except ImportError:
        print("jsonschema not importable here; run with python3-vt to validate")


if __name__ == "__main__":
    main()
