"""C09 — every textual format denotes the unit exactly; plain-text formats round-trip.

E1: every canonical unit of the bundled registry x every format spec; every compound container
with <= 3 entries over a 5-unit alphabet x exponent alphabet x every spec; magnitudes x magnitude
specs; float / Decimal / Fraction registries; default_format settings; sort functions.
Oracle R8: five small readers written in the inverse direction of the formatter recover
{name-or-symbol: exponent} from a rendered string; round-trip through parse_units / ureg(str(q));
formatting never raises and never alters the object."""
from __future__ import annotations

import itertools
import re
from decimal import Decimal
from fractions import Fraction

from mc import core, regs
from mc.ref import defs

PROPERTY = "C09"
LEVEL = "exploration"
RULE = (
    "every canonical unit x 14 unit specs (D C P H L Lx, each long and ~, plus '') rendered and read back; all containers with 1-3 entries over {meter, second, kilogram, delta_degree_Celsius, percent} x exponents "
    "{-3,-2,-1,-1/2,1/2,1,2,3,0.123456} x all specs; 11 magnitudes x 7 magnitude specs x 6 formats as quantities; float/Decimal/Fraction registries; default_format x separate_format_defaults; 3 sort functions. "
    "non-trivial = distinct (registry, object, spec) whose rendering is non-empty"
)
ASSUMPTIONS = [
    "the readers (R8) in this file parse the documented layout of each format: D 'a * b ** n / c', C 'a*b**n/c', P 'a·bⁿ/c', H 'a b<sup>n</sup>/(c d)', L '\\frac{..}{..}', Lx siunitx macros",
    "expected symbols come from R1 (definition files), not from the registry under test",
    "siunitx renders non-integer exponents with 3 decimals: compared after rounding; HTML/LaTeX/siunitx are not parsed back by pint (denotation only)",
]
SITE_GRAMMAR = "[clause, format, failure-kind, detail]"

SPECS = ["", "D", "C", "P", "H", "L", "Lx", "~", "~D", "~C", "~P", "~H", "~L", "~Lx"]
PLAIN = {"", "D", "C", "P", "~", "~D", "~C", "~P"}
ALPHA = ["meter", "second", "kilogram", "delta_degree_Celsius", "percent"]
EXPS = [-3, -2, -1, Fraction(-1, 2), Fraction(1, 2), 1, 2, 3, Fraction(123456, 1000000)]
NIT = {"float": float, "Fraction": Fraction, "Decimal": Decimal}


def model():
    return defs.default_model(core.REPO)


def fam(spec):
    for k in ("Lx", "L", "H", "P", "C", "D"):
        if k in spec:
            return k
    return "D"


# ----------------------------------------------------------------------------- R8 readers

_SUP = {"⁰": "0", "¹": "1", "²": "2", "³": "3", "⁴": "4", "⁵": "5", "⁶": "6", "⁷": "7", "⁸": "8", "⁹": "9", "⁻": "-", "\u22c5": "."}


class ReadError(Exception):
    pass


def _num(s):
    s = s.strip()
    try:
        return Fraction(Decimal(s))
    except Exception:  # noqa
        raise ReadError(f"bad exponent {s!r}")


def _add(d, name, e):
    if not name or name == "1":
        raise ReadError(f"bad unit name {name!r}")
    if name in d:
        raise ReadError(f"unit {name!r} rendered twice")
    d[name] = e


def read_D(s, sep_mul=" * ", sep_div=" / ", powtok=" ** "):
    out = {}
    if s in ("dimensionless", ""):
        return out
    parts = s.split(sep_div)
    for i, part in enumerate(parts):
        terms = part.split(sep_mul) if i == 0 else [part]
        for t in terms:
            if i == 0 and t == "1" and len(terms) == 1:
                continue
            if powtok in t:
                n, e = t.split(powtok)
                e = _num(e)
            else:
                n, e = t, Fraction(1)
            if e <= 0:
                raise ReadError("non-positive exponent rendered in ratio form")
            _add(out, n.strip(), e if i == 0 else -e)
    return out


def read_C(s):
    out = {}
    if s in ("dimensionless", ""):
        return out
    # protect '**' then split
    parts = s.replace("**", "\x00").split("/")
    for i, part in enumerate(parts):
        terms = part.split("*") if i == 0 else [part]
        for t in terms:
            if i == 0 and t == "1" and len(terms) == 1:
                continue
            if "\x00" in t:
                n, e = t.split("\x00")
                e = _num(e)
            else:
                n, e = t, Fraction(1)
            if e <= 0:
                raise ReadError("non-positive exponent rendered in ratio form")
            _add(out, n, e if i == 0 else -e)
    return out


def read_P(s):
    out = {}
    if s in ("dimensionless", ""):
        return out
    parts = s.split("/")
    for i, part in enumerate(parts):
        terms = part.split("·") if i == 0 else [part]
        for t in terms:
            if i == 0 and t == "1" and len(terms) == 1:
                continue
            j = len(t)
            while j > 0 and t[j - 1] in _SUP:
                j -= 1
            n, sup = t[:j], t[j:]
            e = _num("".join(_SUP[c] for c in sup)) if sup else Fraction(1)
            if e <= 0:
                raise ReadError("non-positive exponent rendered in ratio form")
            _add(out, n, e if i == 0 else -e)
    return out


_H_TERM = re.compile(r"^(?P<n>.*?)(?:<sup>(?P<e>[^<]*)<\x01sup>)?$")


def read_H(s):
    out = {}
    if s in ("dimensionless", ""):
        return out
    s = s.replace("</sup>", "<\x01sup>")
    out_ = _read_H(s)
    return {k.replace("<\x01sup>", "</sup>"): v for k, v in out_.items()}


def _read_H(s):
    out = {}
    if "/" in s:
        num, den = s.split("/", 1)
        if "/" in den:
            raise ReadError("two division signs")
    else:
        num, den = s, None
    if den is not None and den.startswith("(") and den.endswith(")"):
        den = den[1:-1]
    for side, text in ((1, num), (-1, den)):
        if text is None:
            continue
        if side == 1 and text == "1":
            continue
        for t in text.split(" "):
            m = _H_TERM.match(t)
            n, e = m.group("n"), m.group("e")
            e = _num(e) if e is not None else Fraction(1)
            if e <= 0:
                raise ReadError("non-positive exponent rendered in ratio form")
            _add(out, n, side * e)
    return out


_L_TERM = re.compile(r"^\\mathrm\{(?P<n>.*?)\}(?:\^\{(?P<e>[^}]*)\})?$")


def _latex_unescape(n):
    return n.replace("\\_", "_").replace("\\%", "%")


def read_L(s):
    out = {}
    if s in ("", "\\mathrm{dimensionless}"):
        return out
    if s.startswith("\\frac{"):
        # \frac{NUM}{DEN}: find the matching brace of the numerator
        depth, i = 0, len("\\frac")
        start = i
        while i < len(s):
            if s[i] == "{":
                depth += 1
            elif s[i] == "}":
                depth -= 1
                if depth == 0:
                    break
            i += 1
        num = s[start + 1 : i]
        rest = s[i + 1 :]
        if not (rest.startswith("{") and rest.endswith("}")):
            raise ReadError("malformed \\frac")
        den = rest[1:-1]
        if den.startswith("\\left(") and den.endswith("\\right)"):
            den = den[len("\\left(") : -len("\\right)")]
    else:
        num, den = s, None
    for side, text in ((1, num), (-1, den)):
        if text is None or (side == 1 and text == "1"):
            continue
        for t in text.split(" \\cdot "):
            m = _L_TERM.match(t.strip())
            if not m:
                raise ReadError(f"unreadable LaTeX term {t!r}")
            e = _num(m.group("e")) if m.group("e") is not None else Fraction(1)
            if e <= 0:
                raise ReadError("non-positive exponent rendered in ratio form")
            _add(out, _latex_unescape(m.group("n")), side * e)
    return out


def read_Lx(s, prefix_names):
    m = re.match(r"^\\si\[\]\{(.*)\}$", s)
    if not m:
        raise ReadError("not a \\si[]{...}")
    body = m.group(1)
    toks = re.findall(r"\\tothe\{[^}]*\}|\\[^\\{}]+", body)
    if "".join(toks) != body:
        raise ReadError("unreadable siunitx body")
    out = {}
    i, sign, pref = 0, 1, ""
    cur = None
    for t in toks:
        name = t[1:]
        if name == "per":
            sign = -1
            continue
        if name == "squared" or name == "cubed" or name.startswith("tothe{"):
            if cur is None:
                raise ReadError("power without unit")
            e = Fraction(2) if name == "squared" else Fraction(3) if name == "cubed" else _num(name[6:-1])
            out[cur] = out[cur] * e
            continue
        if name in prefix_names and pref == "":
            pref = name
            continue
        cur = pref + ("percent" if name == "%" else name)  # \% is siunitx's percent macro
        pref = ""
        _add(out, cur, Fraction(sign))
        sign = 1
    return out


def read(spec, s, prefix_names):
    f = fam(spec)
    if f == "D":
        return read_D(s)
    if f == "C":
        return read_C(s)
    if f == "P":
        return read_P(s)
    if f == "H":
        return read_H(s)
    if f == "L":
        return read_L(s)
    return read_Lx(s, prefix_names)


# ----------------------------------------------------------------------------- expectations


def symbol_of(M, name):
    """symbol the definitions give to a canonical (possibly prefixed) name"""
    if name in M.units:
        return M.units[name].symbol
    p, u = M.resolve(name)
    return (M.prefixes[p].symbol if p else "") + M.units[u].symbol


def expected_tokens(M, units, spec):
    """{display token: exponent} the rendering must denote"""
    f = fam(spec)
    out = {}
    for n, e in units.items():
        e = Fraction(e) if not isinstance(e, float) else Fraction(str(e))
        if f == "Lx":
            tok = n  # siunitx macros are built from names whatever '~' says
            e = Fraction(round(e * 1000), 1000) if e.denominator != 1 else e
        elif "~" in spec:
            tok = symbol_of(M, n)
        else:
            tok = n
        out[tok] = e
    return out


def uc(ureg, nt, units):
    T = NIT[nt]

    def cv(e):
        if isinstance(e, int):
            return e
        if nt == "float":
            return float(e)
        if nt == "Decimal":
            return Decimal(e.numerator) / Decimal(e.denominator)
        return e

    return ureg.UnitsContainer({k: cv(v) for k, v in units.items()})


def snapshot(u):
    return tuple(sorted((k, repr(v)) for k, v in dict(u._units).items()))


def render(fn):
    try:
        return ("ok", fn())
    except Exception as e:  # noqa
        return ("exc", f"{type(e).__name__}: {str(e)[:80]}")


def check_unit(acc, M, ureg, nt, units, spec, clause, prefix_names, exact_exponents=True):
    u = ureg.Unit(uc(ureg, nt, units))
    before = snapshot(u)
    o = render(lambda: format(u, spec))
    acc.ev()
    case = {"registry": nt, "units": {k: str(v) for k, v in units.items()}, "spec": spec}
    f = fam(spec)
    if o[0] != "ok":
        kind = "Fraction-exponent" if nt == "Fraction" and "Fraction" in o[1] else "general"
        acc.violation([clause, f, "formatting-raises", kind], case, "a string", o[1])
        return None
    s = o[1]
    if snapshot(u) != before:
        acc.violation([clause, f, "formatting-alters-the-object", ""], case, before, snapshot(u))
    if s:
        acc.nt((nt, tuple(sorted(case["units"].items())), spec))
    want = expected_tokens(M, units, spec)
    try:
        got = read(spec, s, prefix_names)
    except ReadError as e:
        acc.violation([clause, f, "rendering-unreadable", "long" if "~" not in spec else "short"], case, {k: str(v) for k, v in want.items()}, [s, str(e)])
        return s
    if f == "Lx":
        got = {k: (Fraction(round(v * 1000), 1000) if v.denominator != 1 else v) for k, v in got.items()}
    if got != want:
        side = "exponent-sign-or-position" if {k: abs(v) for k, v in got.items()} == {k: abs(v) for k, v in want.items()} else "names-or-exponents"
        acc.violation([clause, f, "rendering-denotes-a-different-unit", side], case, {k: str(v) for k, v in want.items()}, [s, {k: str(v) for k, v in got.items()}])
        return s
    acc.outcome(f)
    # plain-text formats parse back to an equal unit
    if fam(spec) == "P" and any(Fraction(e).denominator != 1 for e in units.values()):
        return s  # pretty format renders fractional exponents with a dot operator that is not meant to be parsed back
    if spec in PLAIN and exact_exponents and s:
        acc.ev()
        back = render(lambda: ureg.parse_units(s, as_delta=False))
        if back[0] != "ok" or back[1] != u:
            detail = "long" if "~" not in spec else "short"
            if f == "P" and any(tok in ("%", "‰") and abs(e) != 1 for tok, e in want.items()):
                detail = "percent-or-permille-symbol-followed-by-superscript"
            acc.violation([clause, f, "plain-text-rendering-does-not-parse-back", detail], case, s, back[1] if back[0] != "ok" else {k: str(v) for k, v in dict(back[1]._units).items()})
    return s


# ----------------------------------------------------------------------------- shards


def shards(tier, seed):
    out = []
    nts = ["float", "Fraction", "Decimal"]
    for nt in nts:
        for b in range(4):
            out.append(("canonical", nt, b, 4))
        for b in range(6):
            out.append(("containers", nt, b, 6))
        out.append(("quantities", nt))
    out.append(("prefixed", "float"))
    if tier != "quick":
        out.append(("prefixed", "Fraction"))
    out.append(("settings",))
    return out


def run_canonical(acc, nt, block, nblocks):
    M = model()
    ureg = regs.default(nt)
    prefix_names = set(M.prefixes)
    names = [n for n in M.order]
    acc.dim("canonical units", len(names))
    for i, n in enumerate(names):
        if i % nblocks != block:
            continue
        for spec in SPECS:
            check_unit(acc, M, ureg, nt, {n: 1}, spec, "canonical-unit", prefix_names)
            if "#" not in spec and spec in ("D", "~P", "H"):
                check_unit(acc, M, ureg, nt, {n: -2}, spec, "canonical-unit", prefix_names)
    acc.sample({"clause": "canonical-unit", "registry": nt, "unit": names[block], "specs": SPECS})


def run_prefixed(acc, nt):
    """every declared prefix (also those without a symbol of their own: semi-, sesqui-) on four units, long and short"""
    M = model()
    ureg = regs.default(nt)
    prefix_names = set(M.prefixes)
    st = M.spelling_table()
    for pn in M.prefixes:
        for un in ("meter", "second", "gram", "hertz"):
            # a prefixed symbol that is ALSO a spelling some other unit owns (fm: femtometer and fermi) reads back as that
            # unit — a collision in the definitions (C08's subject), not a rendering matter: long names only there
            collides = symbol_of(M, pn + un) in st
            for spec in SPECS:
                if collides and "~" in spec:
                    continue
                check_unit(acc, M, ureg, nt, {pn + un: 1}, spec, "prefixed-unit", prefix_names)
            if not collides:
                check_unit(acc, M, ureg, nt, {pn + un: 1, "kelvin": -2}, "~P", "prefixed-unit", prefix_names)
    acc.sample({"clause": "prefixed-unit", "registry": nt, "unit": "semimeter", "specs": SPECS})


def run_containers(acc, nt, block, nblocks, tier):
    M = model()
    ureg = regs.default(nt)
    prefix_names = set(M.prefixes)
    exps = EXPS if tier == "thorough" else [-2, -1, Fraction(-1, 2), Fraction(1, 2), 1, 2, Fraction(123456, 1000000)]
    cs = []
    for n in (1, 2, 3):
        for names in itertools.combinations(ALPHA, n):
            es_alpha = exps if n < 3 else [-2, -1, 1, 2, Fraction(1, 2)]
            for es in itertools.product(es_alpha, repeat=n):
                cs.append(dict(zip(names, es)))
    acc.dim("containers", len(cs))
    for i, c in enumerate(cs):
        if i % nblocks != block:
            continue
        exact = all(Fraction(e).denominator in (1, 2) or nt != "Fraction" for e in c.values())
        for spec in SPECS:
            check_unit(acc, M, ureg, nt, c, spec, "compound-unit", prefix_names, exact_exponents=True)
    acc.sample({"clause": "compound-unit", "registry": nt, "units": {k: str(v) for k, v in cs[block].items()}, "specs": SPECS})


MAGS = ["0", "1", "-1", "1.5", "1e-9", "12345.678", "1e30", "7", "1/3", "1.50"]
MSPECS = ["", ".2f", ".3e", "g", ">10", "+.1f"]


def mag_value(s, nt):
    if "/" in s:
        return Fraction(s) if nt == "Fraction" else (float(Fraction(s)) if nt == "float" else Decimal(1) / Decimal(3))
    if nt == "float":
        return int(s) if s.lstrip("-").isdigit() else float(s)
    if nt == "Decimal":
        return int(s) if s.lstrip("-").isdigit() else Decimal(s)
    return int(s) if s.lstrip("-").isdigit() else Fraction(Decimal(s))


def run_quantities(acc, nt):
    M = model()
    ureg = regs.default(nt)
    prefix_names = set(M.prefixes)
    unitsets = [{"meter": 1}, {"meter": 1, "second": -2}, {"second": -1}, {}, {"kilogram": 1, "meter": 2, "second": -2}]
    for units in unitsets:
        ucont = uc(ureg, nt, units)
        kinds = [("", lambda x: x)]
        if nt == "float":
            import numpy as np

            # a NumPy scalar and a 0-d array are scalar magnitudes too: they are rendered like the float they hold
            kinds += [("np.float64", np.float64), ("0-d ndarray", lambda x: np.array(float(x)))]
        for (ms, (kname, wrap)) in itertools.product(MAGS, kinds):
            m = mag_value(ms, nt)
            if kname and (isinstance(m, int) or ms in ("1e30",)):
                continue
            for mspec in MSPECS:
                if isinstance(m, Fraction) and mspec:
                    continue  # Fraction.__format__ accepts no float presentation types before Python 3.12 semantics settled
                if kname and not mspec:
                    continue  # the repr-like default rendering of NumPy objects is NumPy's business
                for uspec in ("", "D", "C", "P", "~P", "~", "H", "L"):
                    spec = mspec + uspec
                    q = ureg.Quantity(wrap(m), ucont)
                    ms = ms if not kname else ms.split(" [")[0] + f" [{kname}]"
                    before = (repr(q._magnitude), snapshot(q))
                    o = render(lambda: format(q, spec))
                    acc.ev()
                    acc.nt((nt, "q", ms, mspec, uspec, tuple(sorted(units))))
                    case = {"registry": nt, "magnitude": ms, "units": {k: str(v) for k, v in units.items()}, "spec": spec}
                    f = fam(uspec)
                    if o[0] != "ok":
                        acc.violation(["quantity", f, "formatting-raises", "Fraction-exponent" if "Fraction" in o[1] else "general"], case, "a string", o[1])
                        continue
                    if (repr(q._magnitude), snapshot(q)) != before:
                        acc.violation(["quantity", f, "formatting-alters-the-object", ""], case, before, (repr(q._magnitude), snapshot(q)))
                    s = o[1]
                    ustr = format(ureg.Unit(ucont), uspec)
                    try:
                        want_m = format(m, mspec)
                    except Exception:  # noqa
                        continue
                    if f in ("D", "C", "P", "H"):
                        if "e" in want_m.lower() and f in ("P", "H"):
                            continue  # documented x10^n rewriting
                        if ustr.startswith("1 / ") and f == "D":
                            exp_s = want_m + " " + ustr[2:]
                        elif ustr == "":
                            exp_s = want_m
                        else:
                            exp_s = want_m + " " + ustr
                        if s != exp_s:
                            acc.violation(["quantity", f, "magnitude-or-layout-differs", "mspec=" + (mspec or "''")], case, exp_s, s)
                            continue
                    acc.outcome("q-" + f)
                    # str(q) / default format parses back to an equal quantity
                    if spec == "" and ms not in ("1e30",):
                        acc.ev()
                        back = render(lambda: ureg(s))
                        ok = back[0] == "ok" and (back[1] == q if hasattr(back[1], "_units") or units else back[1] == m)
                        if not ok and nt == "float" and back[0] == "ok":
                            try:
                                bm = back[1].to(q.units).magnitude if hasattr(back[1], "to") else back[1]
                                ok = abs(float(bm) - float(m)) <= 1e-12 * max(1e-300, abs(float(m)))
                            except Exception:  # noqa
                                ok = False
                        if not ok:
                            acc.violation(["quantity", "D", "str-does-not-parse-back", ""], case, s, back[1] if back[0] != "ok" else repr(back[1]))
    acc.sample({"clause": "quantity", "registry": nt, "magnitude": "12345.678", "units": {"meter": "1", "second": "-2"}, "specs": [".2f~P", ".3eD", "H"]})


def run_settings(acc):
    """default_format, separate_format_defaults and sort functions do not change WHAT is denoted"""
    M = model()
    prefix_names = set(M.prefixes)
    from pint.delegates.formatter._compound_unit_helpers import sort_by_dimensionality, sort_by_unit_name

    units = {"kilogram": 1, "meter": 2, "second": -3, "ampere": -1}
    # units WITHOUT a dimension (radian, count, percent, steradian) are units like any other for every sort function
    for units2 in ({"radian": 1, "meter": 1, "second": -1}, {"percent": 1}, {"count": 1, "second": -1}, {"candela": 1, "steradian": -1}, {"radian": 2}):
        for sf_name, sf in (("none", None), ("by-name", sort_by_unit_name), ("by-dimensionality", sort_by_dimensionality)):
            ureg = regs.default("float", fresh=True)
            ureg.formatter.default_sort_func = sf
            u = ureg.Unit(ureg.UnitsContainer(units2))
            for spec in ("D", "~D", "C", "~C", "P", "~P", "H", "~H", "L", "~L", "Lx"):
                acc.ev()
                acc.nt(("settings-dimensionless", tuple(sorted(units2.items())), sf_name, spec))
                case = {"units": units2, "sort": sf_name, "spec": spec}
                o = render(lambda: format(u, spec))
                o2 = render(lambda: format(ureg.Quantity(2.5, u), spec))
                if o[0] != "ok" or o2[0] != "ok":
                    acc.violation(["settings", fam(spec), "formatting-raises", "dimensionless-unit-under-a-sort-function"], case, "a string", o[1] if o[0] != "ok" else o2[1])
                    continue
                try:
                    got = read(spec, o[1], prefix_names)
                except ReadError as e:
                    acc.violation(["settings", fam(spec), "rendering-unreadable", ""], case, "readable", [o[1], str(e)])
                    continue
                want = expected_tokens(M, units2, spec)
                if got != want:
                    acc.violation(["settings", fam(spec), "rendering-denotes-a-different-unit", ""], case, {k: str(v) for k, v in want.items()}, [o[1], {k: str(v) for k, v in got.items()}])
    # every canonical unit, alone and over a second, under every sort function
    for sf_name, sf in (("none", None), ("by-name", sort_by_unit_name), ("by-dimensionality", sort_by_dimensionality)):
        ureg = regs.default("float", fresh=True)
        ureg.formatter.default_sort_func = sf
        for name in M.order:
            for units3 in ({name: 1}, {name: 1, "second": -1} if name != "second" else {name: 2}):
                u = ureg.Unit(ureg.UnitsContainer(units3))
                for spec in ("~P", "D"):
                    acc.ev()
                    acc.nt(("settings-allunits", name, len(units3), sf_name, spec))
                    o = render(lambda: format(u, spec))
                    case = {"units": units3, "sort": sf_name, "spec": spec}
                    if o[0] != "ok":
                        acc.violation(["settings", fam(spec), "formatting-raises", "canonical-unit-under-a-sort-function"], case, "a string", o[1])
                        continue
                    try:
                        got = read(spec, o[1], prefix_names)
                    except ReadError as e:
                        continue  # (readability of every unit's rendering is run_units' subject)
                    want = expected_tokens(M, units3, spec)
                    if got != want:
                        acc.violation(["settings", fam(spec), "rendering-denotes-a-different-unit", "canonical-unit-under-a-sort-function"], case, {k: str(v) for k, v in want.items()}, [o[1], {k: str(v) for k, v in got.items()}])
    for dfmt in ("", "~P", ".2f~", "C", "~L"):
        for sep in (None, True, False):
            for sf_name, sf in (("none", None), ("by-name", sort_by_unit_name), ("by-dimensionality", sort_by_dimensionality)):
                ureg = regs.default("float", fresh=True)
                if sep is not None:
                    ureg.separate_format_defaults = sep
                ureg.formatter.default_format = dfmt
                ureg.formatter.default_sort_func = sf
                u = ureg.Unit(ureg.UnitsContainer(units))
                for spec in ("", "D", "~C", "H", "~L", "Lx"):
                    acc.ev()
                    acc.nt(("settings", dfmt, sep, sf_name, spec))
                    o = render(lambda: format(u, spec))
                    case = {"default_format": dfmt, "separate_format_defaults": sep, "sort": sf_name, "spec": spec}
                    if o[0] != "ok":
                        acc.violation(["settings", fam(spec or dfmt), "formatting-raises", "general"], case, "a string", o[1])
                        continue
                    eff = spec or dfmt
                    # which unit spec applies: the explicit one, else the default's unit part
                    uspec = "".join(ch for ch in eff if ch in "~DCPHL") + ("x" if "Lx" in eff else "")
                    try:
                        got = read(uspec, o[1], prefix_names)
                    except ReadError as e:
                        acc.violation(["settings", fam(uspec), "rendering-unreadable", ""], case, "readable", [o[1], str(e)])
                        continue
                    want = expected_tokens(M, units, uspec)
                    if got != want:
                        acc.violation(["settings", fam(uspec), "rendering-denotes-a-different-unit", ""], case, {k: str(v) for k, v in want.items()}, [o[1], {k: str(v) for k, v in got.items()}])
                q = ureg.Quantity(1234.5678, u)
                o = render(lambda: str(q))
                if o[0] != "ok":
                    acc.violation(["settings", "D", "formatting-raises", "str(q)"], {"default_format": dfmt, "separate_format_defaults": sep}, "a string", o[1])
    # which part of default_format applies to a spec that names only a unit flavour is a registry setting
    # (separate_format_defaults), not a property of the flavour: the magnitude is printed alike under D, C, P and H
    import warnings as _w
    for sep in (None, True, False):
        for dfmt in (".1f", ".2f~P", "~C", ".4f", ""):
            ureg = regs.default("float", fresh=True)
            if sep is not None:
                ureg.separate_format_defaults = sep
            ureg.formatter.default_format = dfmt
            for q, kind in ((ureg.Quantity(1.23456, "meter/second"), "quantity"), (ureg.Measurement(1.23456, 0.01234, "meter/second"), "measurement")):
                toks = {}
                for flav in ("D", "C", "P", "H", "~D", "~C", "~P", "~H"):
                    acc.ev()
                    acc.nt(("flavour-defaults", sep, dfmt, kind, flav))
                    with _w.catch_warnings():
                        _w.simplefilter("ignore")
                        o = render(lambda: format(q, flav))
                    if o[0] != "ok":
                        acc.violation(["settings", fam(flav), "formatting-raises", "general"], {"default_format": dfmt, "separate_format_defaults": sep, "spec": flav, "object": kind}, "a string", o[1])
                        continue
                    txt = o[1].replace("&plusmn;", "+/-").replace("±", "+/-")
                    toks[flav] = "".join(ch for ch in txt.split("meter")[0].split(" m")[0] if ch in "0123456789.")
                if len(set(toks.values())) > 1:
                    acc.violation(["settings", "H" if len({v for k, v in toks.items() if "H" not in k}) == 1 else "D", "magnitude-default-depends-on-the-unit-flavour", kind], {"default_format": dfmt, "separate_format_defaults": sep, "object": kind}, "the same digits under every flavour", toks)
    # an empty spec means "the default format" — the whole of it, the '#' compaction modifier and the magnitude part included
    for nt in ("float", "Decimal", "Fraction"):
        ureg = regs.default(nt, fresh=True)
        T = {"float": float, "Decimal": Decimal, "Fraction": Fraction}[nt]
        qs = [ureg.Quantity(T("0.00000025") if nt != "Fraction" else Fraction(1, 4000000), "meter/second"), ureg.Quantity(T("12345.678") if nt != "Fraction" else Fraction(12345678, 1000), "gram"), ureg.Quantity(T(3), "kilometer")]
        for dfmt in ("~P", "#~P", "#.1f~P", ".3e~C", "#D", "#~C", ".2f", "#", "~L", "#H"):
            if nt == "Fraction" and any(ch in dfmt for ch in ".ef"):
                continue
            for qi, q in enumerate(qs):
                acc.ev()
                acc.nt(("default-format", nt, dfmt, qi))
                explicit = render(lambda: format(q, dfmt))
                ureg.formatter.default_format = dfmt
                try:
                    got = [render(lambda: format(q, "")), render(lambda: str(q)), render(lambda: f"{q}")]
                finally:
                    ureg.formatter.default_format = ""
                case = {"registry": nt, "default_format": dfmt, "quantity": repr(q)}
                for how, g in zip(("format(q, '')", "str(q)", "f-string"), got):
                    if g != explicit:
                        acc.violation(["settings", fam(dfmt), "empty-spec-differs-from-the-default-format-given-explicitly", "#" if "#" in dfmt else "plain"], dict(case, how=how), explicit[1], g[1])
                        break
    acc.sample({"clause": "settings", "default_format": "~P", "sort": "by-dimensionality", "spec": "H"})


def run_shard(acc, shard, tier, seed):
    k = shard[0]
    if k == "canonical":
        run_canonical(acc, shard[1], shard[2], shard[3])
    elif k == "containers":
        run_containers(acc, shard[1], shard[2], shard[3], tier)
    elif k == "quantities":
        run_quantities(acc, shard[1])
    elif k == "settings":
        run_settings(acc)
    elif k == "prefixed":
        run_prefixed(acc, shard[1])
    else:
        raise core.HarnessError(str(shard))


def replay(rec):
    site, case = rec["site"], rec["case"]
    acc = core.Acc(PROPERTY)
    M = model()
    nt = case.get("registry", "float")
    if site[0] == "prefixed-unit":
        run_prefixed(acc, nt)  # (prefixed units are registered at their first lookup: the whole clause, in its order)
    elif site[0] in ("canonical-unit", "compound-unit"):
        ureg = regs.default(nt)
        units = {k: (int(v) if "/" not in v and "." not in v else Fraction(v)) for k, v in case["units"].items()}
        check_unit(acc, M, ureg, nt, units, case["spec"], site[0], set(M.prefixes))
    elif site[0] == "quantity":
        run_quantities(acc, nt)
    else:
        run_settings(acc)
    sites = {tuple(v["site"]) for v in acc.violations}
    return tuple(site) in sites, {"sites_seen": sorted(sites)[:20]}


MANIFEST = {
    "category": "exploration",
    "technique": "bounded exhaustive enumeration of (object, format spec, registry type) with inverse-direction readers per format and parse-back round trips",
    "text": "Every canonical unit (402) x 14 unit specs, every container with 1-3 entries over a 5-unit alphabet x a 7-9 value exponent alphabet (negative, fractional, 6-significant-digit) x 14 specs, in float, "
    "Decimal and Fraction registries, is rendered and read back by an independent reader for that format (default, compact, pretty, HTML, LaTeX, siunitx): the recovered {name-or-symbol: exponent} map must "
    "equal the unit, with every exponent on the correct side; plain-text renderings must parse back to an equal unit; 10 magnitudes x 6 magnitude specs x 8 unit specs as quantities (magnitude substring, "
    "'1 / x' joining, str(q) round trip); default_format x separate_format_defaults x sort function settings. Formatting must never raise nor alter the object.",
    "note": "NumPy scalars and 0-d arrays count as scalar magnitudes (rendered like the float they hold under every magnitude spec). Trusted: the readers (~150 lines) and R1's symbol table. HTML/LaTeX/siunitx are checked for denotation only (pint does not parse them back). Babel/locale formatting, ndarray magnitudes and "
    "Measurement formats (C19) are outside this check; siunitx non-integer exponents are compared at the 3 decimals it prints.",
    "ref": "DESIGN.md §4 C09",
}
MANIFEST["text"] += " NumPy scalar and 0-d magnitudes format like the Python number; an empty spec formats exactly as the registry default_format given explicitly, for 10 default formats including '#'-only ones."
MANIFEST["text"] += ' Units without a dimension (radian, count, percent, steradian) in 11 specs, and every canonical unit alone and over a second in 2 specs, under the three sort functions.'
MANIFEST["text"] += ' The magnitude default applies alike under D, C, P and H (long and ~) for 5 default formats x 3 separate_format_defaults settings, quantities and measurements.'
MANIFEST["text"] += ' Every declared prefix (symbol-less ones included) on 4 units under all specs.'
