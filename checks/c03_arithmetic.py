"""C03 — arithmetic results do not depend on the units used to express the operands.

E1: every depth-1 tree  (leaf op leaf | number op leaf | leaf op number | unary leaf)  over 12
physical leaves x ALL spelling assignments, in plain, reflected and in-place forms; depth-2
trees over a 5-leaf core.  Oracles: (1) metamorphic — all spelling assignments of one tree give
physically equal results or the same exception class; (2) reference — an exact value/dimension
calculator (root units, Fractions) written from the property statement; (3) operand integrity —
nothing but the target of an in-place form changes (scalar and ndarray magnitudes)."""
from __future__ import annotations

import itertools
import math
import operator
from fractions import Fraction

from mc import core, regs
from mc.ref import defs

PROPERTY = "C03"
LEVEL = "exploration"
RULE = (
    "all depth-1 trees over 12 physical leaves (each in 2-4 unit spellings) and 6 bare numbers x 16 binary operator forms (plain/reflected/in-place) + 3 unary, every spelling assignment; "
    "depth-2 trees (a.b).c and a.(b.c) over a 5-leaf core x {+,-,*,/} (quick: 2 spellings per leaf; thorough: all 12 leaves, 2 spellings); scalar Fraction registry (exact), float registry with "
    "1-d ndarray magnitudes (tolerance 1e-9, in-place forms really in place), Decimal scalars in thorough. non-trivial = distinct (mode, tree, spelling assignment) with at least one non-first spelling"
)
ASSUMPTIONS = [
    "reference calculator in this file works on exact root-unit values (R1 factors) and base-dimension vectors",
    "spelling alphabets contain only rational multiplicative units, so Fraction-registry results are exact",
    "results whose exponent or operand is a non-integer power are compared with relative tolerance 1e-12",
]
SITE_GRAMMAR = "[clause, operator, form, failure-kind(, mode)]"

LEAVES = {
    "5m": [("5", "meter"), ("500", "centimeter"), ("1/200", "kilometer"), ("5000", "millimeter")],
    "2m": [("2", "meter"), ("200", "centimeter"), ("1/500", "kilometer")],
    "0m": [("0", "meter"), ("0", "kilometer")],
    "-7m": [("-7", "meter"), ("-700", "centimeter")],
    "3s": [("3", "second"), ("1/20", "minute"), ("3000", "millisecond")],
    "4kg": [("4", "kilogram"), ("4000", "gram")],
    "half": [("1/2", ""), ("50", "percent"), ("500", "permille")],
    "3count": [("3", "count"), ("3000", "millicount")],
    "2rad": [("2", "radian"), ("2000", "milliradian")],
    "nanm": [("nan", "meter"), ("nan", "kilometer")],
    "1m2": [("1", "meter**2"), ("10000", "centimeter**2"), ("1/10000", "hectare")],
    "two": [("2", ""), ("200", "percent")],
}
CORE = ["5m", "2m", "3s", "half", "0m"]
NUMBERS = ["0", "1", "2", "1/2", "nan", "-3"]

BIN = {
    "+": operator.add, "-": operator.sub, "*": operator.mul, "/": operator.truediv, "//": operator.floordiv, "%": operator.mod,
    "divmod": divmod, "**": operator.pow, "<": operator.lt, "<=": operator.le, ">": operator.gt, ">=": operator.ge, "==": operator.eq, "!=": operator.ne,
}
IOPS = {"+": operator.iadd, "-": operator.isub, "*": operator.imul, "/": operator.itruediv, "//": operator.ifloordiv, "%": operator.imod, "**": operator.ipow}
UN = {"neg": operator.neg, "pos": operator.pos, "abs": operator.abs}


def model():
    return defs.default_model(core.REPO)


class RefErr(Exception):
    def __init__(self, cls):
        self.cls = cls


# ----------------------------------------------------------------------------- reference calculator


def isnan(v):
    return isinstance(v, float) and v != v


def dmul(d1, d2, s=1):
    out = dict(d1)
    for k, e in d2:
        out[k] = out.get(k, 0) + s * e
    return tuple(sorted((k, e) for k, e in out.items() if e != 0))


def dpow(d, p):
    return tuple(sorted((k, e * p) for k, e in d if e * p != 0))


def ref_bin(op, A, B):
    """A, B: ('q', dims(tuple of (dim, Fraction)), value) or ('n', value). value: Fraction | float nan"""
    ka, kb = A[0], B[0]
    if op in ("+", "-"):
        f = BIN[op]
        if ka == "q" and kb == "q":
            if A[1] != B[1]:
                raise RefErr("DimensionalityError")
            return ("q", A[1], f(A[2], B[2]))
        q, n, qfirst = (A, B, True) if ka == "q" else (B, A, False)
        nv = n[1]
        if nv == 0 or isnan(nv) or q[1] == ():
            return ("q", q[1], f(q[2], nv) if qfirst else f(nv, q[2]))
        raise RefErr("DimensionalityError")
    if op in ("*", "/"):
        f = BIN[op]
        da = A[1] if ka == "q" else ()
        db = B[1] if kb == "q" else ()
        va, vb = A[-1], B[-1]
        return ("q", dmul(da, db, 1 if op == "*" else -1), f(va, vb))
    if op in ("//", "%", "divmod"):
        da = A[1] if ka == "q" else ()
        db = B[1] if kb == "q" else ()
        if da != db:
            raise RefErr("DimensionalityError")
        va, vb = A[-1], B[-1]
        if op == "//":
            return ("q", (), va // vb)
        if op == "%":
            return ("q", da, va % vb)
        q, r = divmod(va, vb)
        return ("t", ("q", (), q), ("q", da, r))
    if op == "**":
        if kb == "q" and B[1] != ():
            raise RefErr("DimensionalityError")
        p = B[-1]
        if ka == "n":
            return ("q", (), A[1] ** p)
        if isnan(p):
            return ("q", None, float("nan"))
        return ("q", dpow(A[1], p), A[2] ** p)
    if op in ("<", "<=", ">", ">=", "==", "!="):
        f = BIN[op]
        if ka == "q" and kb == "q":
            if A[1] != B[1]:
                if op == "==":
                    return ("b", False)
                if op == "!=":
                    return ("b", True)
                raise RefErr("DimensionalityError")
            return ("b", f(A[2], B[2]))
        q, n, qfirst = (A, B, True) if ka == "q" else (B, A, False)
        nv = n[1]
        if q[1] == () or nv == 0 or isnan(nv):
            return ("b", f(q[2], nv) if qfirst else f(nv, q[2]))
        if op == "==":
            return ("b", False)
        if op == "!=":
            return ("b", True)
        raise RefErr("ValueError")
    raise core.HarnessError(op)


def ref_un(op, A):
    return ("q", A[1], UN[op](A[2]))


# ----------------------------------------------------------------------------- bridging pint <-> reference


def parse_num(s, mode):
    if s == "nan":
        return float("nan")
    f = Fraction(s)
    if mode == "Fraction":
        return int(f) if f.denominator == 1 else f
    if mode == "Decimal":
        from decimal import Decimal

        return int(f) if f.denominator == 1 else Decimal(f.numerator) / Decimal(f.denominator)
    return int(f) if f.denominator == 1 else float(f)


def mk_leaf(ureg, mode, spelling):
    mag, unit = spelling
    if mode == "array":
        import numpy as np

        base = float("nan") if mag == "nan" else float(Fraction(mag))
        return ureg.Quantity(np.array([base, 2 * base, -base]), unit)
    return ureg.Quantity(parse_num(mag, mode), unit)


def leaf_ref(M, name, mode):
    mag, unit = LEAVES[name][0]
    uv = dict(defs.parse_expr(unit).units) if unit else {}
    dims = tuple(sorted(M.dim_of_units(uv).items()))
    v = float("nan") if mag == "nan" else Fraction(mag) * M.root_of_units(uv).coef
    if mode == "array":
        import numpy as np

        b = float(v)
        v = np.array([b, 2 * b, -b])
    return ("q", dims, v)


def num_ref(s, mode):
    return ("n", float("nan") if s == "nan" else Fraction(s))


def canon(M, r):
    """pint result -> reference representation"""
    import numpy as np

    if isinstance(r, tuple):
        return ("t",) + tuple(canon(M, x) for x in r)
    if hasattr(r, "_units") and hasattr(r, "_magnitude"):
        try:
            uv = {k: Fraction(v) for k, v in dict(r._units).items()}
        except ValueError:  # NaN exponent (x ** nan)
            return ("q", None, float("nan"))
        dims = tuple(sorted(M.dim_of_units(uv).items()))
        rf = M.root_of_units(uv)
        fac = rf.coef if not rf.rad else float(rf.dec(30))  # fractional powers of prefixed units are irrational
        m = r._magnitude
        if isinstance(m, np.ndarray):
            return ("q", dims, m.astype(float) * float(fac))
        if isinstance(m, (int, Fraction)) and not isinstance(m, bool) and isinstance(fac, Fraction):
            return ("q", dims, Fraction(m) * fac)
        try:
            return ("q", dims, float(m) * float(fac))
        except TypeError:
            return ("q", dims, complex(m) * float(fac))
    if isinstance(r, (bool, np.bool_)):
        return ("b", bool(r))
    if isinstance(r, np.ndarray):
        return ("b", r) if r.dtype == bool else ("q", (), r.astype(float))
    if isinstance(r, (int, float, Fraction)) or type(r).__name__ == "Decimal":
        return ("q", (), Fraction(r) if isinstance(r, (int, Fraction)) else float(r))
    if isinstance(r, complex):
        return ("q", (), r)
    return ("?", repr(r))


def same(x, y):
    import numpy as np

    if x[0] != y[0]:
        # a bare dimensionless number and a dimensionless quantity denote the same thing
        return False
    if x[0] == "t":
        return len(x) == len(y) and all(same(a, b) for a, b in zip(x[1:], y[1:]))
    if x[0] == "b":
        if isinstance(x[1], np.ndarray) or isinstance(y[1], np.ndarray):
            bx, by = np.broadcast_arrays(np.asarray(x[1]), np.asarray(y[1]))
            return bool(np.array_equal(bx, by))
        return x[1] == y[1]
    if x[0] == "q":
        vx, vy = x[2], y[2]
        if isinstance(vx, np.ndarray) or isinstance(vy, np.ndarray):
            vx, vy = np.asarray(vx, dtype=float), np.asarray(vy, dtype=float)
            if vx.shape != vy.shape:
                return False
            # leaf values are O(1..10) in root units: 1e-6 absolute covers float cancellation noise
            # (1e-15) and is far below any unit-factor error (>= 1e-3 relative)
            ok = np.allclose(vx, vy, rtol=1e-9, atol=1e-6, equal_nan=True)
            allnan = bool(np.all(np.isnan(vx)) and np.all(np.isnan(vy)))
            return bool(ok) and (x[1] == y[1] or x[1] is None or y[1] is None or allnan and False or x[1] == y[1])
        nx, ny = (isinstance(vx, float) and vx != vx), (isinstance(vy, float) and vy != vy)
        if x[1] is not None and y[1] is not None and x[1] != y[1]:
            return False
        if nx or ny:
            return nx and ny
        if isinstance(vx, Fraction) and isinstance(vy, Fraction):
            return vx == vy
        if isinstance(vx, complex) or isinstance(vy, complex):
            return abs(complex(vx) - complex(vy)) <= 1e-12 * max(abs(complex(vx)), abs(complex(vy)), 1e-300)
        fx, fy = float(vx), float(vy)
        if fx == fy:
            return True
        # rounded (non-Fraction) results: leaf values are O(1..10) in root units, so 1e-9 absolute covers
        # cancellation noise and is far below any unit-factor error
        return abs(fx - fy) <= 1e-12 * max(abs(fx), abs(fy)) + 1e-9
    return x == y


def snap(q):
    import numpy as np

    if hasattr(q, "_units"):
        m = q._magnitude
        mm = m.tobytes() if isinstance(m, np.ndarray) else repr(m)
        return (mm, tuple(sorted((k, repr(v)) for k, v in dict(q._units).items())))
    if isinstance(q, np.ndarray):
        return q.tobytes()
    return repr(q)


def run_op(fn):
    import warnings

    try:
        with warnings.catch_warnings():
            warnings.simplefilter("ignore")
            return ("ok", fn())
    except Exception as e:  # noqa
        n = type(e).__name__
        # decimal signals for x/0, x%0, (-3)**0.5 are the Decimal spelling of the arithmetic error
        return ("exc", "ZeroDivisionError" if n in ("DivisionByZero", "InvalidOperation", "DivisionUndefined") else n)


def eval_ref(fn):
    import warnings

    try:
        with warnings.catch_warnings():
            warnings.simplefilter("ignore")
            return ("ok", fn())
    except RefErr as e:
        return ("exc", e.cls)
    except ZeroDivisionError:
        return ("exc", "ZeroDivisionError")
    except (OverflowError, TypeError, ValueError) as e:
        return ("skip", type(e).__name__)


_eval_ref0 = eval_ref


def eval_ref(fn):  # noqa: F811
    r = _eval_ref0(fn)
    if r[0] == "ok" and r[1][0] == "q" and isinstance(r[1][2], complex):
        return ("skip", "complex")  # negative base, fractional exponent: numeric-type dependent
    return r


# ----------------------------------------------------------------------------- the sweep


def shards(tier, seed):
    names = list(LEAVES)
    out = []
    modes = ["Fraction", "array"] + (["Decimal", "float"] if tier == "thorough" else [])
    for mode in modes:
        for a in names:
            out.append(("d1", mode, a))
        out.append(("unary", mode))
        out.append(("d2", mode))
    out.append(("autoreduce",))
    out.append(("temps", "Fraction"))
    out.append(("temps", "float"))
    return out


def get_reg(mode):
    return regs.default({"Fraction": "Fraction", "Decimal": "Decimal"}.get(mode, "float"))


DISCONT = ("//", "%", "divmod", "==", "!=", "<", "<=", ">", ">=")


def check_tree(acc, M, mode, tree_key, ref, variants, opname, form):
    """variants: list of (spelling assignment, outcome) — outcome ('ok', canon) | ('exc', cls)"""
    if mode in ("array", "float", "Decimal") and opname in DISCONT:
        # floor / comparison are discontinuous: with rounded float factors a tie may fall either way,
        # so only the outcome class is compared here (values are decided exactly in Fraction mode)
        variants = [(a, (o[0], o[1] if o[0] == "exc" else ("b", True))) for a, o in variants]
        if ref[0] == "ok":
            ref = ("ok", ("b", True))
    if mode != "Fraction" and (ref == ("exc", "ZeroDivisionError") or any(o == ("exc", "ZeroDivisionError") for _, o in variants)):
        return  # a divisor that is exactly zero only in exact arithmetic: rounded modes may see 1e-28 instead
    first = variants[0][1]
    for assign, out in variants[1:]:
        acc.ev()
        agree = (first[0] == out[0]) and (first[1] == out[1] if first[0] == "exc" else same(first[1], out[1]))
        if not agree:
            acc.violation(["unit-independence", opname, form, "result-depends-on-operand-units", mode], {"mode": mode, "tree": tree_key, "spellings_a": variants[0][0], "spellings_b": assign}, show(first), show(out))
    if ref[0] == "skip":
        return
    for assign, out in variants[:1] + variants[-1:]:
        acc.ev()
        if ref[0] == "exc":
            ok = out[0] == "exc" and (out[1] == ref[1] or (ref[1] == "ZeroDivisionError" and out[1] in ("ZeroDivisionError", "DivisionByZero", "InvalidOperation", "DivisionUndefined")))
            if mode in ("array", "float") and ref[1] == "ZeroDivisionError":
                ok = True  # numpy / float semantics: inf or nan instead of an exception
        else:
            ok = out[0] == "ok" and same(ref[1], out[1])
        if not ok:
            acc.violation(["reference", opname, form, "differs-from-exact-calculation", mode], {"mode": mode, "tree": tree_key, "spellings": assign}, show(ref), show(out))


def show(o):
    import numpy as np

    def s(x):
        if isinstance(x, tuple):
            return [s(i) for i in x]
        if isinstance(x, np.ndarray):
            return [bool(v) if x.dtype == bool else (repr(float(v)) if x.dtype != object else repr(v)) for v in np.atleast_1d(x).ravel()]
        if isinstance(x, Fraction):
            return str(x)
        return x if isinstance(x, (str, bool, int, type(None))) else repr(x)

    return s(o)


def leaves_for(mode):
    # Decimal NaN raises InvalidOperation on comparison and cannot mix with float NaN: left out there
    return [n for n in LEAVES if not (mode == "Decimal" and n == "nanm")]


def numbers_for(mode):
    return [n for n in NUMBERS if not (mode == "Decimal" and n == "nan")]


def stale_attrs(ureg, r):
    """names of derived read-only attributes of a quantity that disagree with its unit container"""
    if not hasattr(r, "_units"):
        return []
    try:
        want = ureg.get_dimensionality(r._units)
        fresh = ureg.Quantity(1, r._units)
        bad = []
        if r.dimensionality != want:
            bad.append("dimensionality")
        if r.dimensionless != fresh.dimensionless:
            bad.append("dimensionless")
        if r.unitless != fresh.unitless:
            bad.append("unitless")
        if r.check(want) is not True:
            bad.append("check")
        if r.is_compatible_with(fresh) is not True:
            bad.append("is_compatible_with")
        return bad
    except Exception:  # noqa
        return []  # a NaN exponent (q **= nan) or a float NaN magnitude in a Decimal registry: nothing to compare with


def warm(q):
    """read every memoised derived attribute once, as a program that inspects a quantity before updating it does"""
    try:
        q.dimensionality, q.dimensionless, q.unitless  # noqa: B018
    except Exception:  # noqa
        pass
    return q


def run_d1(acc, mode, aname):
    import numpy as np

    if aname not in leaves_for(mode):
        return

    M = model()
    ureg = get_reg(mode)
    refA = leaf_ref(M, aname, mode)
    for opname in BIN:
        # ---- quantity op quantity (plain and in-place)
        for bname in leaves_for(mode):
            if opname == "**" and (bname not in ("two", "half") or (mode == "Decimal" and bname == "half")):
                continue
            refB = leaf_ref(M, bname, mode)
            if opname == "**" and mode == "array":
                continue  # array exponents are a NumPy matter (C16)
            ref = eval_ref(lambda: ref_bin(opname, refA, refB))
            for form in ("plain",) + (("inplace",) if opname in IOPS else ()):
                variants = []
                for sa, sb in itertools.product(LEAVES[aname], LEAVES[bname]):
                    a, b = mk_leaf(ureg, mode, sa), mk_leaf(ureg, mode, sb)
                    sa0, sb0 = snap(a), snap(b)
                    if form == "plain":
                        o = run_op(lambda: BIN[opname](a, b))
                    else:
                        warm(a)
                        o = run_op(lambda: IOPS[opname](a, b))
                        bad = stale_attrs(ureg, o[1]) if o[0] == "ok" else []
                        if bad:
                            acc.violation(["inplace-consistency", opname, form, "derived-attribute-stale-after-in-place-operation", mode], {"mode": mode, "tree": [aname, opname, bname], "spellings": [list(sa), list(sb)], "attributes": bad}, "attributes that follow the unit container", bad)
                        # the same update followed, WITHOUT looking at the object in between, by an in-place rescale
                        a2, b2 = warm(mk_leaf(ureg, mode, sa)), mk_leaf(ureg, mode, sb)
                        o2 = run_op(lambda: IOPS[opname](a2, b2))
                        if o2[0] == "ok" and hasattr(o2[1], "_units"):
                            o3 = run_op(lambda: o2[1].ito_root_units())
                            bad = stale_attrs(ureg, o2[1]) if o3[0] == "ok" else []
                            if bad:
                                acc.violation(["inplace-consistency", opname, "inplace+ito_root_units", "derived-attribute-stale-after-in-place-operation", mode], {"mode": mode, "tree": [aname, opname, bname], "spellings": [list(sa), list(sb)], "attributes": bad}, "attributes that follow the unit container", bad)
                    acc.ev()
                    if (sa, sb) != (LEAVES[aname][0], LEAVES[bname][0]):
                        acc.nt((mode, opname, form, aname, bname, sa, sb))
                    if snap(b) != sb0 or (form == "plain" and snap(a) != sa0):
                        acc.violation(["operand-integrity", opname, form, "operand-other-than-inplace-target-modified", mode], {"mode": mode, "tree": [aname, opname, bname], "spellings": [list(sa), list(sb)]}, "operands unchanged", {"a_changed": snap(a) != sa0, "b_changed": snap(b) != sb0})
                    if form == "inplace" and o[0] == "ok" and mode == "array" and isinstance(a._magnitude, np.ndarray):
                        pass
                    variants.append(([list(sa), list(sb)], (o[0], canon(M, o[1]) if o[0] == "ok" else o[1])))
                check_tree(acc, M, mode, [aname, opname, bname], ref, variants, opname, form)
                acc.outcome(f"{opname}:{ref[0]}")
        # ---- quantity op number, number op quantity (reflected), in-place with number
        for ns in numbers_for(mode):
            if mode in ("array", "Decimal") and opname == "**" and ns in ("1/2", "nan"):
                continue
            refN = num_ref(ns, mode)
            for form in ("plain", "reflected") + (("inplace",) if opname in IOPS else ()):
                if form == "reflected":
                    ref = eval_ref(lambda: ref_bin(opname, refN, refA))
                else:
                    ref = eval_ref(lambda: ref_bin(opname, refA, refN))
                variants = []
                for sa in LEAVES[aname]:
                    a = mk_leaf(ureg, mode, sa)
                    n = parse_num(ns, "float" if mode == "array" else mode)
                    sa0 = snap(a)
                    if form == "plain":
                        o = run_op(lambda: BIN[opname](a, n))
                    elif form == "reflected":
                        o = run_op(lambda: BIN[opname](n, a))
                    else:
                        warm(a)
                        o = run_op(lambda: IOPS[opname](a, n))
                        bad = stale_attrs(ureg, o[1]) if o[0] == "ok" else []
                        if bad:
                            acc.violation(["inplace-consistency", opname, form, "derived-attribute-stale-after-in-place-operation", mode], {"mode": mode, "tree": [aname, opname, ns], "spellings": [list(sa)], "attributes": bad}, "attributes that follow the unit container", bad)
                    acc.ev()
                    if sa != LEAVES[aname][0]:
                        acc.nt((mode, opname, form, aname, ns, sa))
                    if form != "inplace" and snap(a) != sa0:
                        acc.violation(["operand-integrity", opname, form, "operand-other-than-inplace-target-modified", mode], {"mode": mode, "tree": [aname, opname, ns], "spellings": [list(sa)]}, "operand unchanged", "changed")
                    variants.append(([list(sa), ns], (o[0], canon(M, o[1]) if o[0] == "ok" else o[1])))
                check_tree(acc, M, mode, [aname, opname, ns] if form != "reflected" else [ns, opname, aname], ref, variants, opname, form + "-number")
                acc.outcome(f"{opname}:{ref[0]}")
    acc.sample({"mode": mode, "tree": [aname, "+", "2m"], "spelling_assignments": [[list(x), list(y)] for x, y in itertools.product(LEAVES[aname][:2], LEAVES["2m"][:2])]})


def run_unary(acc, mode):
    M = model()
    ureg = get_reg(mode)
    for aname in leaves_for(mode):
        refA = leaf_ref(M, aname, mode)
        for opname in UN:
            ref = eval_ref(lambda: ref_un(opname, refA))
            variants = []
            for sa in LEAVES[aname]:
                a = mk_leaf(ureg, mode, sa)
                s0 = snap(a)
                o = run_op(lambda: UN[opname](a))
                acc.ev()
                acc.nt((mode, opname, aname, sa))
                if snap(a) != s0:
                    acc.violation(["operand-integrity", opname, "plain", "operand-other-than-inplace-target-modified", mode], {"mode": mode, "tree": [opname, aname], "spellings": [list(sa)]}, "operand unchanged", "changed")
                variants.append(([list(sa)], (o[0], canon(M, o[1]) if o[0] == "ok" else o[1])))
            check_tree(acc, M, mode, [opname, aname], ref, variants, opname, "unary")
    acc.sample({"mode": mode, "tree": ["neg", "5m"], "spellings": [list(s) for s in LEAVES["5m"]]})


def run_d2(acc, mode, tier):
    M = model()
    ureg = get_reg(mode)
    names = CORE if tier == "quick" else leaves_for(mode)
    ops = ["+", "-", "*", "/"]
    nsp = 2
    for a, b, c in itertools.product(names, repeat=3):
        ra, rb, rc = (leaf_ref(M, x, mode) for x in (a, b, c))
        for o1, o2 in itertools.product(ops, repeat=2):
            for shape in ("(a.b).c", "a.(b.c)"):
                if shape == "(a.b).c":
                    ref = eval_ref(lambda: ref_bin(o2, ref_bin(o1, ra, rb), rc))
                else:
                    ref = eval_ref(lambda: ref_bin(o1, ra, ref_bin(o2, rb, rc)))
                variants = []
                for sa, sb, sc in itertools.product(LEAVES[a][:nsp], LEAVES[b][:nsp], LEAVES[c][:nsp]):
                    qa, qb, qc = (mk_leaf(ureg, mode, s) for s in (sa, sb, sc))
                    s0 = (snap(qa), snap(qb), snap(qc))
                    if shape == "(a.b).c":
                        o = run_op(lambda: BIN[o2](BIN[o1](qa, qb), qc))
                    else:
                        o = run_op(lambda: BIN[o1](qa, BIN[o2](qb, qc)))
                    acc.ev()
                    acc.nt((mode, shape, a, o1, b, o2, c, sa, sb, sc))
                    if (snap(qa), snap(qb), snap(qc)) != s0:
                        acc.violation(["operand-integrity", o1 + o2, "depth2", "operand-other-than-inplace-target-modified", mode], {"mode": mode, "tree": [shape, a, o1, b, o2, c], "spellings": [list(sa), list(sb), list(sc)]}, "operands unchanged", "changed")
                    variants.append(([list(sa), list(sb), list(sc)], (o[0], canon(M, o[1]) if o[0] == "ok" else o[1])))
                check_tree(acc, M, mode, [shape, a, o1, b, o2, c], ref, variants, o1 + o2, "depth2")
                acc.outcome(f"d2:{ref[0]}")
    acc.sample({"mode": mode, "tree": ["(a.b).c", "5m", "+", "2m", "/", "3s"], "spellings": [list(LEAVES["5m"][1]), list(LEAVES["2m"][0]), list(LEAVES["3s"][1])]})


# ----------------------------------------------------------------------------- comparisons of temperatures

# kelvin value -> the same temperature in every scale of the bundled registry (exact decimals)
TEMPS = {
    "300": [("300", "kelvin"), ("2685/100", "degC"), ("8033/100", "degF"), ("540", "degR"), ("300000", "millikelvin")],
    "27315/100": [("27315/100", "kelvin"), ("0", "degC"), ("32", "degF"), ("49167/100", "degR")],
    "23315/100": [("23315/100", "kelvin"), ("-40", "degC"), ("-40", "degF"), ("41967/100", "degR")],
    "100": [("100", "kelvin"), ("-17315/100", "degC"), ("180", "degR")],
}
CMP = ("<", "<=", ">", ">=", "==", "!=")


def run_temperatures(acc, mode):
    """ordering and equality are in the operator list of the property, and an absolute temperature is a
    physical quantity whatever scale expresses it: every comparison of two temperatures must give the
    answer the kelvin values give, for every pair of scales"""
    ureg = get_reg(mode)
    for ka, va in TEMPS.items():
        for kb, vb in TEMPS.items():
            if mode != "Fraction" and ka == kb:
                continue  # ties under rounded scale factors are left to the exact mode
            for op in CMP:
                want = BIN[op](Fraction(ka), Fraction(kb))
                for sa in va:
                    for sb in vb:
                        acc.ev()
                        acc.nt(("temp", mode, op, sa, sb))
                        o = run_op(lambda: bool(BIN[op](mk_leaf(ureg, "Fraction" if mode == "Fraction" else "float", sa), mk_leaf(ureg, "Fraction" if mode == "Fraction" else "float", sb))))
                        if o != ("ok", want):
                            acc.violation(["covariance", op, "temperature-scales", "comparison-depends-on-the-scale-used", mode], {"mode": mode, "a": list(sa), "b": list(sb), "kelvin": [ka, kb]}, want, show(o))
                        # sorted()/min()/max() use the same operators
            acc.outcome("temperature-pair")
    # sorting a mixed list is a program over the comparison operators
    allq = [(Fraction(k), mk_leaf(ureg, "Fraction" if mode == "Fraction" else "float", sp)) for k, v in TEMPS.items() for sp in v]
    for rot in range(len(allq)):
        acc.ev()
        lst = allq[rot:] + allq[:rot]
        o = run_op(lambda: [k for k, q in sorted(lst, key=lambda kq: kq[1])])
        if o[0] != "ok" or o[1] != sorted(k for k, q in lst):
            acc.violation(["covariance", "sorted", "temperature-scales", "comparison-depends-on-the-scale-used", mode], {"mode": mode, "rotation": rot}, "ascending kelvin values", show(o))
    # products and quotients with an ordinary quantity, in the mode that allows them for offset units: the same
    # temperature in any scale gives the same physical result, in both operand orders
    areg = regs.default("Fraction" if mode == "Fraction" else "float", autoconvert_offset_to_baseunit=True)
    lm = "Fraction" if mode == "Fraction" else "float"
    for partner in (("2", "meter*second"), ("3", ""), ("5", "1/second")):
        for ka, va in TEMPS.items():
            for op in ("*", "/"):
                for order in ("T.P", "P.T"):
                    outs = []
                    for sa in va:
                        if sa[1] == "millikelvin":
                            continue
                        acc.ev()
                        acc.nt(("temp-prod", mode, op, order, sa, partner))
                        t, pq = mk_leaf(areg, lm, sa), mk_leaf(areg, lm, partner)
                        o = run_op(lambda: (BIN[op](t, pq) if order == "T.P" else BIN[op](pq, t)).to_root_units())
                        outs.append((sa, o))
                    ref = outs[0][1]
                    for sa, o in outs[1:]:
                        same_ = o[0] == ref[0] and (o[0] != "ok" or (dict(o[1]._units) == dict(ref[1]._units) and (o[1].magnitude == ref[1].magnitude if mode == "Fraction" else abs(float(o[1].magnitude) - float(ref[1].magnitude)) <= 1e-9 * abs(float(ref[1].magnitude)))))
                        if not same_:
                            acc.violation(["covariance", op, "temperature-scales", "product-depends-on-the-scale-used", mode], {"mode": mode, "temperature": list(sa), "reference": list(outs[0][0]), "partner": list(partner), "order": order}, show(ref), show(o))
    # an operand whose units COMBINE an offset unit with other units, or carry it at a power other than 1 (built from
    # Unit objects: degC / minute), is refused by * and / with the same kind of error whatever units the OTHER operand is
    # expressed in, in either order, also against a bare number on the left of /, in the default and the autoconvert registry
    import operator as _o

    for creg, cname in ((regs.default(lm), "default"), (areg, "autoconvert")):
        CQ = creg.Quantity
        compounds = [{"degC": 1, "minute": -1}, {"degC": 1, "meter": 1}, {"degF": 1, "second": -1}, {"degC": 2}, {"degC": -1}, {"degC": 1, "degF": 1}]
        partner_groups = [[("10", "minute"), ("600", "second"), ("1/6", "hour")], [("3", "meter"), ("300", "centimeter")], [("2", ""), ("200", "percent")]]
        for cu in compounds:
            for group in partner_groups:
                for (opn, op), order in itertools.product((("*", _o.mul), ("/", _o.truediv)), ("c.x", "x.c")):
                    outs = []
                    for pm, pu in group:
                        acc.ev()
                        acc.nt(("compound-offset", mode, cname, tuple(cu.items()), opn, order, pm, pu))
                        c = CQ(parse_num("5", lm), creg.UnitsContainer(cu))
                        x = mk_leaf(creg, lm, (pm, pu))
                        outs.append(((pm, pu), run_op(lambda: op(c, x) if order == "c.x" else op(x, c))))
                    for (pmu, o) in outs:
                        if o != ("exc", "OffsetUnitCalculusError"):
                            acc.violation(["offset-compound", opn, "offset-unit-inside-a-compound-operand", "ambiguous-product-not-refused", cname], {"mode": mode, "registry": cname, "operand_units": {k: str(v) for k, v in cu.items()}, "partner": list(pmu), "order": order}, "OffsetUnitCalculusError", show(o))
                            break
            acc.ev()
            c = CQ(parse_num("5", lm), creg.UnitsContainer(cu))
            o = run_op(lambda: 2 / c)
            if o != ("exc", "OffsetUnitCalculusError"):
                acc.violation(["offset-compound", "/", "offset-unit-inside-a-compound-operand", "ambiguous-product-not-refused", cname], {"mode": mode, "registry": cname, "operand_units": {k: str(v) for k, v in cu.items()}, "partner": ["2", "bare number"], "order": "x.c"}, "OffsetUnitCalculusError", show(o))
    # an operand that was rescaled IN PLACE (also across dimensions, through a context) behaves in every operator
    # like a new quantity with the same magnitude and units

    preg = regs.default("Fraction" if mode == "Fraction" else "float")
    PQ = preg.Quantity
    partners = [("1", "terahertz"), ("1000", "gigahertz"), ("1", "meter"), ("3", "second"), ("2", "")]
    rescales = [("500", "nanometer", lambda q: q.ito("terahertz", "sp")), ("500", "nanometer", lambda q: q.ito("micrometer")), ("2", "kilometer", lambda q: q.ito_root_units()),
                ("3", "terahertz", lambda q: q.ito("nanometer", "sp")), ("2", "kilometer / hour", lambda q: q.ito_base_units())]
    for (ms, us, resc), look_first in itertools.product(rescales, (True, False)):
        q = mk_leaf(preg, lm, (ms, us))
        if look_first:
            warm(q)
            run_op(lambda: q + mk_leaf(preg, lm, (ms, us)))
        if run_op(lambda: resc(q))[0] != "ok":
            continue
        twin = PQ(q.magnitude, q.units)
        for (pm, pu), (opn, op), order in itertools.product(partners, (("+", _o.add), ("-", _o.sub), ("*", _o.mul), ("/", _o.truediv), ("<", _o.lt), ("==", _o.eq)), ("q.x", "x.q")):
            acc.ev()
            acc.nt(("rescaled", mode, ms, us, look_first, pm, pu, opn, order))
            x = mk_leaf(preg, lm, (pm, pu))
            o1 = run_op(lambda: op(q, x) if order == "q.x" else op(x, q))
            o2 = run_op(lambda: op(twin, x) if order == "q.x" else op(x, twin))
            same_ = o1[0] == o2[0] and (o1[1] == o2[1] if o1[0] != "ok" or not hasattr(o1[1], "_units") else (dict(o1[1]._units) == dict(o2[1]._units) and (o1[1].magnitude == o2[1].magnitude or abs(float(o1[1].magnitude) - float(o2[1].magnitude)) <= 1e-12 * abs(float(o2[1].magnitude)))))
            if not same_:
                acc.violation(["inplace-consistency", opn, "after-in-place-rescale", "operand-behaves-unlike-a-new-quantity-with-the-same-units", mode], {"mode": mode, "quantity": [ms, us], "units_now": str(q.units), "looked_at_before": look_first, "partner": [pm, pu], "order": order}, show(o2), show(o1))
    acc.sample({"clause": "covariance", "what": "temperature comparisons", "mode": mode, "example": "Q(26.85, degC) > Q(280, K)  ==  Q(300, K) > Q(280, K)"})


def loosen(c):
    """merging proportional units divides exponents (hectare * meter -> hectare ** 1.5), and a fractional power of a
    scale factor is a float even in the exact registry (DESIGN section 2 carve-out): compare such results as floats"""
    if isinstance(c, tuple) and len(c) == 3 and c[0] == "q" and isinstance(c[2], Fraction):
        return (c[0], c[1], float(c[2]))
    return c


def run_autoreduce(acc):
    """unit covariance is also promised under the registry option auto_reduce_dimensions=True, where every product and
    quotient rewrites its unit container: all ordered pairs of leaves x every spelling assignment x {*, /} x {plain,
    in-place}, exact registry, against the exact calculator"""
    M = model()
    ureg = regs.default("Fraction", auto_reduce_dimensions=True)
    names = [n for n in LEAVES if n not in ("nanm",)]
    for aname, bname in itertools.product(names, repeat=2):
        refA, refB = leaf_ref(M, aname, "Fraction"), leaf_ref(M, bname, "Fraction")
        for opname in ("*", "/"):
            ref = eval_ref(lambda: ref_bin(opname, refA, refB))
            for form in ("plain", "inplace"):
                variants = []
                for sa, sb in itertools.product(LEAVES[aname], LEAVES[bname]):
                    a, b = mk_leaf(ureg, "Fraction", sa), mk_leaf(ureg, "Fraction", sb)
                    o = run_op(lambda: (BIN if form == "plain" else IOPS)[opname](a, b))
                    acc.ev()
                    acc.nt(("autoreduce", opname, form, aname, bname, sa, sb))
                    variants.append(([list(sa), list(sb)], (o[0], loosen(canon(M, o[1])) if o[0] == "ok" else o[1])))
                check_tree(acc, M, "Fraction", [aname, opname, bname, "auto_reduce_dimensions"], (ref[0], loosen(ref[1])) if ref[0] == "ok" else ref, variants, opname, form + "+auto-reduce")
    acc.outcome("auto-reduce")
    acc.sample({"mode": "Fraction, auto_reduce_dimensions=True", "tree": ["1m2", "*", "5m"], "spellings": [["1/10000", "hectare"], ["1/200", "kilometer"]]})


def run_shard(acc, shard, tier, seed):
    k = shard[0]
    if k == "autoreduce":
        return run_autoreduce(acc)
    if k == "temps":
        return run_temperatures(acc, shard[1])
    if k == "d1":
        run_d1(acc, shard[1], shard[2])
    elif k == "unary":
        run_unary(acc, shard[1])
    elif k == "d2":
        run_d2(acc, shard[1], tier)
    else:
        raise core.HarnessError(str(shard))


def replay(rec):
    site, case = rec["site"], rec["case"]
    acc = core.Acc(PROPERTY)
    mode = case.get("mode", "Fraction")
    tree = case.get("tree", [])
    if site[2].endswith("+auto-reduce"):
        run_autoreduce(acc)
    elif site[2] == "temperature-scales" or site[0] in ("offset-compound", "inplace-consistency") and site[2] in ("offset-unit-inside-a-compound-operand", "after-in-place-rescale"):
        run_temperatures(acc, mode)
    elif site[2] == "depth2":
        run_d2(acc, mode, rec.get("tier", "quick"))
    elif site[2] == "unary" or (len(tree) == 2):
        run_unary(acc, mode)
    else:
        names = [t for t in tree if t in LEAVES]
        run_d1(acc, mode, names[0])
    sites = {tuple(v["site"]) for v in acc.violations}
    return tuple(site) in sites, {"sites_seen": sorted(sites)[:20]}


MANIFEST = {
    "category": "exploration",
    "technique": "bounded exhaustive enumeration of expression trees x unit-spelling assignments x operator forms, with a metamorphic oracle, an exact reference calculator and operand-integrity snapshots",
    "text": "Every depth-1 tree over 12 physical leaves (each available in 2-4 compatible unit spellings, including prefixed units and dimensionless units with and without root units) and 6 bare numbers, "
    "for 14 binary operators in plain, reflected and in-place form plus neg/pos/abs, is evaluated under EVERY spelling assignment; depth-2 trees (a.b).c and a.(b.c) over {+,-,*,/}. Scalars in the "
    "Fraction registry are compared exactly; 1-d ndarray magnitudes in the float registry (where in-place forms really are in place) with 1e-9. Each tree's results must agree across spellings, "
    "(also in an exact registry with auto_reduce_dimensions=True for * and /, plain and in place) match an exact value/dimension calculator written from the property statement (which decides DimensionalityError / number-acceptance clauses), and leave every operand other than an in-place "
    "target bit-identical; after every in-place form (and after an in-place form followed by ito_root_units without looking at the object in between) dimensionality / dimensionless / unitless / check / is_compatible_with must describe the units the object now carries. The six comparison operators and sorted() are additionally run over 4 absolute temperatures, each written in every scale of the bundled registry (K, degC, degF, degR, mK): every "
    "ordered pair of spellings must compare as the kelvin values do, and in an autoconvert registry their products and quotients with ordinary quantities (compound, dimensionless, inverse) must not depend on the scale, in either operand order.",
    "note": "Trusted: the 80-line reference calculator and R1 factors. Arithmetic on offset units is C06's subject (only their comparisons are covered here); trees deeper than 2 and leaves outside the alphabet are outside the bound; ZeroDivision outcomes "
    "for float/ndarray magnitudes are not compared (IEEE inf/nan semantics).",
    "ref": "DESIGN.md §4 C03",
}
MANIFEST["text"] += ' Operands whose units combine an offset unit with other units (or carry it at a power other than 1) are refused by * and / whatever units the other operand is expressed in, in both orders and both registry modes.'
