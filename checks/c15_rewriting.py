"""C15 — unit-rewriting helpers preserve the physical quantity.

E1: every container with 1-2 (thorough: 1-3) factors over a 12-unit alphabet that includes the
ambiguous names (min, ms, hectare, dm, inch, percent, radian, kilogram) x exponents -3..3 x
magnitudes, through to_root_units / to_base_units (every default system) / to_reduced_units /
to_compact / to_preferred and their ito_ twins; a decade sweep d x 10^k, k = -33..33, both signs,
for to_compact; the registry options that apply helpers after * and /.
Oracle: exact physical value and dimension vector from R1; structural clauses per helper."""
from __future__ import annotations

import itertools
import math
from decimal import Decimal
from fractions import Fraction

from mc import core, regs
from mc.ref import defs

PROPERTY = "C15"
LEVEL = "exploration"
RULE = (
    "all 1-2 factor (thorough 1-3) containers over 12 units x exponents {-3..3}\\{0} x 3 magnitudes x 4 helpers + ito twins in the Fraction registry (exact), float and Decimal (tolerance); to_base_units under "
    "every default system on the 1-factor containers; to_compact decade sweep: {1, 2.5, 999} x 10^k, k=-33..33, both signs, + {0, nan, inf, -inf} on 30 containers x {int/Fraction, float, Decimal, ufloat}; "
    "to_preferred on 40 quantities; auto_reduce_dimensions / autoconvert_to_preferred on all ordered pairs of 12 one-unit quantities under * and /. non-trivial = distinct (helper, registry, container, magnitude)"
)
ASSUMPTIONS = [
    "physical value = magnitude x exact R1 root factor; all alphabet units are rational so Fraction-registry comparisons are exact",
    "to_compact bounds for float magnitudes are widened by 4 ulp; the [1,1000) clause is asserted only when a decimal prefix for the required decade is defined (10^-30 .. 10^30) and the leading unit has exponent 1",
    "which preferred unit to_preferred picks is not asserted, only preservation and membership",
]
SITE_GRAMMAR = "[helper, clause, failure-kind, registry numeric type]"

ALPHA = ["meter", "second", "kilogram", "minute", "millisecond", "hectare", "decimeter", "inch", "percent", "radian", "newton", "liter"]
EXPS = [-3, -2, -1, 1, 2, 3]
NIT = {"float": float, "Fraction": Fraction, "Decimal": Decimal}


def model():
    return defs.default_model(core.REPO)


def call(fn):
    try:
        return ("ok", fn())
    except Exception as e:  # noqa
        return ("exc", f"{type(e).__name__}: {str(e)[:80]}")


def containers(maxn):
    out = []
    for n in range(1, maxn + 1):
        for names in itertools.combinations(ALPHA, n):
            for es in itertools.product(EXPS if n < 3 else [-1, 1, 2], repeat=n):
                out.append(dict(zip(names, es)))
    return out


def mag(x, nt):
    """x: Fraction -> magnitude of the registry's flavour"""
    if nt == "Fraction":
        return int(x) if x.denominator == 1 else x
    if nt == "Decimal":
        return Decimal(x.numerator) / Decimal(x.denominator)
    return float(x)


def pv(M, q):
    """(dimension key, exact-or-float physical value) of a pint quantity"""
    # float registries produce exponents like 0.3333333333333333: read them as the small rationals they stand for
    units = {k: (Fraction(v) if isinstance(v, (int, Fraction)) else Fraction(str(v)).limit_denominator(1000)) for k, v in dict(q._units).items()}
    r = M.root_of_units(units)
    m = q._magnitude
    if hasattr(m, "nominal_value"):
        m = m.nominal_value
    dk = tuple(sorted(M.dim_of_units(units).items()))
    if isinstance(m, (int, Fraction)) and not isinstance(m, bool) and r.rational:
        return dk, Fraction(m) * r.coef
    return dk, float(m) * float(r.dec(30))


def same_value(a, b):
    if isinstance(a, Fraction) and isinstance(b, Fraction):
        return a == b
    fa, fb = float(a), float(b)
    if fa == fb:
        return True
    if math.isnan(fa) and math.isnan(fb):
        return True
    return abs(fa - fb) <= 1e-12 * max(abs(fa), abs(fb))


def show(q):
    if hasattr(q, "_units"):
        return {"magnitude": repr(q._magnitude), "units": {k: str(v) for k, v in dict(q._units).items()}}
    return repr(q)


def proportional(d1, d2):
    """dimension vectors proportional (same dimension up to a power) and non-empty"""
    if not d1 or not d2 or set(d1) != set(d2):
        return False
    ratios = {Fraction(d2[k]) / Fraction(d1[k]) for k in d1}
    return len(ratios) == 1


def get_reg(nt, **kw):
    return regs.default(nt, **kw)


# ----------------------------------------------------------------------------- generic preservation


HELPERS = {
    "to_root_units": (lambda q: q.to_root_units(), lambda q: q.ito_root_units()),
    "to_base_units": (lambda q: q.to_base_units(), lambda q: q.ito_base_units()),
    "to_reduced_units": (lambda q: q.to_reduced_units(), lambda q: q.ito_reduced_units()),
    "to_compact": (lambda q: q.to_compact(), None),
}


def check_helper(acc, M, ureg, nt, name, units, x, extra=None):
    fn, ifn = HELPERS[name]
    uc = ureg.UnitsContainer(units)
    q = ureg.Quantity(mag(x, nt), uc)
    before = (repr(q._magnitude), tuple(sorted(dict(q._units).items())))
    case = {"registry": nt, "units": {k: str(v) for k, v in units.items()}, "magnitude": str(x)}
    if extra:
        case.update(extra)
    want = pv(M, q)
    o = call(lambda: fn(q))
    acc.ev()
    if o[0] != "ok":
        dims = [M.dim(u_) for u_ in units]
        cube = any(len(d) == 1 and abs(next(iter(d.values()))) == 3 for d in dims) and len(units) > 1
        if name == "to_reduced_units" and nt != "Fraction" and o[1].startswith("DimensionalityError") and cube:
            acc.violation([name, "call", "raises-DimensionalityError-after-rounding-a-fractional-exponent", nt], case, "a quantity", o[1])
        else:
            acc.violation([name, "call", "raises", nt], case, "a quantity", o[1])
        return None
    r = o[1]
    if (repr(q._magnitude), tuple(sorted(dict(q._units).items()))) != before:
        acc.violation([name, "functional-form", "modifies-its-operand", nt], case, before, show(q))
    got = pv(M, r)
    if got[0] != want[0]:
        acc.violation([name, "preservation", "dimensionality-changed", nt], case, want[0], got[0])
        return r
    if not same_value(want[1], got[1]):
        acc.violation([name, "preservation", "physical-value-changed", nt], case, str(want[1]), [str(got[1]), show(r)])
        return r
    integral = all(Fraction(v).denominator == 1 for v in list(units.values()) + list(dict(r._units).values()))
    rational_target = all(M.rational_unit(u_) for u_ in dict(r._units))
    # exactness carve-out (DESIGN §2): a fractional exponent on either side, or a non-rational target unit
    # (atomic / Planck base units), necessarily goes through a float
    if nt == "Fraction" and isinstance(want[1], Fraction) and integral and rational_target and not isinstance(r._magnitude, (int, Fraction)) and name != "to_compact":
        acc.violation([name, "preservation", "exact-magnitude-became-inexact", nt], case, "int or Fraction", type(r._magnitude).__name__)
    if ifn is not None:
        q2 = ureg.Quantity(mag(x, nt), uc)
        o2 = call(lambda: ifn(q2))
        acc.ev()
        if o2[0] != "ok":
            acc.violation([name, "in-place-form", "raises", nt], case, show(r), o2[1])
        elif dict(q2._units) != dict(r._units) or not (q2._magnitude == r._magnitude or same_value(Fraction(q2._magnitude) if isinstance(q2._magnitude, (int, Fraction)) else q2._magnitude, Fraction(r._magnitude) if isinstance(r._magnitude, (int, Fraction)) else r._magnitude)):
            acc.violation([name, "in-place-form", "differs-from-functional-form", nt], case, show(r), show(q2))
    return r


def run_preserve(acc, nt, block, nblocks, tier):
    M = model()
    ureg = get_reg(nt)
    cs = containers(2 if tier == "quick" else 3)
    acc.dim("containers", len(cs))
    mags = [Fraction(1), Fraction(5, 2) * Fraction(1, 10**7), Fraction(999) * 10**12]
    for i, c in enumerate(cs):
        if i % nblocks != block:
            continue
        for x in mags:
            for name in ("to_root_units", "to_base_units", "to_reduced_units"):
                acc.nt((name, nt, i, str(x)))
                r = check_helper(acc, M, ureg, nt, name, c, x)
                if r is not None and name == "to_reduced_units":
                    # no two remaining units could still be merged
                    us = list(dict(r._units))
                    for a, b in itertools.combinations(us, 2):
                        if proportional(M.dim(a), M.dim(b)):
                            acc.violation([name, "structure", "leaves-two-units-of-the-same-dimension-up-to-a-power", nt], {"registry": nt, "units": {k: str(v) for k, v in c.items()}}, "merged", [a, b])
                            break
        acc.outcome("preserve")
    acc.sample({"helper": "to_reduced_units", "registry": nt, "units": {k: str(v) for k, v in cs[block * 13 % len(cs)].items()}, "magnitudes": [str(m) for m in mags]})


def run_arrays(acc):
    """ndarray magnitudes: a returning helper leaves the object it is called on bit-identical — also when it is called
    again on the same object, and under a non-default system —, repeats its answer, preserves the value elementwise, and
    its in-place twin ends in the same state"""
    import numpy as np

    ureg = regs.default("float", fresh=True)
    helpers = dict(HELPERS)
    helpers["to_unprefixed"] = (lambda q: q.to_unprefixed(), lambda q: q.ito_unprefixed())
    helpers["to_preferred"] = (lambda q: q.to_preferred([ureg.Unit("meter"), ureg.Unit("second"), ureg.Unit("kilogram"), ureg.Unit("newton")]), None)
    cs = [c for c in containers(2) if all(abs(v) <= 2 for v in c.values())]
    extra = [{"kilometer": 1}, {"millimeter": 1, "microsecond": -1}, {"kilonewton": 1, "millimeter": 1}, {"nanometer": -1}]
    for units in cs[:: max(1, len(cs) // 60)] + extra:
        uc = ureg.UnitsContainer(units)
        for values in ([2.5, -40.0, 1250.0], [1e-7, 3.0, 0.0]):
            src = np.array(values)
            for name, (fn, ifn) in helpers.items():
                for sysname in (None, "cgs") if name == "to_base_units" else (None,):
                    if sysname:
                        ureg.default_system = sysname
                    try:
                        q = ureg.Quantity(src.copy(), uc)
                        case = {"registry": "float", "units": {k: str(v) for k, v in units.items()}, "magnitude": values, "default_system": sysname}
                        acc.ev()
                        acc.nt(("array", name, tuple(units.items()), tuple(values), sysname))
                        o1 = call(lambda: fn(q))
                        if o1[0] != "ok":
                            continue  # refusals are judged on scalars (same code path)
                        o2 = call(lambda: fn(q))
                        if not np.array_equal(q._magnitude, src, equal_nan=True) or dict(q._units) != dict(uc):
                            acc.violation([name, "functional-form", "modifies-its-operand", "float-array"], case, values, show(q))
                            continue
                        r = o1[1]
                        if o2[0] != "ok" or dict(o2[1]._units) != dict(r._units) or not np.allclose(o2[1]._magnitude, r._magnitude, rtol=1e-12, atol=0, equal_nan=True):
                            acc.violation([name, "functional-form", "second-call-on-the-same-object-differs", "float-array"], case, show(r), show(o2[1]) if o2[0] == "ok" else o2[1])
                        back = call(lambda: r.to(uc)._magnitude)
                        if back[0] != "ok" or not np.allclose(back[1], src, rtol=1e-9, atol=0):
                            acc.violation([name, "preservation", "physical-value-changed", "float-array"], case, values, show(r))
                        if ifn is not None:
                            q2 = ureg.Quantity(src.copy(), uc)
                            o3 = call(lambda: ifn(q2))
                            if o3[0] != "ok" or dict(q2._units) != dict(r._units) or not np.allclose(q2._magnitude, r._magnitude, rtol=1e-12, atol=0, equal_nan=True):
                                acc.violation([name, "in-place-form", "differs-from-functional-form", "float-array"], case, show(r), show(q2))
                    finally:
                        if sysname:
                            ureg.default_system = "mks"
    acc.outcome("arrays")
    acc.sample({"clause": "ndarray magnitudes", "helpers": sorted(helpers), "units": {"millimeter": "1", "microsecond": "-1"}, "magnitude": [2.5, -40.0, 1250.0]})


def run_dimensionless(acc):
    """a quantity whose only unit is a dimensionless one — scaled (percent, ppm) or LOGARITHMIC with a dimensionless
    reference (decibel, decade, octave, neper) — reduces to the plain number it denotes: the same number .to('') gives"""
    for nt in ("float",):
        ureg = regs.default(nt, fresh=True)
        for u in ("percent", "permille", "ppm", "decibel", "decade", "octave", "neper", "dB", "degree", "radian", "count"):
            for x in (20.0, 3.0, 0.5, 0.0, -10.0):
                q = ureg.Quantity(x, u)
                want = call(lambda: q.to("") if q.dimensionless else None)
                if want[0] != "ok" or want[1] is None:
                    continue
                for name in ("to_reduced_units", "ito_reduced_units"):
                    acc.ev()
                    acc.nt(("dimensionless", u, x, name))
                    if name == "to_reduced_units":
                        o = call(lambda: q.to_reduced_units())
                    else:
                        q2 = ureg.Quantity(x, u)
                        o = call(lambda: (q2.ito_reduced_units(), q2)[1])
                    ok = o[0] == "ok" and dict(o[1]._units) == dict(want[1]._units) and abs(float(o[1].magnitude) - float(want[1].magnitude)) <= 1e-12 * max(1.0, abs(float(want[1].magnitude)))
                    if not ok:
                        acc.violation([name.replace("ito_", "to_"), "preservation", "dimensionless-quantity-not-reduced-to-the-number-it-denotes", "log" if u in ("decibel", "decade", "octave", "neper", "dB") else "scaled"], {"unit": u, "magnitude": x, "helper": name}, show(want[1]), show(o[1]) if o[0] == "ok" else o[1])
    # "dimensionless ... inputs are returned unchanged by to_compact": also when the quantity still carries unit NAMES that
    # cancel completely (percent, inch/meter, millimeter/kilometer) — there is no unit whose prefix could be changed
    ureg = regs.default("float", fresh=True)
    for u in ("percent", "ppm", "inch / meter", "millimeter / kilometer", "meter / meter", "kilometer * hertz / (meter / second)", ""):
        for x in (5000.0, 1234567.0, 0.002, -47000.0, 1e-9, 3.0):
            for name in ("to_compact", "ito_compact"):
                acc.ev()
                acc.nt(("dimensionless-compact", u, x, name))
                q = ureg.Quantity(x, u)
                if not dict(q._units) and name == "ito_compact":
                    continue
                before = (q.magnitude, dict(q._units))
                if name == "to_compact":
                    o = call(lambda: q.to_compact())
                else:
                    if not hasattr(q, "ito_compact"):
                        continue
                    o = call(lambda: (q.ito_compact(), q)[1])
                ok = o[0] == "ok" and dict(o[1]._units) == before[1] and o[1].magnitude == before[0]
                if not ok:
                    acc.violation(["to_compact", "preservation", "dimensionless-input-not-returned-unchanged", "units-that-cancel" if u else "no-units"], {"unit": u, "magnitude": x, "helper": name}, f"{x} {u}", show(o[1]) if o[0] == "ok" else o[1])
    acc.outcome("dimensionless")
    acc.sample({"clause": "dimensionless", "quantity": "20 decibel", "expected": "100 (dimensionless)"})


def run_systems(acc, sname):
    M = model()
    ureg = regs.default("Fraction", fresh=True)
    ureg.default_system = sname
    cs = containers(1) + containers(2)[::29]
    if sname in ("atomic", "Planck"):
        # their base units are 1e-35..1e-8 SI: higher powers leave the float range (inf / 0.0), a float-range matter
        cs = [c for c in containers(1) if abs(next(iter(c.values()))) == 1]
    for c in cs:
        for x in (Fraction(1), Fraction(7, 3)):
            acc.nt(("sys", sname, tuple(sorted(c.items())), str(x)))
            check_helper(acc, M, ureg, "Fraction", "to_base_units", c, x, extra={"default_system": sname})
    acc.outcome("system=" + str(sname))
    acc.sample({"helper": "to_base_units", "default_system": sname, "units": {"inch": "2"}})


# ----------------------------------------------------------------------------- to_compact


def decimal_prefix_powers(M):
    out = {}
    for p in M.prefixes.values():
        v = p.value
        if v.rational and v.coef > 0:
            c = v.coef
            k = 0
            while c >= 10 and c.denominator == 1 and c % 10 == 0:
                c /= 10
                k += 1
            while c < 1:
                c *= 10
                k -= 1
            if c == 1:
                out[k] = p.name
    out[0] = ""
    return out


def strip_prefix(M, name):
    """(prefix power of ten or None, stem canonical name)"""
    if name in M.units:
        return 0, name
    p, u = M.resolve(name)
    if not p:
        return 0, u
    pw = {v: k for k, v in decimal_prefix_powers(M).items()}
    return pw.get(p), u


def run_compact(acc, nt, tier):
    M = model()
    ureg = get_reg("float" if nt == "ufloat" else nt)
    pows = decimal_prefix_powers(M)
    cs = [{n: 1} for n in ALPHA] + [{n: 2} for n in ("meter", "second", "inch")] + [{n: -1} for n in ("second", "meter")] + [{"meter": 1, "second": -1}, {"kilogram": 1, "meter": 2, "second": -2}, {"second": -1, "meter": 1}, {"kilometer": 1}, {"millimeter": 2}, {"kilometer": 1, "hour": -1}, {"microsecond": 1}, {"newton": 1, "millimeter": -2}]
    acc.dim("to_compact containers", len(cs))
    digits = [Fraction(1), Fraction(5, 2), Fraction(999)]
    ks = range(-33, 34) if tier == "thorough" else range(-33, 34, 1)
    for c in cs:
        uc = ureg.UnitsContainer(c)
        names = list(c)
        for d in digits:
            for k in ks:
                for sign in (1, -1):
                    x = sign * d * Fraction(10) ** k
                    if nt == "ufloat":
                        from uncertainties import ufloat

                        m = ufloat(float(x), abs(float(x)) * 0.01)
                    else:
                        m = mag(x, nt)
                    q = ureg.Quantity(m, uc)
                    acc.ev()
                    acc.nt(("compact", nt, tuple(sorted(c.items())), str(d), k, sign))
                    case = {"registry": nt, "units": {kk: str(v) for kk, v in c.items()}, "magnitude": f"{sign * d}e{k}"}
                    o = call(lambda: q.to_compact())
                    if o[0] != "ok":
                        acc.violation(["to_compact", "call", "raises", nt], case, "a quantity", o[1])
                        continue
                    r = o[1]
                    want, got = pv(M, q), pv(M, r)
                    if want[0] != got[0] or not same_value(want[1], got[1]):
                        acc.violation(["to_compact", "preservation", "physical-value-changed", nt], case, str(want[1]), [str(got[1]), show(r)])
                        continue
                    # only a decimal prefix on one unit may change
                    ru = dict(r._units)
                    if len(ru) != len(c):
                        acc.violation(["to_compact", "structure", "number-of-units-changed", nt], case, sorted(c), sorted(ru))
                        continue
                    # same stems and exponents; prefixes are first stripped, then ONE decimal prefix is applied
                    prefixed = []
                    ok = True
                    in_stems = {}
                    for n, e in c.items():
                        pk, stem = strip_prefix(M, n)
                        in_stems[stem] = (pk, e)
                    for n, e in ru.items():
                        pk, stem = strip_prefix(M, n)
                        if stem not in in_stems or in_stems[stem][1] != e or pk is None:
                            ok = False
                            break
                        if pk != 0:
                            prefixed.append(stem)
                    if not ok or len(prefixed) > 1:
                        acc.violation(["to_compact", "structure", "changes-more-than-decimal-prefixes-or-prefixes-several-units", nt], case, "same stems and exponents, at most one decimal prefix", show(r))
                        continue
                    # magnitude window for a first-power leading unit
                    lead = next((n for n, e in c.items() if e > 0), names[0])
                    if c[lead] == 1 and M.root_of_units(c).units:
                        rm = r._magnitude.nominal_value if hasattr(r._magnitude, "nominal_value") else r._magnitude
                        am = abs(Fraction(rm)) if isinstance(rm, (int, Fraction)) else abs(float(rm))
                        # decade needed, in units of the un-prefixed leading unit
                        # magnitude once every prefix of the input has been stripped (that is what gets compacted)
                        total = abs(x)
                        for n_, e_ in c.items():
                            total *= Fraction(10) ** (strip_prefix(M, n_)[0] * e_)
                        need = math.floor(math.log10(float(total)) / 3) * 3 if isinstance(total, Fraction) else 0
                        # exact decade by rational arithmetic
                        need = 0
                        t = total
                        while t >= 1000:
                            t /= 1000
                            need += 3
                        while t < 1:
                            t *= 1000
                            need -= 3
                        if need in pows and -30 <= need <= 30:
                            lo, hi = 1 - 4e-16, 1000 * (1 + 4e-16)
                            if not (lo <= float(am) < hi):
                                acc.violation(["to_compact", "window", "magnitude-not-in-[1,1000)-although-a-prefix-exists", nt], dict(case, needed_power=need), "1 <= |m| < 1000", show(r))
                    acc.outcome("compact")
        # special magnitudes are returned unchanged
        for sm in ("0", "nan", "inf", "-inf"):
            if nt in ("Fraction",) and sm != "0":
                continue
            if nt == "ufloat":
                continue
            m = {"0": 0, "nan": float("nan"), "inf": float("inf"), "-inf": float("-inf")}[sm]
            if nt == "Decimal":
                m = Decimal(sm)
            q = ureg.Quantity(m, uc)
            acc.ev()
            o = call(lambda: q.to_compact())
            case = {"registry": nt, "units": {kk: str(v) for kk, v in c.items()}, "magnitude": sm}
            if o[0] != "ok":
                acc.violation(["to_compact", "special-magnitude", "raises", nt], case, "unchanged quantity", o[1])
            elif dict(o[1]._units) != dict(q._units) or repr(o[1]._magnitude) != repr(q._magnitude):
                acc.violation(["to_compact", "special-magnitude", "not-returned-unchanged", nt], case, show(q), show(o[1]))
    # dimensionless quantities are returned unchanged
    for m in (5e7, 3e-9):
        for u in ("", "percent"):
            q = ureg.Quantity(m if nt != "Fraction" else Fraction(m), u)
            o = call(lambda: q.to_compact())
            acc.ev()
            if u == "" and (o[0] != "ok" or dict(o[1]._units) != {} or o[1]._magnitude != q._magnitude):
                acc.violation(["to_compact", "dimensionless", "not-returned-unchanged", nt], {"registry": nt, "magnitude": m, "units": u}, show(q), o[1] if o[0] != "ok" else show(o[1]))
    acc.sample({"helper": "to_compact", "registry": nt, "units": {"meter": "1"}, "magnitudes": ["2.5e-9", "999e12", "-1e30"]})


# ----------------------------------------------------------------------------- to_preferred and the automatic options


def run_preferred(acc):
    M = model()
    ureg = regs.default("float", fresh=True)
    pref = [ureg.meter, ureg.kilogram, ureg.second, ureg.newton, ureg.joule, ureg.watt, ureg.ampere, ureg.kelvin]
    ureg.default_preferred_units = pref
    prefset = {next(iter(u._units)) for u in pref}
    cs = [{n: 1} for n in ("inch", "minute", "hectare", "liter", "pound", "newton")] + [{"pound": 1, "foot": 1, "second": -2}, {"inch": 2, "minute": -1}, {"kilowatt_hour": 1}, {"horsepower": 1}, {"acre": 1}, {"mile": 1, "hour": -1}, {"force_pound": 1, "meter": 1}, {"psi": 1}]
    for c in cs:
        for x in (Fraction(1), Fraction(5, 2)):
            q = ureg.Quantity(float(x), ureg.UnitsContainer(c))
            acc.ev(2)
            acc.nt(("preferred", tuple(sorted(c.items())), str(x)))
            case = {"units": {k: str(v) for k, v in c.items()}, "magnitude": str(x)}
            o = call(lambda: q.to_preferred())
            if o[0] != "ok":
                acc.violation(["to_preferred", "call", "raises", "float"], case, "a quantity", o[1])
                continue
            r = o[1]
            want, got = pv(M, q), pv(M, r)
            if want[0] != got[0] or not same_value(want[1], got[1]):
                acc.violation(["to_preferred", "preservation", "physical-value-changed", "float"], case, str(want[1]), [str(got[1]), show(r)])
            stray = [u for u in dict(r._units) if u not in prefset]
            if stray:
                acc.violation(["to_preferred", "structure", "result-uses-a-unit-outside-the-preferred-set", "float"], case, sorted(prefset), stray)
            q2 = ureg.Quantity(float(x), ureg.UnitsContainer(c))
            o2 = call(lambda: q2.ito_preferred())
            if o2[0] != "ok" or dict(q2._units) != dict(r._units) or not same_value(q2._magnitude, r._magnitude):
                acc.violation(["to_preferred", "in-place-form", "differs-from-functional-form", "float"], case, show(r), show(q2) if o2[0] == "ok" else o2[1])
            acc.outcome("preferred")
    acc.sample({"helper": "to_preferred", "units": {"pound": "1", "foot": "1", "second": "-2"}, "preferred": sorted(prefset)})


def run_auto(acc, option):
    M = model()
    plain = regs.default("Fraction")
    kw = {option: True}
    ureg = regs.default("Fraction" if option == "auto_reduce_dimensions" else "float", fresh=True, **kw)
    if option == "autoconvert_to_preferred":
        ureg.default_preferred_units = [ureg.meter, ureg.kilogram, ureg.second, ureg.newton, ureg.ampere, ureg.kelvin, ureg.joule]
    names = ALPHA if option == "auto_reduce_dimensions" else ALPHA[:6]
    for a, b in itertools.product(names, repeat=2):
        for op in ("*", "/"):
            x, y = (Fraction(6), Fraction(5, 2)) if option == "auto_reduce_dimensions" else (6.0, 2.5)
            qa, qb = ureg.Quantity(x, a), ureg.Quantity(y, b)
            acc.ev()
            acc.nt((option, a, op, b))
            o = call(lambda: qa * qb if op == "*" else qa / qb)
            case = {"option": option, "a": [str(x), a], "op": op, "b": [str(y), b]}
            if o[0] != "ok":
                acc.violation([option, "arithmetic", "raises", ""], case, "a quantity", o[1])
                continue
            r = o[1]
            ra, rb = M.root(a), M.root(b)
            wd = M.dim_of_units({a: 1, b: 1 if op == "*" else -1}) if a != b else M.dim_of_units({a: 2 if op == "*" else 0})
            wv = Fraction(x) * ra.coef * (Fraction(y) * rb.coef if op == "*" else 1 / (Fraction(y) * rb.coef))
            got = pv(M, r)
            if dict(got[0]) != {k: v for k, v in wd.items() if v != 0} or not same_value(wv if isinstance(got[1], Fraction) else float(wv), got[1]):
                acc.violation([option, "arithmetic", "result-is-not-the-physical-product", ""], case, [str(wv), {k: str(v) for k, v in wd.items()}], [str(got[1]), show(r)])
            if option == "auto_reduce_dimensions":
                us = list(dict(r._units))
                for u1, u2 in itertools.combinations(us, 2):
                    if proportional(M.dim(u1), M.dim(u2)):
                        acc.violation([option, "structure", "leaves-two-units-of-the-same-dimension-up-to-a-power", ""], case, "merged", [u1, u2])
            if dict(qa._units) != {a: 1} or dict(qb._units) != {b: 1}:
                acc.violation([option, "arithmetic", "modifies-its-operand", ""], case, "operands unchanged", [show(qa), show(qb)])
            acc.outcome(option)
    acc.sample({"option": option, "a": ["6", "inch"], "op": "/", "b": ["5/2", "decimeter"]})


# ----------------------------------------------------------------------------- dispatch


def shards(tier, seed):
    out = []
    for nt in ("Fraction", "float", "Decimal"):
        for b in range(4):
            out.append(("preserve", nt, b, 4))
    for s_ in (None, "SI", "mks", "cgs", "imperial", "US", "atomic", "Planck"):
        out.append(("systems", s_))
    for nt in ("Fraction", "float", "Decimal", "ufloat"):
        out.append(("compact", nt))
    out += [("preferred",), ("auto", "auto_reduce_dimensions"), ("auto", "autoconvert_to_preferred"), ("arrays",), ("dimensionless",)]
    return out


def run_shard(acc, shard, tier, seed):
    k = shard[0]
    if k == "preserve":
        run_preserve(acc, shard[1], shard[2], shard[3], tier)
    elif k == "systems":
        run_systems(acc, shard[1])
    elif k == "compact":
        run_compact(acc, shard[1], tier)
    elif k == "preferred":
        run_preferred(acc)
    elif k == "arrays":
        run_arrays(acc)
    elif k == "dimensionless":
        run_dimensionless(acc)
    elif k == "auto":
        run_auto(acc, shard[1])
    else:
        raise core.HarnessError(str(shard))


def replay(rec):
    site, case = rec["site"], rec["case"]
    acc = core.Acc(PROPERTY)
    nt = case.get("registry", site[-1] if site[-1] in NIT else "float")
    tier = rec.get("tier", "quick")
    if site[-1] == "float-array":
        run_arrays(acc)
    elif site[2] in ("dimensionless-quantity-not-reduced-to-the-number-it-denotes", "dimensionless-input-not-returned-unchanged"):
        run_dimensionless(acc)
    elif site[0] == "to_compact":
        run_compact(acc, nt if nt in ("Fraction", "float", "Decimal", "ufloat") else "float", tier)
    elif site[0] == "to_preferred":
        run_preferred(acc)
    elif site[0] in ("auto_reduce_dimensions", "autoconvert_to_preferred"):
        run_auto(acc, site[0])
    elif "default_system" in case:
        run_systems(acc, case["default_system"])
    else:
        for b in range(4):
            run_preserve(acc, nt, b, 4, tier)
    sites = {tuple(v["site"]) for v in acc.violations}
    return tuple(site) in sites, {"sites_seen": sorted(sites)[:20]}


MANIFEST = {
    "category": "exploration",
    "technique": "bounded exhaustive enumeration of (helper, unit container, magnitude, registry type) against exact physical values from R1, with structural clauses per helper and a complete decade sweep for to_compact",
    "text": "Every container with 1-2 (thorough 1-3) factors over a 12-unit alphabet containing the ambiguous names (minute/min, millisecond/ms, hectare, decimeter, inch, percent, radian, kilogram) x exponents "
    "-3..3 x 3 magnitudes goes through to_root_units, to_base_units and to_reduced_units and their in-place twins in Fraction (exact), float and Decimal registries; to_base_units under all 8 default systems; "
    "to_compact on 30 containers x {1, 2.5, 999} x 10^k for every k in -33..33 x both signs x {int/Fraction, float, Decimal, ufloat} plus 0/NaN/inf/dimensionless; to_preferred on 28 quantities; the "
    "auto_reduce_dimensions and autoconvert_to_preferred options on all ordered pairs under * and /. Each result must have the input's dimension vector and exact physical value (R1), in-place == functional, "
    "operands untouched; reduced results contain no two mergeable units; to_compact changes only a decimal prefix on one unit and lands in [1,1000) whenever such a prefix exists.",
    "note": "Trusted: R1 factors; the prefix-decade table derived from the definition text. to_preferred's choice of unit is not asserted. Containers with more than 3 factors and non-rational units are outside.",
    "ref": "DESIGN.md §4 C15",
}
MANIFEST["text"] += " Dimensionless reduction: scaled (percent, ppm, ...) and logarithmic (decibel, decade, octave, neper) single-unit quantities reduce, returning and in place, to the number .to('') gives."
MANIFEST["text"] += ' to_compact / ito_compact return dimensionless inputs unchanged also when they carry unit names that cancel (percent, inch/meter, mm/km): 7 expressions x 6 magnitudes.'
