"""C17 — wraps/check decorators hand over correct magnitudes and enforce dimensions.

E1 over programs (function signatures x unit specifications) and inputs (call forms x argument
values): every signature with 1-3 (thorough 1-4) positional-or-keyword parameters and every
trailing-default pattern; per parameter every spec of {None, 'meter', Unit(second), '=A', '=B',
'=A*B', '=A**2'} (dangling references excluded); every split of the arguments into positional /
keyword / omitted-default; per argument a compatible, a re-expressed, an incompatible and a bare
value; strict on/off; return specs.  Oracle R7: a small binding-and-conversion model."""
from __future__ import annotations

import itertools
from fractions import Fraction

from mc import core, regs

PROPERTY = "C17"
LEVEL = "exploration"
RULE = (
    "wraps: all spec tuples over a 7-spec alphabet for 1-3 parameters (thorough: 4 with a 5-spec alphabet) without dangling references x all trailing-default patterns x all positional/keyword/omitted call forms x "
    "all argument-value tuples over {2 m, 300 cm, 5 s, bare 7} (1-2 parameters: plus the dimensionless spec '' / ureg.dimensionless and the scaled dimensionless value 50 %) x strict {True, False}; return specs {None, 'meter', '=A', ('meter', None), ['=A', 'second']} on every 2-parameter spec tuple; declared-count "
    "mismatches; ndarray (float / int) and scalar arguments with an ndarray default, the SAME objects used for five calls in a row (hand-over each time, arguments and defaults unchanged); check: all dimension-spec tuples over {None, '[length]', '[time]', '[length]/[time]', 'meter'} for 1-3 parameters x the same call forms and values. non-trivial = distinct (specs, defaults, call form, values, strict)"
)
ASSUMPTIONS = [
    "R7: binding like inspect.Signature.bind + apply_defaults; None passes the argument through untouched; a unit spec converts a Quantity (DimensionalityError if incompatible), refuses a bare number when strict "
    "(ValueError) and passes it through otherwise; '=X' first occurrence hands over the magnitude and names its units; later references are converted to the derived units (a bare number counts as dimensionless)",
    "Fraction registry: every expected magnitude is exact",
]
SITE_GRAMMAR = "[decorator, clause, failure-kind, detail]"

SPECS = [None, "meter", "U:second", "=A", "=B", "=A*B", "=A**2"]
VALUES = ["2 meter", "300 centimeter", "5 second", "7"]
# 1-2 parameters: additionally the dimensionless spec and a SCALED dimensionless value (50 % is the number 0.5)
SPECS_SMALL = SPECS + ["", "U:", "S:dimensionless", "S:km"]
VALUES_SMALL = VALUES + ["50 percent", "0 meter", "0 second", "0"]
UNITDIM = {"meter": "L", "centimeter": "L", "second": "T", "percent": None, "kilometer": "L"}
FAC = {"meter": Fraction(1), "centimeter": Fraction(1, 100), "second": Fraction(1), "percent": Fraction(1, 100), "kilometer": Fraction(1000)}


def call(fn):
    try:
        return ("ok", fn())
    except Exception as e:  # noqa
        return ("exc", type(e).__name__)


def parse_value(ureg, v):
    if v in ("7", "0"):
        return int(v)
    m, u = v.split()
    return ureg.Quantity(int(m), u)


def val_units(v):
    """{unit: exp} of a value literal ({} for bare)"""
    if v in ("7", "0"):
        return {}
    return {v.split()[1]: 1}


def val_mag(v):
    return int(v) if v in ("7", "0") else int(v.split()[0])


def dims(units):
    d = {}
    for u, e in units.items():
        k = UNITDIM[u]
        if k is None:
            continue
        d[k] = d.get(k, 0) + e
    return {k: e for k, e in d.items() if e}


def factor(units):
    f = Fraction(1)
    for u, e in units.items():
        f *= FAC[u] ** e
    return f


def spec_names(spec):
    """names referenced by a '=...' spec with exponents"""
    body = spec[1:]
    out = {}
    for part in body.split("*"):
        part = part.strip()
        if not part:
            continue
    if body == "A*B":
        return {"A": 1, "B": 1}
    if body == "A**2":
        return {"A": 2}
    return {body: 1}


def classify(specs):
    """-> list of ('none'|'unit'|'def'|'dep', payload) ; None if a reference dangles"""
    out, defined = [], set()
    for s in specs:
        if s is None:
            out.append(("none", None))
        elif s.startswith("="):
            names = spec_names(s)
            if len(names) == 1 and list(names.values()) == [1] and list(names)[0] not in defined:
                defined.add(list(names)[0])
                out.append(("def", list(names)[0]))
            else:
                out.append(("dep", names))
        else:
            out.append(("unit", {"S:dimensionless": "", "S:km": "kilometer"}.get(s, s.replace("U:", ""))))
    for k, p in out:
        if k == "dep" and not set(p) <= defined:
            return None
    return out


def model_wraps(specs, bound, strict):
    """bound: list of value literals in parameter order. -> ('ok', [received...], named units) | ('exc', cls)
    received entries: ('same', literal) for pass-through, or ('mag', Fraction)"""
    cl = classify(specs)
    named = {}
    recv = [None] * len(bound)
    # definitions first (pint's first pass)
    for i, (k, p) in enumerate(cl):
        if k == "def":
            named[p] = val_units(bound[i])
            recv[i] = ("mag", Fraction(val_mag(bound[i])))
    for i, (k, p) in enumerate(cl):
        if k == "dep":
            target = {}
            for n, e in p.items():
                for u, ue in named[n].items():
                    target[u] = target.get(u, 0) + ue * e
            target = {u: e for u, e in target.items() if e}
            vu = val_units(bound[i])
            if dims(vu) != dims(target):
                return ("exc", "DimensionalityError")
            recv[i] = ("mag", Fraction(val_mag(bound[i])) * factor(vu) / factor(target))
    for i, (k, p) in enumerate(cl):
        if k == "unit":
            if bound[i] in ("7", "0"):
                if strict:
                    return ("exc", "ValueError")
                recv[i] = ("same", bound[i])
            else:
                vu = val_units(bound[i])
                tu = {p: 1} if p else {}
                if dims(vu) != dims(tu):
                    return ("exc", "DimensionalityError")
                recv[i] = ("mag", Fraction(val_mag(bound[i])) * factor(vu) / factor(tu))
        elif k == "none":
            recv[i] = ("same", bound[i])
    return ("ok", recv, named)


def make_func(n, ndefaults, record):
    names = ["p%d" % i for i in range(n)]
    parts = []
    for i, nm in enumerate(names):
        if i >= n - ndefaults:
            parts.append(f"{nm}=DEF[{i}]")
        else:
            parts.append(nm)
    src = f"def f({', '.join(parts)}):\n    record.append(({', '.join(names)}{',' if n == 1 else ''}))\n    return RET[0]\n"
    ns = {"record": record, "DEF": DEFAULTS, "RET": RETBOX}
    exec(src, ns)
    return ns["f"]


DEFAULTS = {}
RETBOX = [42]


def call_forms(n, ndefaults):
    """(npositional, keyword index set, omitted index set)"""
    out = []
    for npos in range(n + 1):
        rest = list(range(npos, n))
        defaultable = [i for i in rest if i >= n - ndefaults]
        for r in range(len(defaultable) + 1):
            for omitted in itertools.combinations(defaultable, r):
                kw = [i for i in rest if i not in omitted]
                out.append((npos, tuple(kw), tuple(omitted)))
    return out


def same_received(ureg, got, exp):
    kind, payload = exp
    if kind == "same":
        if payload in ("7", "0"):
            return got == int(payload) and not hasattr(got, "_units")
        q = parse_value(ureg, payload)
        return hasattr(got, "_units") and dict(got._units) == dict(q._units) and got.magnitude == q.magnitude
    return (not hasattr(got, "_units")) and Fraction(got) == payload


def run_wraps(acc, n, block, nblocks, tier):
    ureg = regs.default("Fraction")
    alphabet = SPECS_SMALL if n <= 2 else (SPECS if n <= 3 else [None, "meter", "=A", "=A**2", "=B"])
    spec_tuples = [t for t in itertools.product(alphabet, repeat=n) if classify(t) is not None]
    acc.dim(f"spec tuples n={n}", len(spec_tuples))
    default_value = "300 centimeter"
    for si, specs in enumerate(spec_tuples):
        if si % nblocks != block:
            continue
        real_specs = tuple((ureg.Unit(s[2:]) if s[2:] else ureg.dimensionless) if isinstance(s, str) and s.startswith("U:") else (s[2:] if isinstance(s, str) and s.startswith("S:") else s) for s in specs)
        for ndef in range(n + 1):
            record = []
            for i in range(n):
                DEFAULTS[i] = parse_value(ureg, default_value)
            f = make_func(n, ndef, record)
            for strict in (True, False):
                o = call(lambda: ureg.wraps(None, real_specs, strict=strict)(f))
                if o[0] != "ok":
                    acc.violation(["wraps", "decoration", "raises-on-valid-specs", o[1]], {"specs": list(specs), "n": n, "defaults": ndef, "strict": strict}, "a wrapper", o[1])
                    continue
                w = o[1]
                forms = call_forms(n, ndef)
                for npos, kwi, omitted in forms:
                    free = [i for i in range(n) if i not in omitted]
                    vals_alpha = VALUES_SMALL if n <= 2 else VALUES
                    for combo in itertools.product(vals_alpha, repeat=len(free)):
                        bound = [default_value] * n
                        for i, v in zip(free, combo):
                            bound[i] = v
                        args = [parse_value(ureg, bound[i]) for i in range(npos)]
                        kwargs = {"p%d" % i: parse_value(ureg, bound[i]) for i in kwi}
                        del record[:]
                        acc.ev()
                        acc.nt((specs, ndef, npos, kwi, omitted, combo, strict))
                        exp = model_wraps(specs, bound, strict)
                        got = call(lambda: w(*args, **kwargs))
                        case = {"specs": [str(s) for s in specs], "defaults_on_last": ndef, "positional": npos, "keyword": list(kwi), "omitted": list(omitted), "values": bound, "strict": strict}
                        if exp[0] == "exc":
                            if got[0] != "exc" or got[1] != exp[1]:
                                acc.violation(["wraps", "errors", "expected-" + exp[1], "strict" if strict else "non-strict"], case, exp[1], repr(got)[:120])
                            acc.outcome("raises")
                            continue
                        if got[0] != "ok":
                            acc.violation(["wraps", "call", "raises-on-valid-arguments", got[1]], case, "call goes through", got[1])
                            continue
                        if got[1] != 42:
                            acc.violation(["wraps", "return", "raw-return-value-altered", ""], case, 42, repr(got[1]))
                        if len(record) != 1:
                            acc.violation(["wraps", "call", "function-not-called-exactly-once", ""], case, 1, len(record))
                            continue
                        received = record[0]
                        bad = [i for i in range(n) if not same_received(ureg, received[i], exp[1][i])]
                        if bad:
                            kinds = classify(specs)
                            acc.violation(["wraps", "hand-over", "argument-received-differs-from-declared-conversion", kinds[bad[0]][0]], dict(case, parameter=bad[0]), [str(e) for e in exp[1]], [repr(r) for r in received])
                        acc.outcome("called")
    acc.sample({"decorator": "wraps", "specs": ["=A", "=A**2", "meter"], "values": ["300 centimeter", "2 meter", "7"], "call": "f(p0, p2=..., p1=...)", "strict": False})


def run_wraps_arrays(acc):
    """ndarray arguments, and the SAME argument and default objects used for several calls in a row: every call hands
    over the declared conversion, and no call changes the caller's quantities, their arrays, or the defaults"""
    import numpy as np

    ureg = regs.default("float")
    Q = ureg.Quantity
    # (spec for p0, spec for p1, unit of the p0 argument, unit of the p1 argument / default, expected factor p0, expected factor p1 as a function of nothing)
    cases = [
        ("meter", "second", "kilometer", "millisecond", 1000.0, 1e-3), ("centimeter", None, "meter", "second", 100.0, None), ("=A", "=A", "kilometer", "meter", 1.0, 1e-3),
        ("=A", "=A**2", "meter", "centimeter**2", 1.0, 1e-4), ("meter", "=B", "inch", "second", 0.0254, 1.0), ("", "meter", "percent", "kilometer", 0.01, 1000.0), (None, "meter", "kilometer", "centimeter", None, 0.01),
    ]
    for dtype_name, mkarr in (("float-array", lambda v: np.array(v, dtype=float)), ("int-array", lambda v: np.array(v, dtype=int)), ("float-scalar", lambda v: float(v[0]))):
        for s0, s1, u0, u1, f0, f1 in cases:
            for strict in (True, False):
                record = []
                default = Q(mkarr([3, 4]), u1)
                ns = {"record": record, "D": default}
                exec("def f(p0, p1=D):\n    record.append((p0, p1))\n    return None\n", ns)
                o = call(lambda: ureg.wraps(None, (s0, s1), strict=strict)(ns["f"]))
                if o[0] != "ok":
                    acc.violation(["wraps", "decoration", "raises-on-valid-specs", o[1]], {"specs": [s0, s1]}, "a wrapper", o[1])
                    continue
                w = o[1]
                a0, a1 = Q(mkarr([1, 2]), u0), Q(mkarr([5, 6]), u1)

                def snap(q):
                    return (np.asarray(q.magnitude).tobytes(), str(np.asarray(q.magnitude).dtype), dict(q._units))

                s_a0, s_a1, s_d = snap(a0), snap(a1), snap(default)
                for callno, form in enumerate(("both", "both", "default", "default", "both")):
                    del record[:]
                    acc.ev()
                    acc.nt(("wraps-array", dtype_name, s0, s1, strict, callno))
                    case = {"specs": [str(s0), str(s1)], "argument_units": [u0, u1], "magnitudes": dtype_name, "strict": strict, "call_number": callno + 1, "form": form}
                    o = call(lambda: w(a0, a1) if form == "both" else w(a0))
                    if o[0] != "ok" or len(record) != 1:
                        acc.violation(["wraps", "call", "raises-on-valid-arguments", o[1] if o[0] != "ok" else "not-called"], case, "call goes through", repr(o)[:100])
                        break
                    got0, got1 = record[0]
                    src1 = a1 if form == "both" else default
                    for idx, (got, src, spec, fac) in enumerate(((got0, a0, s0, f0), (got1, src1, s1, f1))):
                        base = np.asarray([1, 2] if idx == 0 else ([5, 6] if form == "both" else [3, 4]), dtype=float)
                        if dtype_name == "float-scalar":
                            base = base[:1]
                        if spec is None:
                            ok = hasattr(got, "_units") and dict(got._units) == dict(src._units) and np.allclose(np.atleast_1d(np.asarray(got.magnitude, dtype=float)), base)
                        else:
                            ok = not hasattr(got, "_units") and np.allclose(np.atleast_1d(np.asarray(got, dtype=float)), base * fac, rtol=1e-12)
                        if not ok:
                            acc.violation(["wraps", "hand-over", "argument-received-differs-from-declared-conversion", "repeated-call" if callno else "first-call"], dict(case, parameter=idx), (base * fac).tolist() if fac is not None else "the quantity itself", repr(got)[:80])
                    if snap(a0) != s_a0 or snap(a1) != s_a1 or snap(default) != s_d:
                        acc.violation(["wraps", "hand-over", "callers-argument-or-default-modified", dtype_name], case, "arguments and defaults unchanged", {"p0": snap(a0) != s_a0, "p1": snap(a1) != s_a1, "default": snap(default) != s_d})
                        break
    acc.outcome("wraps-arrays")
    acc.sample({"decorator": "wraps", "clause": "repeated calls with the same ndarray arguments and an ndarray default", "specs": ["meter", "second"], "arguments": ["[1, 2] km", "[5, 6] ms"]})


RET_SPECS = [None, "meter", "=A", ("meter", None), ["=A", "second"]]


def run_returns(acc):
    ureg = regs.default("Fraction")
    spec_tuples = [t for t in itertools.product(SPECS, repeat=2) if classify(t) is not None]
    for specs in spec_tuples:
        real_specs = tuple((ureg.Unit(s[2:]) if s[2:] else ureg.dimensionless) if isinstance(s, str) and s.startswith("U:") else (s[2:] if isinstance(s, str) and s.startswith("S:") else s) for s in specs)
        hasA = any(k == "def" and p == "A" for k, p in classify(specs))
        for ret in RET_SPECS:
            uses_ref = (ret == "=A") or (isinstance(ret, (list, tuple)) and "=A" in ret)
            if uses_ref and not hasA:
                continue
            record = []
            f = make_func(2, 0, record)
            # ONE decorator object decorating two functions, each called for every value pair in turn: what the decorator
            # or a wrapper prepared at decoration time has to serve every later call, not only the first
            dec = call(lambda: ureg.wraps(ret, real_specs, strict=False))
            ws = [call(lambda: dec[1](f)), call(lambda: dec[1](make_func(2, 0, record)))] if dec[0] == "ok" else []
            for ci, combo in enumerate(itertools.product(VALUES, repeat=2)):
                exp = model_wraps(specs, list(combo), False)
                if exp[0] != "ok":
                    continue
                RETBOX[0] = (11, 13) if isinstance(ret, (list, tuple)) else 42
                acc.ev()
                acc.nt(("ret", specs, str(ret), combo))
                w = ws[ci % 2] if ws and ws[ci % 2][0] == "ok" else None
                o = call(lambda: (w[1] if w else ureg.wraps(ret, real_specs, strict=False)(f))(*[parse_value(ureg, v) for v in combo]))
                RETBOX[0] = 42
                case = {"specs": [str(s) for s in specs], "ret": str(ret), "values": list(combo)}
                if o[0] != "ok":
                    acc.violation(["wraps", "return", "raises", o[1]], case, "a wrapped return value", o[1])
                    continue
                named = exp[2]

                def want_one(r, raw):
                    if r is None:
                        return ("raw", raw)
                    if r == "=A":
                        return ("q", raw, named["A"])
                    return ("q", raw, {r: 1})

                def ok_one(got, w):
                    if w[0] == "raw":
                        return got == w[1] and not hasattr(got, "_units")
                    return hasattr(got, "_units") and got.magnitude == w[1] and {k: int(v) for k, v in dict(got._units).items()} == w[2]

                if isinstance(ret, (list, tuple)):
                    good = isinstance(o[1], type(ret)) and len(o[1]) == 2 and all(ok_one(g, want_one(r, raw)) for g, r, raw in zip(o[1], ret, (11, 13)))
                else:
                    good = ok_one(o[1], want_one(ret, 42))
                if not good:
                    acc.violation(["wraps", "return", "not-rewrapped-in-the-declared-or-derived-units", "container" if isinstance(ret, (list, tuple)) else "scalar"], case, str(ret), repr(o[1])[:160])
    # declared-count mismatch is rejected at decoration time
    for n, nspecs in ((1, 2), (2, 1), (2, 3), (3, 2)):
        acc.ev()
        f = make_func(n, 0, [])
        o = call(lambda: ureg.wraps(None, ("meter",) * nspecs)(f))
        if o != ("exc", "TypeError"):
            acc.violation(["wraps", "decoration", "parameter-count-mismatch-not-rejected", ""], {"parameters": n, "specs": nspecs}, "TypeError", repr(o)[:100])
        o = call(lambda: ureg.check(*(("[length]",) * nspecs))(f))
        if o != ("exc", "TypeError"):
            acc.violation(["check", "decoration", "parameter-count-mismatch-not-rejected", ""], {"parameters": n, "specs": nspecs}, "TypeError", repr(o)[:100])
    acc.outcome("returns")
    acc.sample({"decorator": "wraps", "ret": "['=A', 'second']", "specs": ["=A", "meter"], "values": ["5 second", "300 centimeter"]})


CHECK_SPECS = [None, "[length]", "[time]", "[length]/[time]", "meter"]
CHECK_DIM = {"[length]": {"L": 1}, "[time]": {"T": 1}, "[length]/[time]": {"L": 1, "T": -1}, "meter": {"L": 1}}
CHECK_VALUES = ["2 meter", "300 centimeter", "5 second", "7", "3 meter/second", "0 meter", "0 second", "0"]


def run_check(acc, n):
    ureg = regs.default("Fraction")

    def pv(v):
        if v == "3 meter/second":
            return ureg.Quantity(3, "meter/second")
        return parse_value(ureg, v)

    def vd(v):
        if v == "3 meter/second":
            return {"L": 1, "T": -1}
        return dims(val_units(v))

    default_value = "2 meter"
    for specs in itertools.product(CHECK_SPECS, repeat=n):
        for ndef in range(n + 1):
            record = []
            for i in range(n):
                DEFAULTS[i] = pv(default_value)
            f = make_func(n, ndef, record)
            o = call(lambda: ureg.check(*specs)(f))
            if o[0] != "ok":
                acc.violation(["check", "decoration", "raises-on-valid-specs", o[1]], {"specs": list(specs)}, "a wrapper", o[1])
                continue
            w = o[1]
            for npos, kwi, omitted in call_forms(n, ndef):
                free = [i for i in range(n) if i not in omitted]
                alpha = CHECK_VALUES if n <= 2 else CHECK_VALUES[1:5]
                for combo in itertools.product(alpha, repeat=len(free)):
                    bound = [default_value] * n
                    for i, v in zip(free, combo):
                        bound[i] = v
                    args = [pv(bound[i]) for i in range(npos)]
                    kwargs = {"p%d" % i: pv(bound[i]) for i in kwi}
                    del record[:]
                    acc.ev()
                    acc.nt(("check", specs, ndef, npos, kwi, omitted, combo))
                    bad = [i for i in range(n) if specs[i] is not None and vd(bound[i]) != CHECK_DIM[specs[i]]]
                    got = call(lambda: w(*args, **kwargs))
                    case = {"specs": list(specs), "defaults_on_last": ndef, "positional": npos, "keyword": list(kwi), "omitted": list(omitted), "values": bound}
                    if bad:
                        if got != ("exc", "DimensionalityError"):
                            acc.violation(["check", "errors", "wrong-dimension-not-refused-with-DimensionalityError", ""], dict(case, parameter=bad[0]), "DimensionalityError", repr(got)[:120])
                        acc.outcome("refused")
                    else:
                        if got != ("ok", 42) or len(record) != 1:
                            acc.violation(["check", "call", "correct-dimensions-refused-or-function-not-called", ""], case, 42, repr(got)[:120])
                        else:
                            rec = record[0]
                            for i in range(n):
                                exp_obj = pv(bound[i])
                                same = (rec[i] == exp_obj) and (hasattr(rec[i], "_units") == hasattr(exp_obj, "_units"))
                                if hasattr(exp_obj, "_units") and same:
                                    same = dict(rec[i]._units) == dict(exp_obj._units)
                                if not same:
                                    acc.violation(["check", "hand-over", "argument-altered", ""], dict(case, parameter=i), repr(exp_obj), repr(rec[i]))
                        acc.outcome("accepted")
    acc.sample({"decorator": "check", "specs": ["[length]", None], "values": ["5 second", "7"], "expected": "DimensionalityError"})


# derived-dimension specs: (spec, (L, M, T) exponents written by hand from the SI definitions)
DERIVED_SPECS = [
    ("[area]", (2, 0, 0)), ("[volume]", (3, 0, 0)), ("1/[volume]", (-3, 0, 0)), ("[mass]/[volume]", (-3, 1, 0)), ("[density]", (-3, 1, 0)),
    ("[velocity]", (1, 0, -1)), ("[velocity]**2", (2, 0, -2)), ("[pressure]", (-1, 1, -2)), ("[force]/[area]", (-1, 1, -2)),
    ("[energy]", (2, 1, -2)), ("[energy]/[volume]", (-1, 1, -2)), ("[length]**2", (2, 0, 0)), ("[frequency]", (0, 0, -1)), ("1/[time]", (0, 0, -1)),
    ("[acceleration]*[mass]", (1, 1, -2)), ("[power]/[area]", (0, 1, -3)), ("[length]", (1, 0, 0)),
]
DERIVED_VALUES = [
    ("2 meter**2", (2, 0, 0)), ("5 liter", (3, 0, 0)), ("5 1/liter", (-3, 0, 0)), ("3 kilogram/meter**3", (-3, 1, 0)), ("3 meter/second", (1, 0, -1)),
    ("4 meter**2/second**2", (2, 0, -2)), ("2 pascal", (-1, 1, -2)), ("6 joule", (2, 1, -2)), ("8 hertz", (0, 0, -1)), ("9 newton", (1, 1, -2)),
    ("1 watt/meter**2", (0, 1, -3)), ("2 meter", (1, 0, 0)), ("7 gram/liter", (-3, 1, 0)), ("3 bar", (-1, 1, -2)),
]


def run_check_derived(acc):
    """dimension specs naming DERIVED dimensions, alone or inside an expression with an exponent of their own: the declared
    dimensionality is the product of the base dimensions each name stands for, raised to the exponent it carries"""
    ureg = regs.default("float", fresh=True)
    vals = [(v, ureg.Quantity(v), d) for v, d in DERIVED_VALUES]
    for spec, sd in DERIVED_SPECS:
        record = []
        f = make_func(1, 0, record)
        o = call(lambda: ureg.check(spec)(f))
        if o[0] != "ok":
            acc.violation(["check", "decoration", "raises-on-valid-specs", o[1]], {"specs": [spec]}, "a wrapper", o[1])
            continue
        w = o[1]
        for v, q, vd in vals:
            acc.ev()
            acc.nt(("check-derived", spec, v))
            del record[:]
            got = call(lambda: w(q))
            meth = call(lambda: q.check(spec))
            case = {"specs": [spec], "values": [v]}
            if sd != vd:
                if got != ("exc", "DimensionalityError"):
                    acc.violation(["check", "errors", "wrong-dimension-not-refused-with-DimensionalityError", "derived"], case, "DimensionalityError", repr(got)[:120])
                if meth != ("ok", False):
                    acc.violation(["check", "method", "Quantity.check-disagrees-with-the-dimension-algebra", "derived"], case, False, repr(meth)[:120])
                acc.outcome("refused")
            else:
                if got != ("ok", 42) or len(record) != 1 or record[0][0] is not q:
                    acc.violation(["check", "call", "correct-dimensions-refused-or-function-not-called", "derived"], case, 42, repr(got)[:120])
                if meth != ("ok", True):
                    acc.violation(["check", "method", "Quantity.check-disagrees-with-the-dimension-algebra", "derived"], case, True, repr(meth)[:120])
                acc.outcome("accepted")
    # two parameters, the derived spec on either side of a base one
    for (s0, d0), (s1, d1) in itertools.product(DERIVED_SPECS[:8], repeat=2):
        record = []
        f = make_func(2, 0, record)
        o = call(lambda: ureg.check(s0, s1)(f))
        if o[0] != "ok":
            acc.violation(["check", "decoration", "raises-on-valid-specs", o[1]], {"specs": [s0, s1]}, "a wrapper", o[1])
            continue
        w = o[1]
        for (v0, q0, vd0), (v1, q1, vd1) in itertools.product(vals[:7], repeat=2):
            acc.ev()
            acc.nt(("check-derived2", s0, s1, v0, v1))
            got = call(lambda: w(q0, q1))
            want = ("ok", 42) if (d0 == vd0 and d1 == vd1) else ("exc", "DimensionalityError")
            if got != want:
                acc.violation(["check", "errors" if want[0] == "exc" else "call", "wrong-dimension-not-refused-with-DimensionalityError" if want[0] == "exc" else "correct-dimensions-refused-or-function-not-called", "derived"], {"specs": [s0, s1], "values": [v0, v1]}, want[1], repr(got)[:120])
    acc.sample({"decorator": "check", "specs": ["[mass]/[volume]"], "values": ["3 kilogram/meter**3"], "expected": "called"})


def run_after_refusals(acc):
    """'incompatible arguments raise DimensionalityError' — on every call, also after earlier calls were refused or raised:
    all sequences of <= 3 calls to decorated functions (wraps / check, bare or stacked under ureg.with_context('sp'), given a
    good argument, a wrong-dimension argument, or raising themselves) followed by the probes: a frequency-declared wraps and a
    [frequency] check handed a LENGTH must still refuse it, and a good call must still receive the converted magnitude"""
    def build():
        ureg = regs.default("float", fresh=True)
        rec = []

        def f(x):
            rec.append(x)
            return 1

        def boom(x):
            raise RuntimeError("raised inside the wrapped function")

        fs = {
            "wraps": ureg.wraps(None, "terahertz")(f),
            "check": ureg.check("[frequency]")(f),
            "ctx(wraps)": ureg.with_context("sp")(ureg.wraps(None, "terahertz")(f)),
            "ctx(check)": ureg.with_context("sp")(ureg.check("[length]")(f)),
            "ctx(raising)": ureg.with_context("sp")(ureg.wraps(None, "meter")(boom)),
            "wraps(raising)": ureg.wraps(None, "meter")(boom),
        }
        return ureg, fs, rec

    args = {"frequency": lambda u: u.Quantity(600.0, "terahertz"), "length": lambda u: u.Quantity(500.0, "nanometer"), "time": lambda u: u.Quantity(3.0, "second")}
    events = [(fn, a) for fn in ("wraps", "check", "ctx(wraps)", "ctx(check)", "ctx(raising)", "wraps(raising)") for a in args]
    ureg, fs, rec = build()
    for n in (1, 2, 3):
        for seq in itertools.product(events, repeat=n):
            if n == 3 and not any(e[0].startswith("ctx") for e in seq):
                continue
            ureg.disable_contexts()  # (one registry for all sequences: whatever the previous one left is cleared first)
            for fn, a in seq:
                call(lambda: fs[fn](args[a](ureg)))
            acc.ev()
            acc.nt(("after-refusals", seq))
            case = {"calls": [list(e) for e in seq]}
            o1 = call(lambda: fs["wraps"](args["length"](ureg)))
            o2 = call(lambda: fs["check"](args["length"](ureg)))
            del rec[:]
            o3 = call(lambda: fs["wraps"](ureg.Quantity(1.0, "petahertz")))
            o4 = len(ureg._active_ctx.contexts)
            if o1 != ("exc", "DimensionalityError") or o2 != ("exc", "DimensionalityError"):
                acc.violation(["wraps" if o1 != ("exc", "DimensionalityError") else "check", "errors", "wrong-dimension-accepted-after-earlier-decorated-calls", "after-" + seq[-1][0]], case, "DimensionalityError", repr([o1, o2])[:160])
            elif o3 != ("ok", 1) or len(rec) != 1 or abs(rec[0] - 1000.0) > 1e-9:
                acc.violation(["wraps", "hand-over", "argument-received-differs-from-declared-conversion", "after-earlier-decorated-calls"], case, 1000.0, repr((o3, rec))[:160])
            elif o4:
                acc.violation(["wraps", "call", "context-left-active-by-a-decorated-call", "after-" + seq[-1][0]], case, 0, o4)
    acc.outcome("after-refusals")
    acc.sample({"clause": "after-refusals", "calls": [["ctx(check)", "time"]], "probe": "wraps(None, 'terahertz')(f)(500 nm) must raise DimensionalityError"})


def shards(tier, seed):
    out = [("wraps", 1, 0, 1), ("wraps", 2, 0, 1)]
    out += [("wraps", 3, b, 12) for b in range(12)]
    if tier == "thorough":
        out += [("wraps", 4, b, 16) for b in range(16)]
    out += [("returns",), ("check", 1), ("check", 2), ("check", 3), ("arrays",), ("check-derived",), ("after-refusals",)]
    return out


def run_shard(acc, shard, tier, seed):
    k = shard[0]
    if k == "wraps":
        run_wraps(acc, shard[1], shard[2], shard[3], tier)
    elif k == "returns":
        run_returns(acc)
    elif k == "arrays":
        run_wraps_arrays(acc)
    elif k == "check":
        run_check(acc, shard[1])
    elif k == "check-derived":
        run_check_derived(acc)
    elif k == "after-refusals":
        run_after_refusals(acc)
    else:
        raise core.HarnessError(str(shard))


def replay(rec):
    site, case = rec["site"], rec["case"]
    acc = core.Acc(PROPERTY)
    if "calls" in case:
        run_after_refusals(acc)
    elif site[0] == "check" and site[-1] == "derived":
        run_check_derived(acc)
    elif site[0] == "check":
        for n in (1, 2, 3):
            run_check(acc, n)
        run_returns(acc)
    elif site[1] in ("return", "decoration") and "ret" in case or "parameters" in case:
        run_returns(acc)
    elif "magnitudes" in case:
        run_wraps_arrays(acc)
    else:
        n = len(case.get("specs", [1]))
        run_wraps(acc, n, 0, 1, rec.get("tier", "quick"))
    sites = {tuple(v["site"]) for v in acc.violations}
    return tuple(site) in sites, {"sites_seen": sorted(sites)[:20]}


MANIFEST = {
    "category": "exploration",
    "technique": "bounded exhaustive enumeration of (signature, unit-spec tuple, default pattern, call form, argument values, strict) against a binding-and-conversion reference model",
    "text": "For 1-3 parameters (4 in thorough) every tuple of unit specs over {None, 'meter', Unit(second), '=A', '=B', '=A*B', '=A**2'} without dangling references, every trailing-default pattern, every split of the "
    "call into positional / keyword / omitted-default arguments, every tuple of argument values over {2 m, 300 cm, 5 s, bare 7} and strict on/off is executed through ureg.wraps; the wrapped function records "
    "what it receives and the record must equal the model's hand-over (exact magnitudes in the Fraction registry, pass-through objects untouched), or the call must raise exactly DimensionalityError / ValueError. "
    "Return specs (None, unit, '=A', tuple and list forms) on all 2-parameter spec tuples; declared-count mismatch rejected at decoration. ureg.check: all dimension-spec tuples over {None, '[length]', '[time]', "
    "'[length]/[time]', 'meter'} with the same call forms and values: DimensionalityError exactly when a dimensionality differs, otherwise the function is called with untouched arguments.",
    "note": "Trusted: the 60-line binding/conversion model. Keyword-only and variadic parameters, dangling references (which pass decoration and fail at call time — outside the stated property), string "
    "arguments in strict mode and with_context (C11) are outside this check.",
    "ref": "DESIGN.md §4 C17",
}
MANIFEST["text"] += " Derived-dimension specs: 17 specs naming derived dimensions alone or in expressions with their own exponent ('[mass]/[volume]', '1/[volume]', '[velocity]**2', '[pressure]', ...) x 14 values through ureg.check and Quantity.check against hand-written (L, M, T) exponents, and 8x8 two-parameter spec pairs x 7x7 value pairs."
MANIFEST["text"] += ' Zero-magnitude quantities and bare 0 are in the value alphabets (by position and by keyword over a default).'
MANIFEST["text"] += " After refusals: all sequences of <= 3 calls to 6 decorated functions (wraps / check, bare or stacked under with_context, some raising themselves) x 3 arguments, then a frequency-declared wraps and check handed a length must still refuse it, a good call must receive the converted magnitude, and no context may be left active."
MANIFEST["text"] += ' In the return clause one decorator object decorates two functions, each called for every value pair in turn.'
