"""C04 — units form a commutative group under * / ** with a canonical representation.

Bounded exhaustive enumeration (E1): every container over a 3-name alphabet with a small
exponent range, all pairs / triples / exponent pairs, at the UnitsContainer, ParserHelper, Unit,
Quantity-unit and dimensionality layers, for int / float / Fraction / Decimal exponents;
every small integer dimension matrix through both pi_theorem entry points.
Oracle: exponent-vector arithmetic on plain dicts (exact Fractions)."""
from __future__ import annotations

import copy
import itertools
from decimal import Decimal
from fractions import Fraction

from mc import core, regs

PROPERTY = "C04"
LEVEL = "exploration"
RULE = (
    "all containers over names {a,b,c} x exponents (quick {-2..2}, + halves in thorough): every ordered pair for * and /, "
    "every triple of the sub-alphabet for associativity, every (u,a,b) for power laws, at 5 layers x 4 numeric exponent types; "
    "all integer dimension matrices within the stated shape/entry bounds for pi_theorem. non-trivial = the case's canonical key "
    "(layer, numeric type, operands, operator) is new AND at least one operand is non-empty"
)
ASSUMPTIONS = [
    "reference = dict-of-Fraction exponent arithmetic written in the harness",
    "float exponents restricted to dyadic rationals so float arithmetic is exact",
    "PYTHONHASHSEED=0",
]
SITE_GRAMMAR = "[layer, operator-or-method, clause(, numeric type)]"

NAMES = ("a", "b", "c")
UNAMES = ("meter", "second", "gram")
NTYPES = ("int", "float", "Fraction", "Decimal")


def conv(x, nt):
    """exponent value of the requested numeric type (x is int or Fraction with dyadic value)"""
    if nt == "int" or (isinstance(x, int)):
        if nt == "int" and not isinstance(x, int):
            return None
        return int(x)
    if nt == "float":
        return float(x)
    if nt == "Fraction":
        return Fraction(x)
    if nt == "Decimal":
        return Decimal(x.numerator) / Decimal(x.denominator)


def nit(nt):
    return {"int": float, "float": float, "Fraction": Fraction, "Decimal": Decimal}[nt]


def vectors(exps, names=NAMES):
    for combo in itertools.product(exps, repeat=len(names)):
        yield {n: e for n, e in zip(names, combo) if e != 0}


def m_mul(u, v):
    out = dict(u)
    for k, e in v.items():
        out[k] = out.get(k, 0) + e
    return {k: e for k, e in out.items() if e != 0}


def m_pow(u, p):
    return {k: e * p for k, e in u.items() if e * p != 0}


def m_div(u, v):
    return m_mul(u, m_pow(v, -1))


def as_model(container):
    """read a real container back as {name: Fraction}; zero entries are KEPT so they can be seen"""
    out = {}
    for k, v in dict(container).items():
        out[k] = Fraction(v) if not isinstance(v, float) else Fraction(v)
    return out


def fr(model):
    return {k: Fraction(v) for k, v in model.items()}


def key_of(model):
    return tuple(sorted((k, str(Fraction(v))) for k, v in model.items()))


# ----------------------------------------------------------------------------- shards


def shards(tier, seed):
    out = []
    ex_q = [-2, -1, 0, 1, 2]
    ex_half = [Fraction(-3, 2), -1, Fraction(-1, 2), 0, Fraction(1, 2), 1, 2]
    for nt in NTYPES:
        out.append(("uc_pairs", nt, "int5"))
        out.append(("uc_pow", nt, "int5"))
        out.append(("uc_methods", nt, "int5"))
        out.append(("uc_assoc", nt, "q"))
        if nt != "int":
            out.append(("uc_pairs", nt, "half"))
        out.append(("ph", nt))
    for nt in ("float", "Fraction", "Decimal"):
        out.append(("unit_pairs", nt))
        out.append(("unit_pow", nt))
        out.append(("dim", nt))
    for shape in pi_shapes(tier):
        out.append(("pi",) + shape)
    if tier == "thorough":
        for nt in NTYPES:
            for part in range(4):
                out.append(("uc_assoc", nt, "t", part))
    return out


def pi_shapes(tier):
    # (n_quantities, n_dimensions, entry alphabet tag, part, nparts)
    sh = [(1, 1, "w", 0, 1), (2, 1, "w", 0, 1), (2, 2, "w", 0, 1), (3, 1, "w", 0, 1), (3, 2, "w", 0, 1), (4, 2, "n", 0, 1), (3, 3, "n", 0, 1)]
    sh += [(3, 2, "x", p, 8) for p in range(8)]
    if tier == "thorough":
        sh += [(4, 2, "w", p, 4) for p in range(4)] + [(3, 3, "w", p, 8) for p in range(8)] + [(4, 3, "n", p, 16) for p in range(16)]
    return sh


EXPS = {
    "int5": [-2, -1, 0, 1, 2],
    "half": [Fraction(-3, 2), -1, 0, Fraction(1, 2), 2],
}


def mk_uc(model, nt):
    from pint.util import UnitsContainer

    d = {k: conv(v, nt) for k, v in model.items()}
    if nt in ("int", "float"):
        return UnitsContainer(d)
    return UnitsContainer(d, non_int_type=nit(nt))


def snapshot(c):
    return (tuple(sorted((k, repr(v)) for k, v in c._d.items())), c._hash)


def check_result(acc, layer, opname, nt, got, want, case):
    """got: real container; want: model dict. Checks value, canonical form, ==, hash."""
    gm = as_model(got)
    zeros = [k for k, v in gm.items() if v == 0]
    if zeros:
        acc.violation([layer, opname, "zero-exponent-entry-survives"], case, "no entry with exponent 0", {k: str(v) for k, v in gm.items()})
        gm = {k: v for k, v in gm.items() if v != 0}
    if gm != fr(want):
        acc.violation([layer, opname, "wrong-exponents", nt], case, {k: str(v) for k, v in fr(want).items()}, {k: str(v) for k, v in gm.items()})
        return
    if zeros:
        return
    fresh = mk_uc(want, nt) if layer in ("container",) else None
    if fresh is not None:
        if not (got == fresh) or (got != fresh):
            acc.violation([layer, opname, "eq-disagrees-with-exponents", nt], case, "== fresh equal container", srepr(got))
        if hash(got) != hash(fresh):
            acc.violation([layer, opname, "stale-or-wrong-hash", nt], case, hash(fresh), hash(got))


# ----------------------------------------------------------------------------- UnitsContainer layer


def run_uc_pairs(acc, nt, alpha):
    from pint.util import UnitsContainer

    models = [m for m in vectors(EXPS[alpha]) if all(conv(v, nt) is not None for v in m.values())]
    acc.dim(f"containers[{alpha}]", len(models))
    for mu in models:
        for mv in models:
            u, v = mk_uc(mu, nt), mk_uc(mv, nt)
            hash(u), hash(v)  # warm the memoised hashes: results must not inherit them
            su, sv = snapshot(u), snapshot(v)
            case = {"layer": "container", "nt": nt, "u": jm(mu), "v": jm(mv)}
            p = u * v
            q = v * u
            d = u / v
            acc.ev(3)
            if mu or mv:
                acc.nt(("pair", nt, key_of(mu), key_of(mv)))
            check_result(acc, "container", "mul", nt, p, m_mul(mu, mv), dict(case, op="u*v"))
            check_result(acc, "container", "truediv", nt, d, m_div(mu, mv), dict(case, op="u/v"))
            if not (p == q) or hash(p) != hash(q):
                acc.violation(["container", "mul", "not-commutative", nt], dict(case, op="u*v vs v*u"), srepr(q), srepr(p))
            want_eq = key_of(mu) == key_of(mv)
            if (u == v) != want_eq or (u != v) == want_eq:
                acc.violation(["container", "eq", "disagrees-with-exponents", nt], dict(case, op="u==v"), want_eq, u == v)
            if want_eq and hash(u) != hash(v):
                acc.violation(["container", "hash", "equal-but-different-hash", nt], dict(case, op="hash"), "equal hashes", [hash(u), hash(v)])
            if snapshot(u) != su or snapshot(v) != sv:
                acc.violation(["container", "mul-div", "operand-mutated", nt], case, [su, sv], [snapshot(u), snapshot(v)])
            acc.outcome("eq" if want_eq else "ne")
        # u/u, 1/u
        u = mk_uc(mu, nt)
        hash(u)
        check_result(acc, "container", "truediv", nt, u / u, {}, {"layer": "container", "nt": nt, "u": jm(mu), "op": "u/u"})
        check_result(acc, "container", "rtruediv", nt, 1 / u, m_pow(mu, -1), {"layer": "container", "nt": nt, "u": jm(mu), "op": "1/u"})
        acc.ev(2)
    acc.sample({"layer": "container", "nt": nt, "u": jm(models[7]), "v": jm(models[-3]), "ops": ["u*v", "v*u", "u/v", "u==v", "hash"]})


def srepr(x):
    """repr that never goes through pint's formatter (which has its own property, C09)"""
    u = getattr(x, "_units", x)
    try:
        d = {k: str(v) for k, v in sorted(dict(u).items())}
    except Exception:  # noqa
        return object.__repr__(x)
    sc = getattr(u, "scale", None)
    return f"{type(x).__name__}({'' if sc is None else str(sc) + ', '}{d})"


def ruc(ureg, model, nt):
    return ureg.UnitsContainer({k: (v if isinstance(v, int) else conv(Fraction(v), nt)) for k, v in model.items()})


def jm(model):
    return {k: str(v) for k, v in sorted(model.items())}


def unjm(j):
    return {k: (int(v) if "/" not in v else Fraction(v)) for k, v in j.items()}


POWS = [-2, -1, 0, Fraction(1, 2), 1, 2, 3]


def run_uc_pow(acc, nt):
    models = list(vectors(EXPS["int5"]))
    pows = [p for p in POWS if nt != "int" or isinstance(p, int)]
    acc.dim("pow exponents", [str(p) for p in pows])
    for mu in models:
        for a in pows:
            u = mk_uc(mu, nt)
            hash(u)
            su = snapshot(u)
            ca = conv(a, nt) if not isinstance(a, int) else a
            r = u**ca
            acc.ev()
            case = {"layer": "container", "nt": nt, "u": jm(mu), "a": str(a), "op": "u**a"}
            if mu:
                acc.nt(("pow", nt, key_of(mu), str(a)))
            check_result(acc, "container", "pow", nt, r, m_pow(mu, a), case)
            if snapshot(u) != su:
                acc.violation(["container", "pow", "operand-mutated", nt], case, su, snapshot(u))
            for b in pows:
                cb = conv(b, nt) if not isinstance(b, int) else b
                acc.ev()
                r2 = (u**ca) ** cb
                r3 = u ** (ca * cb)
                case2 = dict(case, b=str(b), op="(u**a)**b vs u**(a*b)")
                check_result(acc, "container", "pow", nt, r2, m_pow(mu, a * b), case2)
                check_result(acc, "container", "pow", nt, r3, m_pow(mu, a * b), case2)
            acc.outcome("pow0" if a == 0 else "pow")
    # exact rational powers that no binary float represents (1/10, 3/10, 1/3, 7/10) applied to a default container with
    # integer exponents (m**Fraction(1, 10)): the container keeps the Fraction it is given, so the power laws stay exact
    if nt == "float":
        from pint.util import UnitsContainer as _UC

        for mu in models[:: max(1, len(models) // 40)]:
            if not mu:
                continue
            for a in (Fraction(1, 10), Fraction(3, 10), Fraction(1, 3), Fraction(7, 10), Fraction(-1, 10)):
                u = _UC({k: int(v) for k, v in mu.items()})
                acc.ev(2)
                acc.nt(("pow-rational", key_of(mu), str(a)))
                case = {"layer": "container", "nt": "float", "container": "default container, integer exponents", "u": jm(mu), "a": str(a), "op": "(u**a)**3 vs u**(3a); u**a * u**a * u**a * u**(-3a)"}
                r1, r2 = (u**a) ** 3, u ** (a * 3)
                if r1 != r2 or hash(r1) != hash(r2) or dict(r1) != dict(r2):
                    acc.violation(["container", "pow", "rational-power-law-inexact", nt], case, {k: str(v) for k, v in dict(r2).items()}, {k: str(v) for k, v in dict(r1).items()})
                r3 = (u**a) * (u**a) * (u**a) * (u ** (-3 * a))
                if dict(r3) != {}:
                    acc.violation(["container", "pow", "rational-powers-do-not-cancel", nt], case, {}, {k: str(v) for k, v in dict(r3).items()})
    acc.sample({"layer": "container", "nt": nt, "u": jm(models[9]), "a": "1/2", "b": "2", "ops": ["(u**a)**b", "u**(a*b)"]})


def run_uc_methods(acc, nt):
    models = list(vectors(EXPS["int5"]))
    for mu in models:
        for name in NAMES + ("d",):
            for delta in (-2, -1, 1, 2):
                u = mk_uc(mu, nt)
                hash(u)
                su = snapshot(u)
                r = u.add(name, conv(delta, nt))
                acc.ev()
                case = {"layer": "container", "nt": nt, "u": jm(mu), "op": "add", "key": name, "value": delta}
                acc.nt(("add", nt, key_of(mu), name, delta))
                check_result(acc, "container", "add", nt, r, m_mul(mu, {name: delta}), case)
                if snapshot(u) != su:
                    acc.violation(["container", "add", "operand-mutated", nt], case, su, snapshot(u))
        for r_ in range(0, len(mu) + 1):
            for keys in itertools.combinations(sorted(mu), r_):
                u = mk_uc(mu, nt)
                hash(u)
                su = snapshot(u)
                r = u.remove(keys)
                acc.ev()
                case = {"layer": "container", "nt": nt, "u": jm(mu), "op": "remove", "keys": list(keys)}
                check_result(acc, "container", "remove", nt, r, {k: v for k, v in mu.items() if k not in keys}, case)
                if snapshot(u) != su:
                    acc.violation(["container", "remove", "operand-mutated", nt], case, su, snapshot(u))
        for old in sorted(mu):
            u = mk_uc(mu, nt)
            hash(u)
            su = snapshot(u)
            r = u.rename(old, "z")
            acc.ev()
            want = {("z" if k == old else k): v for k, v in mu.items()}
            case = {"layer": "container", "nt": nt, "u": jm(mu), "op": "rename", "old": old, "new": "z"}
            acc.nt(("rename", nt, key_of(mu), old))
            check_result(acc, "container", "rename", nt, r, want, case)
            if snapshot(u) != su:
                acc.violation(["container", "rename", "operand-mutated", nt], case, su, snapshot(u))
        # copies are independent and equal
        for cp in ("copy", "__copy__", "copy.copy", "copy.deepcopy"):
            u = mk_uc(mu, nt)
            hash(u)
            c = {"copy": u.copy, "__copy__": u.__copy__, "copy.copy": lambda: copy.copy(u), "copy.deepcopy": lambda: copy.deepcopy(u)}[cp]()
            acc.ev()
            case = {"layer": "container", "nt": nt, "u": jm(mu), "op": cp}
            check_result(acc, "container", cp, nt, c, mu, case)
            if c._d is u._d:
                acc.violation(["container", cp, "shares-storage"], case, "independent storage", "same dict object")
            # deriving from the copy must not disturb the original, nor inherit its hash
            d = c.add("a", conv(1, nt))
            check_result(acc, "container", cp + "+add", nt, d, m_mul(mu, {"a": 1}), case)
            check_result(acc, "container", cp + "+add(orig)", nt, u, mu, case)
        acc.outcome("methods")
    acc.sample({"layer": "container", "nt": nt, "u": jm(models[11]), "ops": ["add", "remove", "rename", "copy"]})


def run_uc_assoc(acc, nt, which, part=None):
    if which == "q":
        models = list(vectors([-1, 0, 1]))
    else:
        models = list(vectors([-1, 0, 1, 2]))
    acc.dim(f"assoc alphabet[{which}]", len(models))
    for i, mu in enumerate(models):
        if part is not None and i % 4 != part:
            continue
        u = mk_uc(mu, nt)
        for mv in models:
            v = mk_uc(mv, nt)
            uv = u * v
            for mw in models:
                w = mk_uc(mw, nt)
                acc.ev()
                l = uv * w
                r = u * (v * w)
                want = m_mul(m_mul(mu, mv), mw)
                if as_model(l) != fr(want) or as_model(r) != fr(want) or not (l == r) or hash(l) != hash(r):
                    acc.violation(["container", "mul", "not-associative", nt], {"layer": "container", "nt": nt, "u": jm(mu), "v": jm(mv), "w": jm(mw), "op": "(u*v)*w vs u*(v*w)"}, jm(want), [srepr(l), srepr(r)])
                l2 = (u / v) / w
                r2 = u / (v * w)
                want2 = m_div(m_div(mu, mv), mw)
                if as_model(l2) != fr(want2) or as_model(r2) != fr(want2):
                    acc.violation(["container", "truediv", "quotient-law", nt], {"layer": "container", "nt": nt, "u": jm(mu), "v": jm(mv), "w": jm(mw), "op": "(u/v)/w vs u/(v*w)"}, jm(want2), [srepr(l2), srepr(r2)])
                if mu and mv and mw:
                    acc.nt(("assoc", nt, which, key_of(mu), key_of(mv), key_of(mw)))
    acc.outcome("assoc")
    acc.sample({"layer": "container", "nt": nt, "u": jm(models[5]), "v": jm(models[9]), "w": jm(models[20]), "ops": ["(u*v)*w", "u*(v*w)"]})


# ----------------------------------------------------------------------------- ParserHelper layer


def run_ph(acc, nt):
    from pint.util import ParserHelper, UnitsContainer

    models = list(vectors([-1, 0, 1, 2]))
    scales = [1, 2, Fraction(1, 2)]
    T = nit(nt)

    def mk(scale, model):
        s = scale if isinstance(scale, int) else (conv(scale, nt) if nt != "int" else None)
        if s is None:
            return None
        return ParserHelper(s, {k: conv(v, nt) for k, v in model.items()}, non_int_type=T)

    for mu in models:
        for su_ in scales:
            u = mk(su_, mu)
            if u is None:
                continue
            for mv in models[::3]:
                for sv_ in scales:
                    v = mk(sv_, mv)
                    if v is None:
                        continue
                    acc.ev(2)
                    case = {"layer": "parserhelper", "nt": nt, "u": [str(su_), jm(mu)], "v": [str(sv_), jm(mv)]}
                    if mu or mv:
                        acc.nt(("ph", nt, str(su_), key_of(mu), str(sv_), key_of(mv)))
                    before = (srepr(u), srepr(v))
                    p, d = u * v, u / v
                    for opn, r, wm, ws in (("mul", p, m_mul(mu, mv), Fraction(su_) * Fraction(sv_)), ("truediv", d, m_div(mu, mv), Fraction(su_) / Fraction(sv_))):
                        gm = as_model(r)
                        if any(x == 0 for x in gm.values()):
                            acc.violation(["parserhelper", opn, "zero-exponent-entry-survives"], dict(case, op=opn), "no zero entry", srepr(r))
                        elif gm != fr(wm) or Fraction(r.scale) != ws:
                            acc.violation(["parserhelper", opn, "wrong-result", nt], dict(case, op=opn), [str(ws), jm(wm)], srepr(r))
                    if (srepr(u), srepr(v)) != before:
                        acc.violation(["parserhelper", "mul-div", "operand-mutated", nt], case, before, (srepr(u), srepr(v)))
                    want_eq = Fraction(su_) == Fraction(sv_) and key_of(mu) == key_of(mv)
                    if (u == v) != want_eq:
                        acc.violation(["parserhelper", "eq", "disagrees", nt], case, want_eq, u == v)
            # equality with a plain container: only scale 1
            uc = mk_uc(mu, nt)
            if (u == uc) != (Fraction(su_) == 1):
                acc.violation(["parserhelper", "eq", "vs-container", nt], {"layer": "parserhelper", "nt": nt, "u": [str(su_), jm(mu)]}, Fraction(su_) == 1, u == uc)
            if su_ == 1 and hash(u) != hash(uc):
                acc.violation(["parserhelper", "hash", "differs-from-container", nt], {"layer": "parserhelper", "nt": nt, "u": [str(su_), jm(mu)]}, hash(uc), hash(u))
            for a in (-1, 0, 2, 3):
                acc.ev()
                r = u**a
                gm = as_model(r)
                wm = m_pow(mu, a)
                case = {"layer": "parserhelper", "nt": nt, "u": [str(su_), jm(mu)], "a": a, "op": "u**a"}
                if any(x == 0 for x in gm.values()):
                    acc.violation(["parserhelper", "pow", "zero-exponent-entry-survives"], case, "no zero entry", srepr(r))
                elif gm != fr(wm) or Fraction(r.scale) != Fraction(su_) ** a:
                    acc.violation(["parserhelper", "pow", "wrong-result", nt], case, [str(Fraction(su_) ** a), jm(wm)], srepr(r))
            # identity of results: a result compares and hashes equal to a helper BUILT with the same scale and
            # exponents, whether or not the operand had been hashed (or compared) before the operation; the
            # reflected reciprocal 1 / u included. State variants: never-hashed operand, pre-hashed operand.
            for state in ("never-hashed", "pre-hashed"):
                w = mk(su_, mu)
                if state == "pre-hashed":
                    UnitsContainer.__hash__(w)
                    w == mk(su_, mu)
                results = [("u**%d" % a, w**a, m_pow(mu, a)) for a in (-1, 0, 1, 2, 3)]
                results += [("1/u", 1 / w, m_pow(mu, -1)), ("u*u", w * w, m_pow(mu, 2)), ("u/u", w / w, {}), ("u*1", w * 1, dict(mu)), ("copy", w.copy(), dict(mu))]
                for opn, r, wm in results:
                    acc.ev()
                    gm = as_model(r)
                    if gm != fr(wm):
                        continue  # reported by the clauses above (or a wrong result of the reflected form, below)
                    fresh = ParserHelper(r.scale, {k: conv(v, nt) for k, v in wm.items() if v != 0}, non_int_type=T)
                    case = {"layer": "parserhelper", "nt": nt, "u": [str(su_), jm(mu)], "op": opn, "operand_state": state, "clause": "ph-identity"}
                    if not (r == fresh) or (r != fresh) or not (fresh == r):
                        acc.violation(["parserhelper", "result-identity", "result-unequal-to-helper-built-with-the-same-exponents", state], case, "== helper built from " + srepr(fresh), srepr(r))
                    elif r.scale == 1 and hash(r) != hash(fresh):
                        acc.violation(["parserhelper", "result-identity", "stale-or-wrong-hash", state], case, hash(fresh), hash(r))
                    elif r.scale == 1 and (not (r == mk_uc(wm, nt)) or hash(r) != hash(mk_uc(wm, nt))):
                        acc.violation(["parserhelper", "result-identity", "differs-from-container-with-the-same-exponents", state], case, srepr(mk_uc(wm, nt)), srepr(r))
                if as_model(1 / w) != fr(m_pow(mu, -1)) or Fraction((1 / w).scale) != 1 / Fraction(su_):
                    acc.violation(["parserhelper", "rtruediv", "wrong-result", nt], {"layer": "parserhelper", "nt": nt, "u": [str(su_), jm(mu)], "op": "1/u", "operand_state": state, "clause": "ph-identity"}, [str(1 / Fraction(su_)), jm(m_pow(mu, -1))], srepr(1 / w))
    # from_string agrees with the algebra for every rendered product
    for mu in models:
        txt = " * ".join(f"{k} ** {v}" if v >= 0 else f"{k} ** ({v})" for k, v in sorted(mu.items())) or "1"
        for scale in (1, 3):
            s = txt if scale == 1 else f"{scale} * {txt}"
            regs.clear_process_caches()
            r = ParserHelper.from_string(s, T)
            acc.ev()
            acc.nt(("ph-str", nt, s))
            if as_model(r) != fr(mu) or r.scale != scale:
                acc.violation(["parserhelper", "from_string", "wrong-result", nt], {"layer": "parserhelper", "nt": nt, "string": s}, [scale, jm(mu)], srepr(r))
    acc.outcome("ph")
    acc.sample({"layer": "parserhelper", "nt": nt, "u": ["2", jm(models[4])], "v": ["1/2", jm(models[8])], "ops": ["*", "/", "**", "==", "from_string"]})


# ----------------------------------------------------------------------------- Unit / Quantity / dimensionality layers


def reg_for(nt):
    return regs.tiny(non_int_type=nt)


def run_unit_pairs(acc, nt):
    ureg = reg_for(nt)
    models = list(vectors([-2, -1, 0, 1, 2], UNAMES))
    acc.dim("unit containers", len(models))
    U = ureg.Unit
    UC = ureg.UnitsContainer
    for mu in models:
        for mv in models:
            u, v = U(ruc(ureg, mu, nt)), U(ruc(ureg, mv, nt))
            hash(u), hash(v)
            su, sv = snapshot(u._units), snapshot(v._units)
            case = {"layer": "unit", "nt": nt, "u": jm(mu), "v": jm(mv)}
            acc.ev(4)
            if mu or mv:
                acc.nt(("unit", nt, key_of(mu), key_of(mv)))
            p, q, d = u * v, v * u, u / v
            for opn, r, wm in (("mul", p, m_mul(mu, mv)), ("mul", q, m_mul(mu, mv)), ("truediv", d, m_div(mu, mv))):
                if not isinstance(r, U):
                    acc.violation(["unit", opn, "result-not-a-unit"], dict(case, op=opn), "Unit", type(r).__name__)
                    continue
                gm = as_model(r._units)
                if any(x == 0 for x in gm.values()):
                    acc.violation(["unit", opn, "zero-exponent-entry-survives"], dict(case, op=opn), "no zero entry", srepr(r))
                elif gm != fr(wm):
                    acc.violation(["unit", opn, "wrong-exponents", nt], dict(case, op=opn), jm(wm), srepr(r))
                else:
                    f = U(ruc(ureg, wm, nt))
                    if not (r == f) or hash(r) != hash(f):
                        acc.violation(["unit", opn, "eq-or-hash-disagrees", nt], dict(case, op=opn), srepr(f), srepr(r))
            want_eq = key_of(mu) == key_of(mv)
            if (u == v) != want_eq or (u != v) == want_eq:
                acc.violation(["unit", "eq", "disagrees-with-exponents", nt], case, want_eq, u == v)
            if snapshot(u._units) != su or snapshot(v._units) != sv:
                acc.violation(["unit", "mul-div", "operand-mutated", nt], case, [su, sv], [snapshot(u._units), snapshot(v._units)])
            # Quantity-unit layer
            qa, qb = ureg.Quantity(1, u), ureg.Quantity(1, v)
            qm, qd = (qa * qb), (qa / qb)
            for opn, r, wm in (("mul", qm, m_mul(mu, mv)), ("truediv", qd, m_div(mu, mv))):
                gm = as_model(r._units)
                if any(x == 0 for x in gm.values()):
                    acc.violation(["quantity-units", opn, "zero-exponent-entry-survives"], dict(case, op=opn), "no zero entry", srepr(r))
                elif gm != fr(wm):
                    acc.violation(["quantity-units", opn, "wrong-exponents", nt], dict(case, op=opn), jm(wm), srepr(r))
                elif not (r.units == U(ruc(ureg, wm, nt))) or hash(r.units) != hash(U(ruc(ureg, wm, nt))):
                    acc.violation(["quantity-units", opn, "eq-or-hash-disagrees", nt], dict(case, op=opn), jm(wm), srepr(r))
            if as_model(qa._units) != fr(mu) or as_model(qb._units) != fr(mv):
                acc.violation(["quantity-units", "mul-div", "operand-mutated", nt], case, [jm(mu), jm(mv)], [srepr(qa), srepr(qb)])
        u = U(ruc(ureg, mu, nt))
        acc.ev(2)
        r = u / u
        if dict(r._units) != {}:
            acc.violation(["unit", "truediv", "u/u-not-dimensionless"], {"layer": "unit", "nt": nt, "u": jm(mu), "op": "u/u"}, {}, srepr(r))
        r = 1 / u
        if as_model(getattr(r, "_units", {})) != fr(m_pow(mu, -1)):
            acc.violation(["unit", "rtruediv", "wrong-exponents", nt], {"layer": "unit", "nt": nt, "u": jm(mu), "op": "1/u"}, jm(m_pow(mu, -1)), srepr(r))
    acc.outcome("unit")
    acc.sample({"layer": "unit+quantity", "nt": nt, "u": jm(models[7]), "v": jm(models[30]), "ops": ["u*v", "v*u", "u/v", "Q*Q", "Q/Q"]})


def run_unit_pow(acc, nt):
    ureg = reg_for(nt)
    models = list(vectors([-2, -1, 0, 1, 2], UNAMES))
    U, UC = ureg.Unit, ureg.UnitsContainer
    for mu in models:
        for a in POWS:
            ca = a if isinstance(a, int) else conv(a, nt)
            u = U(ruc(ureg, mu, nt))
            hash(u)
            acc.ev(2)
            case = {"layer": "unit", "nt": nt, "u": jm(mu), "a": str(a), "op": "u**a"}
            if mu:
                acc.nt(("unitpow", nt, key_of(mu), str(a)))
            for layer, r in (("unit", u**ca), ("quantity-units", ureg.Quantity(1, u) ** ca)):
                gm = as_model(r._units)
                wm = m_pow(mu, a)
                if any(x == 0 for x in gm.values()):
                    acc.violation([layer, "pow", "zero-exponent-entry-survives"], case, "no zero entry", srepr(r))
                elif gm != fr(wm):
                    acc.violation([layer, "pow", "wrong-exponents", nt], case, jm(wm), srepr(r))
                else:
                    ru = r if layer == "unit" else r.units
                    f = U(ruc(ureg, wm, nt))
                    if not (ru == f) or hash(ru) != hash(f):
                        acc.violation([layer, "pow", "eq-or-hash-disagrees", nt], case, srepr(f), srepr(ru))
                    if a == 0 and layer == "unit" and not ru.dimensionless:
                        acc.violation([layer, "pow", "u**0-not-dimensionless"], case, "dimensionless", srepr(ru))
            if as_model(u._units) != fr(mu):
                acc.violation(["unit", "pow", "operand-mutated", nt], case, jm(mu), srepr(u))
            for b in POWS:
                cb = b if isinstance(b, int) else conv(b, nt)
                acc.ev()
                r2 = (u**ca) ** cb
                wm = m_pow(mu, a * b)
                gm = as_model(r2._units)
                if any(x == 0 for x in gm.values()):
                    acc.violation(["unit", "pow", "zero-exponent-entry-survives"], dict(case, b=str(b)), "no zero entry", srepr(r2))
                elif gm != fr(wm):
                    acc.violation(["unit", "pow", "power-law", nt], dict(case, b=str(b)), jm(wm), srepr(r2))
    acc.outcome("unitpow")
    acc.sample({"layer": "unit", "nt": nt, "u": jm(models[12]), "a": "1/2", "b": "2", "ops": ["(u**a)**b"]})


DIMV = {"meter": {"[length]": 1}, "second": {"[time]": 1}, "gram": {"[mass]": 1}, "newton": {"[mass]": 1, "[length]": 1, "[time]": -2}, "hertz": {"[time]": -1}, "hectare": {"[length]": 2}, "percent": {}, "radian": {}}


def run_dim(acc, nt):
    ureg = reg_for(nt)
    names = ("meter", "second", "newton", "hertz", "hectare", "percent")
    models = list(vectors([-1, 0, 1, 2], names[:3])) + list(vectors([-1, 0, 1], names[3:]))
    U, UC = ureg.Unit, ureg.UnitsContainer

    def mdim(model):
        out = {}
        for k, e in model.items():
            out = m_mul(out, m_pow(DIMV[k], e))
        return out

    for mu in models:
        for mv in models:
            u, v = U(ruc(ureg, mu, nt)), U(ruc(ureg, mv, nt))
            acc.ev(3)
            case = {"layer": "dimensionality", "nt": nt, "u": jm(mu), "v": jm(mv)}
            if mu and mv:
                acc.nt(("dim", nt, key_of(mu), key_of(mv)))
            du, dv = u.dimensionality, v.dimensionality
            for opn, r, dd, wm in (
                ("mul", (u * v).dimensionality, du * dv, m_mul(mdim(mu), mdim(mv))),
                ("truediv", (u / v).dimensionality, du / dv, m_div(mdim(mu), mdim(mv))),
                ("get_dimensionality", ureg.get_dimensionality(ruc(ureg, m_mul(mu, mv), nt)), du * dv, m_mul(mdim(mu), mdim(mv))),
            ):
                if any(x == 0 for x in as_model(r).values()) or any(x == 0 for x in as_model(dd).values()):
                    acc.violation(["dimensionality", opn, "zero-exponent-entry-survives"], dict(case, op=opn), "no zero entry", [srepr(r), srepr(dd)])
                elif as_model(r) != fr(wm) or as_model(dd) != fr(wm) or not (r == dd) or hash(r) != hash(dd):
                    acc.violation(["dimensionality", opn, "dim-of-op-differs-from-op-of-dims", nt], dict(case, op=opn), jm(wm), [srepr(r), srepr(dd)])
        for a in (-1, 0, Fraction(1, 2), 2, 3):
            ca = a if isinstance(a, int) else conv(a, nt)
            u = U(ruc(ureg, mu, nt))
            acc.ev()
            r, dd, wm = (u**ca).dimensionality, u.dimensionality**ca, m_pow(mdim(mu), a)
            case = {"layer": "dimensionality", "nt": nt, "u": jm(mu), "a": str(a), "op": "pow"}
            if any(x == 0 for x in as_model(r).values()) or any(x == 0 for x in as_model(dd).values()):
                acc.violation(["dimensionality", "pow", "zero-exponent-entry-survives"], case, "no zero entry", [srepr(r), srepr(dd)])
            elif as_model(r) != fr(wm) or as_model(dd) != fr(wm):
                acc.violation(["dimensionality", "pow", "dim-of-op-differs-from-op-of-dims", nt], case, jm(wm), [srepr(r), srepr(dd)])
    acc.outcome("dim")
    acc.sample({"layer": "dimensionality", "nt": nt, "u": jm(models[10]), "v": jm(models[70]), "ops": ["dim(u*v) == dim(u)*dim(v)"]})


# ----------------------------------------------------------------------------- pi theorem


def rank_and_check(matrix_cols, groups, qnames):
    """matrix_cols[q] = vector over dimensions. Returns (expected_count, problems)."""
    nd = len(matrix_cols[0]) if matrix_cols else 0
    # rank of the nd x nq matrix by Fraction elimination
    rows = [[Fraction(matrix_cols[q][d]) for q in range(len(matrix_cols))] for d in range(nd)]
    rank = _rank(rows)
    problems = []
    expected = len(matrix_cols) - rank
    if len(groups) != expected:
        problems.append(f"{len(groups)} groups returned, nullspace has dimension {expected}")
    vecs = []
    for g in groups:
        vec = [Fraction(g.get(q, 0)) for q in qnames]
        if set(g) - set(qnames):
            problems.append(f"unknown names in {g}")
        if any(v == 0 for v in g.values()):
            problems.append(f"zero exponent kept in {g}")
        for d in range(nd):
            if sum(vec[q] * matrix_cols[q][d] for q in range(len(qnames))) != 0:
                problems.append(f"group {g} is not dimensionless")
                break
        vecs.append(vec)
    if vecs and _rank([list(v) for v in vecs]) != len(vecs):
        problems.append("groups are linearly dependent")
    return expected, problems


def _rank(rows):
    rows = [list(r) for r in rows]
    rank, ncols = 0, (len(rows[0]) if rows else 0)
    for c in range(ncols):
        piv = next((i for i in range(rank, len(rows)) if rows[i][c] != 0), None)
        if piv is None:
            continue
        rows[rank], rows[piv] = rows[piv], rows[rank]
        pv = rows[rank][c]
        rows[rank] = [x / pv for x in rows[rank]]
        for i in range(len(rows)):
            if i != rank and rows[i][c] != 0:
                f = rows[i][c]
                rows[i] = [x - f * y for x, y in zip(rows[i], rows[rank])]
        rank += 1
    return rank


PI_LINES = ["ua = [A]", "ub = [B]", "uc = [C]"]
ENT = {"w": (-1, 0, 1, 2), "n": (-1, 0, 1), "x": (-3, -2, -1, 0, 1, 2, 3)}  # "x": null vectors with co-prime denominators, e.g. (1, 1/2, 1/3)


def pi_case(ureg, cols, nd):
    import pint
    from pint.util import UnitsContainer

    dims = ["[A]", "[B]", "[C]"][:nd]
    units = ["ua", "ub", "uc"][:nd]
    qn = [f"q{i}" for i in range(len(cols))]
    out = {}
    # entry 1: module-level function, dimension containers, no registry
    qd = {n: UnitsContainer({d: e for d, e in zip(dims, col) if e}) for n, col in zip(qn, cols)}
    out["pint.pi_theorem"] = pint.pi_theorem(qd)
    # entry 2: registry method with unit strings
    qs = {n: " * ".join(f"{u} ** ({e})" for u, e in zip(units, col) if e) for n, col in zip(qn, cols)}
    out["ureg.pi_theorem"] = ureg.pi_theorem(qs)
    return qn, out


def run_pi(acc, nq, nd, ent, part, nparts):
    ureg = regs.tiny(PI_LINES)
    alpha = ENT[ent]
    acc.dim(f"pi shape {nq}x{nd} entries {alpha}", len(alpha) ** (nq * nd))
    for idx, flat in enumerate(itertools.product(alpha, repeat=nq * nd)):
        if idx % nparts != part:
            continue
        cols = [flat[i * nd : (i + 1) * nd] for i in range(nq)]
        acc.ev(2)
        try:
            qn, outs = pi_case(ureg, cols, nd)
        except Exception as e:  # noqa
            acc.violation(["pi", "call", "raises", type(e).__name__], {"layer": "pi", "cols": [list(c) for c in cols], "nd": nd}, "a list of groups", f"{type(e).__name__}: {e}")
            continue
        if any(any(c) for c in cols):
            acc.nt(("pi", nq, nd, flat))
        for entry, groups in outs.items():
            expected, problems = rank_and_check(cols, groups, qn)
            acc.outcome(f"nullity={expected}")
            if problems:
                acc.violation(["pi", entry, "not-a-basis-of-dimensionless-monomials"], {"layer": "pi", "cols": [list(c) for c in cols], "nd": nd}, f"{expected} independent dimensionless groups", {"groups": [dict(g) for g in groups], "problems": problems})
    acc.sample({"layer": "pi", "shape": [nq, nd], "entries": list(alpha), "example_cols": [list(c) for c in cols]})


# ----------------------------------------------------------------------------- dispatch / replay


def run_shard(acc, shard, tier, seed):
    kind = shard[0]
    if kind == "uc_pairs":
        run_uc_pairs(acc, shard[1], shard[2])
    elif kind == "uc_pow":
        run_uc_pow(acc, shard[1])
    elif kind == "uc_methods":
        run_uc_methods(acc, shard[1])
    elif kind == "uc_assoc":
        run_uc_assoc(acc, shard[1], shard[2], shard[3] if len(shard) > 3 else None)
    elif kind == "ph":
        run_ph(acc, shard[1])
    elif kind == "unit_pairs":
        run_unit_pairs(acc, shard[1])
    elif kind == "unit_pow":
        run_unit_pow(acc, shard[1])
    elif kind == "dim":
        run_dim(acc, shard[1])
    elif kind == "pi":
        run_pi(acc, *shard[1:])
    else:
        raise core.HarnessError(f"unknown shard {shard}")


def replay(rec):
    """Re-run exactly one recorded case with plain calls (no enumerator) and say whether the same
    site is violated again."""
    case = rec["case"]
    acc = core.Acc(PROPERTY)
    layer = case.get("layer")
    nt = case.get("nt", "float")
    if layer == "pi":
        ureg = regs.tiny(PI_LINES)
        cols = [tuple(c) for c in case["cols"]]
        qn, outs = pi_case(ureg, cols, case["nd"])
        for entry, groups in outs.items():
            expected, problems = rank_and_check(cols, groups, qn)
            if problems:
                acc.violation(["pi", entry, "not-a-basis-of-dimensionless-monomials"], case, expected, problems)
    else:
        # re-run the smallest enclosing enumeration restricted to this case's operands
        mu = unjm(case["u"]) if isinstance(case.get("u"), dict) else None
        only = [m for m in (mu, unjm(case["v"]) if isinstance(case.get("v"), dict) else None, unjm(case["w"]) if isinstance(case.get("w"), dict) else None) if m is not None]
        global vectors
        orig = vectors

        def restricted(exps, names=NAMES):
            seen = []
            for m in only:
                if m not in seen:
                    seen.append(m)
                    yield m

        vectors = restricted
        try:
            for fn, args in ((run_uc_pairs, (nt, "int5")), (run_uc_pow, (nt,)), (run_uc_methods, (nt,)), (run_uc_assoc, (nt, "q")), (run_unit_pairs, (nt if nt != "int" else "float",)), (run_unit_pow, (nt if nt != "int" else "float",)), (run_dim, (nt if nt != "int" else "float",))):
                lay = {"run_uc_pairs": "container", "run_uc_pow": "container", "run_uc_methods": "container", "run_uc_assoc": "container", "run_unit_pairs": "unit", "run_unit_pow": "unit", "run_dim": "dimensionality"}[fn.__name__]
                if lay != layer and not (layer == "quantity-units" and lay == "unit"):
                    continue
                try:
                    fn(acc, *args)
                except (IndexError, KeyError):
                    pass
        finally:
            vectors = orig
        if layer == "parserhelper":
            run_ph(acc, nt)
    hit = [v for v in acc.violations if v["site"] == rec["site"]]
    sites = {tuple(json_site) for json_site in (tuple(v["site"]) for v in acc.violations)}
    return (tuple(rec["site"]) in sites), {"sites_seen": sorted(sites), "first": hit[:1]}


MANIFEST = {'category': 'exploration', 'technique': 'bounded exhaustive enumeration of unit containers / dimension matrices against an exponent-vector reference model (small-scope model checking of the operator algebra)', 'text': 'Every container over a 3-name alphabet with exponents in a small range, every ordered pair (* /, ==, hash), every triple of the sub-alphabet (associativity), every (u,a,b) power-law instance, at the UnitsContainer, ParserHelper, Unit, Quantity-unit and dimensionality layers and for int/float/Fraction/Decimal exponents, plus every integer dimension matrix within the stated shapes (entries -1..2 up to 3x3 / 4x2, and all 3x2 matrices with entries -3..3, whose null vectors mix co-prime denominators) for both pi_theorem entry points, is executed on the real code and compared with dict-of-Fraction arithmetic. The laws are algebraic identities over finitely many branch shapes, so a wrong branch shows at the smallest instance; the enumeration is complete within the bound.', 'note': 'Trusted: the 40-line exponent-vector model and Fraction rank computation in checks/c04_group.py; float exponents are dyadic so arithmetic is exact. Not covered: containers with more than 3 names, exponents outside the alphabet, matrices larger than 4x3.', 'ref': 'DESIGN.md §4 C04'}
MANIFEST["text"] += ' Rational powers: default containers with integer exponents raised to 1/10, 3/10, 1/3, 7/10, -1/10 keep the exact power laws.'
MANIFEST["text"] += ' ParserHelper results (u**a, 1/u, u*u, u/u, u*1, copy) from a never-hashed and from a pre-hashed operand compare and hash equal to a helper built with the same exponents.'
