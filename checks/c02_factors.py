"""C02 — conversion factors equal the exact ratio implied by the written definitions.

E1 bounded exhaustive enumeration; oracle = R1 exact monomials.  Sub-spaces: (a) every ordered
same-dimension pair of multiplicative canonical units (cold, warm, and after the swapped pair);
(b) all prefix spellings x all unit spellings x {'', 's'} through get_root_units; (c) identity /
inverse / path independence on every triple inside each dimension class (capped per class in
quick); (d) all 1-2 factor compound containers over a 12-unit alphabet, every same-dimension
ordered pair on ONE registry instance (so cache keys of sibling containers meet); (e) generated
definition files.  Fraction registry: exact equality and no float; float: <= 64 ulp; Decimal: 1e-24."""
from __future__ import annotations

import itertools
from decimal import Decimal, localcontext
from fractions import Fraction

from mc import core, explore, regs
from mc.ref import defs

PROPERTY = "C02"
LEVEL = "exploration"
RULE = (
    "every ordered same-dimension pair of multiplicative canonical units x {Fraction, float, Decimal} registries, each asked cold, warm and after the swapped pair; all 72 prefix spellings x "
    "all multiplicative unit spellings x {'', 's'} via get_root_units; all triples within each dimension class (cap 12/class quick, 60 thorough) for identity/inverse/path independence; all ordered "
    "same-dimension pairs of 1-2 entry containers over 12 units x exponents {-2,-1,1,2}(+1/2 thorough) on one registry instance; generated files. non-trivial = distinct key with exact ratio != 1"
)
ASSUMPTIONS = [
    "R1 exact monomials (mc/ref/defs.py) are the reference; units whose expansion passes through a fractional power are compared with the tolerance even in the Fraction registry",
    "float tolerance 64 ulp relative, Decimal 1e-24 relative",
    "PYTHONHASHSEED=0",
]
SITE_GRAMMAR = "[clause, api, failure-kind, numeric type]"

REL = {"float": 64 * 2.220446049250313e-16, "Decimal": 1e-24}


def model():
    return defs.default_model(core.REPO)


def dimkey(d):
    return tuple(sorted((k, str(v)) for k, v in d.items()))


def classes(M):
    out = {}
    for u in M.order:
        if M.units[u].is_multiplicative:
            out.setdefault(dimkey(M.dim(u)), []).append(u)
    return out


def shards(tier, seed):
    out = []
    for nt in ("Fraction", "float", "Decimal"):
        for b in range(4):
            out.append(("pairs", nt, b, 4))
        out.append(("triples", nt))
        for b in range(2):
            out.append(("spellpairs", nt, b, 2))
        for b in range(2):
            out.append(("compound", nt, b, 2))
    nts = ("Fraction",) if tier == "quick" else ("Fraction", "float", "Decimal")
    for nt in nts:
        for b in range(8):
            out.append(("prefixes", nt, b, 8))
    out.append(("generated",))
    out.append(("files-edited",))
    out.append(("casei",))
    out.append(("redef", 0, None))
    for e in RD_EVENTS:
        out.append(("redef", 4 if tier == "quick" else 5, list(e)))
    return out


def exact_ratio(M, a_units, b_units):
    """Mono ratio root(a)/root(b) for containers {spelling: exponent}; .units must be empty"""
    return M.root_of_units(a_units) / M.root_of_units(b_units)


def close(got, want_mono, nt):
    """compare a pint number with an R1 monomial coefficient"""
    if nt == "Fraction" and want_mono.rational:
        return isinstance(got, (int, Fraction)) and not isinstance(got, bool) and Fraction(got) == want_mono.coef
    try:
        with localcontext() as ctx:
            ctx.prec = 50
            w = want_mono.dec(45)
            if isinstance(got, Fraction):
                g = Decimal(got.numerator) / Decimal(got.denominator)
            elif isinstance(got, float):
                if got != got or got in (float("inf"), float("-inf")):
                    return False
                g = Decimal(got)
            else:
                g = Decimal(got)
            if w == 0:
                return g == 0
            rel = abs(g / w - 1)
            tol = Decimal(REL["Decimal"]) if nt == "Decimal" else Decimal(REL["float"])
            return rel <= tol
    except Exception:  # noqa
        return False


def type_ok(got, nt, rational):
    if nt == "Fraction":
        return (isinstance(got, (int, Fraction)) and not isinstance(got, bool)) or not rational
    if nt == "Decimal":
        return isinstance(got, (int, Decimal)) and not isinstance(got, bool)
    return isinstance(got, (int, float)) and not isinstance(got, bool)


def mag(nt):
    return {"Fraction": Fraction(3, 7), "float": 0.75, "Decimal": Decimal("0.75")}[nt]


def conv_out(fn):
    try:
        return ("ok", fn())
    except Exception as e:  # noqa
        return ("exc:" + type(e).__name__, str(e)[:160])


def show(x):
    return repr(x)


# ----------------------------------------------------------------------------- (a) pairs


def run_pairs(acc, nt, block, nblocks):
    M = model()
    ureg = regs.default(nt, fresh=True)
    cls = classes(M)
    x = mag(nt)
    xm = defs.Mono(Fraction(x) if not isinstance(x, Decimal) else Fraction(x))
    npairs = 0
    for ci, (dk, us) in enumerate(sorted(cls.items())):
        if ci % nblocks != block:
            continue
        for a in us:
            for b in us:
                ratio = exact_ratio(M, {a: 1}, {b: 1})
                rational = ratio.rational and M.rational_unit(a) and M.rational_unit(b)
                want = ratio * xm
                case = {"nt": nt, "a": a, "b": b, "x": str(x)}
                npairs += 1
                if ratio.coef != 1 or ratio.rad:
                    acc.nt(("pair", nt, a, b))
                obs = [("convert(cold)", conv_out(lambda: ureg.convert(x, a, b)))]
                obs.append(("convert(swapped)", conv_out(lambda: ureg.convert(x, b, a))))
                obs.append(("convert(warm)", conv_out(lambda: ureg.convert(x, a, b))))
                obs.append(("Quantity.to", conv_out(lambda: ureg.Quantity(x, a).to(b).magnitude)))
                for api, o in obs:
                    acc.ev()
                    w = want if api != "convert(swapped)" else (xm / ratio)
                    if o[0] != "ok":
                        acc.violation(["unit-pair", api, "raises", nt], case, str(w.coef) if w.rational else str(w.dec(30)), o)
                    elif not close(o[1], w, nt):
                        acc.violation(["unit-pair", api, "wrong-factor", nt], case, str(w.coef) if w.rational else str(w.dec(30)), show(o[1]))
                    elif not type_ok(o[1], nt, rational):
                        acc.violation(["unit-pair", api, "numeric-type-contaminated", nt], case, nt, type(o[1]).__name__)
                acc.outcome("rational" if rational else "irrational")
                # ndarray magnitudes (float registry): the same factor elementwise, the SOURCE untouched by the
                # returning forms — asked twice on the same object, plainly and with a context named — and ito in place
                if nt == "float" and a != b:
                    import numpy as np

                    src = np.array([0.75, -2.0, 8.0])
                    q = ureg.Quantity(src.copy(), a)
                    w = float(want.dec(30)) / 0.75
                    for api, fn in (("to[array]", lambda: q.to(b).magnitude), ("to[array]#2", lambda: q.to(b).magnitude), ("to[array, context]", lambda: q.to(b, "sp").magnitude), ("to[array, context]#2", lambda: q.to(b, "sp").magnitude),
                                    ("m_as[array]", lambda: q.m_as(b)), ("convert[array]", lambda: ureg.convert(q.magnitude, a, b))):
                        acc.ev()
                        o = conv_out(fn)
                        if o[0] != "ok" or not np.allclose(np.asarray(o[1], dtype=float), src * w, rtol=1e-12, atol=0):
                            acc.violation(["unit-pair", api, "wrong-factor", nt], case, (src * w).tolist(), o[1] if o[0] != "ok" else np.asarray(o[1]).tolist())
                        if not np.array_equal(q.magnitude, src) or dict(q._units) != {a: 1}:
                            acc.violation(["unit-pair", api, "source-modified-by-a-returning-conversion", nt], case, src.tolist(), np.asarray(q.magnitude).tolist())
                            q = ureg.Quantity(src.copy(), a)
                    q2 = ureg.Quantity(src.copy(), a)
                    o = conv_out(lambda: (q2.ito(b), q2.magnitude)[1])
                    acc.ev()
                    if o[0] != "ok" or not np.allclose(np.asarray(o[1], dtype=float), src * w, rtol=1e-12, atol=0) or dict(q2._units) != {b: 1}:
                        acc.violation(["unit-pair", "ito[array]", "wrong-factor", nt], case, (src * w).tolist(), o[1] if o[0] != "ok" else np.asarray(o[1]).tolist())
                    # INTEGER arrays converted in place: the result cannot in general be held by the array — the conversion
                    # either gives the right numbers or is refused, it never stores something else
                    isrc = np.array([1500, 2500, 250, -7])
                    for api, fn in (("ito[int array]", lambda: (lambda qi: (qi.ito(b), qi.magnitude)[1])(ureg.Quantity(isrc.copy(), a))),
                                    ("convert[int array, inplace]", lambda: ureg.convert(isrc.copy(), a, b, inplace=True)),
                                    ("ito_root_units[int array]", lambda: (lambda qi: (qi.ito_root_units(), qi.to(b).magnitude)[1])(ureg.Quantity(isrc.copy(), a)))):
                        acc.ev()
                        o = conv_out(fn)
                        if o[0] == "ok" and not np.allclose(np.asarray(o[1], dtype=float), isrc * w, rtol=1e-12, atol=0):
                            acc.violation(["unit-pair", api, "wrong-factor", nt], case, (isrc * w).tolist(), np.asarray(o[1]).tolist())
        # identity on every unit, int magnitude stays exact in exact registries
        for a in us:
            acc.ev()
            o = conv_out(lambda: ureg.Quantity(5, a).to(a).magnitude)
            if o != ("ok", 5) or type(o[1]) is not int:
                acc.violation(["unit-pair", "Quantity.to", "identity-not-exact", nt], {"nt": nt, "a": a}, 5, o)
    acc.dim("dimension classes", len(cls))
    acc.count("ordered same-dimension pairs", npairs)
    if cls:
        us = sorted(cls.items())[block][1]
        acc.sample({"clause": "unit-pair", "nt": nt, "a": us[0], "b": us[-1], "x": str(x), "asked": ["cold", "swapped", "warm", "Quantity.to"]})


# ----------------------------------------------------------------------------- (b) prefixes x spellings


def run_prefixes(acc, nt, block, nblocks):
    M = model()
    ureg = regs.default(nt, fresh=True)
    st, pt = M.spelling_table(), M.prefix_table()
    acc.dim("prefix spellings", len(pt))
    acc.dim("unit spellings", len(st))
    spellings = [s for s in st if M.units[st[s]].is_multiplicative and s.isidentifier()]
    skipped = 0
    for i, u in enumerate(spellings):
        if i % nblocks != block:
            continue
        for p in [""] + list(pt):
            for suf in ("", "s"):
                s = p + u + suf
                if suf and s in st and not p:
                    pass
                if s in st:
                    rd = [("", st[s])]
                else:
                    rd = M.readings(s)
                if not rd or any(not M.units[un].is_multiplicative for _, un in rd):
                    skipped += 1
                    continue
                acc.ev()
                wants = []
                for pn, un in rd:
                    m = M.root(un)
                    if pn:
                        m = m * M.prefixes[pn].value
                    wants.append(m)
                o = conv_out(lambda: ureg.get_root_units(s))
                case = {"nt": nt, "string": s, "readings": [list(r) for r in rd]}
                if p or suf:
                    acc.nt(("prefixed", nt, s))
                if o[0] != "ok":
                    acc.violation(["prefixed-spelling", "get_root_units", "raises", nt], case, [str(w.coef) for w in wants], o)
                    continue
                f, ru = o[1]
                gu = {k: Fraction(v) for k, v in dict(ru._units).items()}
                hit = [w for w in wants if gu == w.units and close(f, defs.Mono(w.coef, None, w.rad, w.frac_step), nt)]
                if not hit:
                    acc.violation(["prefixed-spelling", "get_root_units", "factor-is-not-prefix-times-unit-once", nt], case, [[str(w.coef) if w.rational else str(w.dec(25)), {k: str(v) for k, v in w.units.items()}] for w in wants], [show(f), {k: str(v) for k, v in gu.items()}])
                elif not type_ok(f, nt, hit[0].rational):
                    acc.violation(["prefixed-spelling", "get_root_units", "numeric-type-contaminated", nt], case, nt, type(f).__name__)
                acc.outcome("prefixed" if p else "bare")
    acc.count("strings skipped (no reading / non-multiplicative)", skipped)
    acc.sample({"clause": "prefixed-spelling", "nt": nt, "strings": ["kilo" + spellings[block], "µ" + spellings[block] + "s"]})


# ----------------------------------------------------------------------------- (b2) several spellings of ONE unit in one container


def run_spellpairs(acc, nt, block, nblocks):
    """a unit may be written by its name, symbol, an alias, a plural or a prefixed form, and a CONTAINER may mix
    them: {inch: 1} -> {in: 1} is the identity, {ft: 1, foot: 1} is a square foot"""
    M = model()
    ureg = regs.default(nt, fresh=True)
    x = mag(nt)
    names = [n for n in M.order if M.units[n].is_multiplicative and not n.startswith("delta_")]
    for i, u in enumerate(names):
        if i % nblocks != block:
            continue
        sp = [s for s in M.units[u].spellings() if s.isidentifier()]
        extra = [u + "s", "kilo" + u]
        sym = M.units[u].symbol
        if sym and sym.isidentifier() and sym != u:
            extra.append("k" + sym)
        for e in extra:
            rd = M.readings(e) if e not in M.spelling_table() else None
            if rd and len(rd) == 1 and e not in sp:
                sp.append(e)
        r1 = M.root(u)
        for s1 in sp:
            for s2 in sp:
                if s1 == s2:
                    continue
                acc.ev(3)
                acc.nt(("spellpair", nt, s1, s2))
                case = {"nt": nt, "unit": u, "spellings": [s1, s2], "x": str(x)}
                m1, m2 = M.root_of_units({s1: 1}), M.root_of_units({s2: 1})
                ratio = m1 / m2
                want = ratio * defs.Mono(Fraction(x))
                o = conv_out(lambda: ureg.convert(x, ureg.UnitsContainer({s1: 1}), ureg.UnitsContainer({s2: 1})))
                if o[0] != "ok" or not close(o[1], want, nt):
                    acc.violation(["spelling-pair", "convert(container, container)", "wrong-factor", nt], case, str(want.coef) if want.rational else str(want.dec(30)), o[1] if o[0] != "ok" else show(o[1]))
                o = conv_out(lambda: ureg.Quantity(x, ureg.UnitsContainer({s1: 1})).to(ureg.UnitsContainer({s2: 1})).magnitude)
                if o[0] != "ok" or not close(o[1], want, nt):
                    acc.violation(["spelling-pair", "Quantity.to(container)", "wrong-factor", nt], case, str(want.coef) if want.rational else str(want.dec(30)), o[1] if o[0] != "ok" else show(o[1]))
                both = m1 * m2
                # the same questions with PLAIN DICTS as unit arguments (an accepted argument form of its own code path)
                o = conv_out(lambda: ureg.convert(x, {s1: 1, s2: 1}, {u: 2}))
                w2 = both / (r1 * r1) * defs.Mono(Fraction(x))
                if o[0] != "ok" or not close(o[1], w2, nt):
                    acc.violation(["spelling-pair", "convert(dict, dict)", "two-spellings-of-one-unit-not-accumulated", nt], case, str(w2.coef) if w2.rational else str(w2.dec(30)), o[1] if o[0] != "ok" else show(o[1]))
                o = conv_out(lambda: ureg.Quantity(x, ureg.UnitsContainer({u: 2})).to({s1: 1, s2: 1}).magnitude)
                w3 = (r1 * r1) / both * defs.Mono(Fraction(x))
                if o[0] != "ok" or not close(o[1], w3, nt):
                    acc.violation(["spelling-pair", "Quantity.to(dict)", "two-spellings-of-one-unit-not-accumulated", nt], case, str(w2.coef) if w2.rational else str(w2.dec(30)), o[1] if o[0] != "ok" else show(o[1]))
                o = conv_out(lambda: ureg.get_root_units({s1: 1, s2: 1}))
                ok = o[0] == "ok" and {k: Fraction(v) for k, v in dict(o[1][1]._units).items()} == both.units and close(o[1][0], defs.Mono(both.coef, None, both.rad, both.frac_step), nt)
                if not ok:
                    acc.violation(["spelling-pair", "get_root_units(dict)", "two-spellings-of-one-unit-not-accumulated", nt], case, [str(both.coef), {k: str(v) for k, v in both.units.items()}], repr(o[1])[:160])
                o = conv_out(lambda: ureg.get_root_units(ureg.UnitsContainer({s1: 1, s2: 1})))
                ok = o[0] == "ok" and {k: Fraction(v) for k, v in dict(o[1][1]._units).items()} == both.units and close(o[1][0], defs.Mono(both.coef, None, both.rad, both.frac_step), nt)
                if not ok:
                    acc.violation(["spelling-pair", "get_root_units(container)", "two-spellings-of-one-unit-not-accumulated", nt], case, [str(both.coef), {k: str(v) for k, v in both.units.items()}], repr(o[1])[:160])
        acc.outcome("spellings=" + str(min(len(sp), 6)))
    acc.sample({"clause": "spelling-pair", "nt": nt, "unit": "inch", "spellings": ["inch", "in", "inches", "kiloinch", "kin"]})


# ----------------------------------------------------------------------------- (c) triples


def run_triples(acc, nt, tier):
    M = model()
    ureg = regs.default(nt, fresh=True)
    cap = 12 if tier == "quick" else 60
    x = mag(nt)
    for dk, us in sorted(classes(M).items()):
        us = [u for u in us if M.rational_unit(u)][:cap]
        for a, b, c in itertools.product(us, repeat=3):
            acc.ev()
            if len({a, b, c}) == 3:
                acc.nt(("triple", nt, a, b, c))
            o = conv_out(lambda: (ureg.convert(ureg.convert(x, a, b), b, c), ureg.convert(x, a, c), ureg.convert(ureg.convert(x, a, b), b, a)))
            case = {"nt": nt, "a": a, "b": b, "c": c, "x": str(x)}
            if o[0] != "ok":
                acc.violation(["path", "convert", "raises", nt], case, "numbers", o)
                continue
            via, direct, back = o[1]
            if nt == "Fraction":
                if via != direct:
                    acc.violation(["path", "convert", "path-dependent", nt], case, show(direct), show(via))
                if back != x:
                    acc.violation(["path", "convert", "not-invertible", nt], case, show(x), show(back))
            else:
                tol = 4 * REL[nt] if nt == "float" else 1e-22
                # compare in the registry's own arithmetic: a Decimal tolerance of 1e-22 is far below float resolution
                num = (lambda v: Decimal(v) if not isinstance(v, Fraction) else Decimal(v.numerator) / Decimal(v.denominator)) if nt == "Decimal" else float
                if abs(num(via) - num(direct)) > num(tol) * abs(num(direct)) or abs(num(back) - num(x)) > num(tol) * abs(num(x)):
                    acc.violation(["path", "convert", "path-dependent-beyond-tolerance", nt], case, [show(direct), show(x)], [show(via), show(back)])
        acc.outcome(f"class-size={len(us)}")
    acc.sample({"clause": "path", "nt": nt, "triple": ["inch", "foot", "mile"], "checks": ["a->b->c == a->c", "a->b->a == identity"]})


# ----------------------------------------------------------------------------- (d) compounds

ALPHA_D = ("meter", "kilometer", "inch", "second", "hour", "minute", "gram", "pound", "newton", "dyne", "liter", "hertz")


def run_compound(acc, nt, block, nblocks, tier):
    M = model()
    ureg = regs.default(nt, fresh=True)
    exps = [-2, -1, 1, 2] + ([Fraction(1, 2)] if tier == "thorough" and nt == "float" else [])
    cs = []
    for n in (1, 2):
        for names in itertools.combinations(ALPHA_D, n):
            for es in itertools.product(exps, repeat=n):
                cs.append(dict(zip(names, es)))
    acc.dim("compound containers", len(cs))
    by = {}
    for c in cs:
        by.setdefault(dimkey(M.dim_of_units(c)), []).append(c)
    x = mag(nt)
    xm = defs.Mono(Fraction(x))

    def uc(c):
        return ureg.UnitsContainer({k: (v if isinstance(v, int) else float(v)) for k, v in c.items()})

    for ci, (dk, group) in enumerate(sorted(by.items())):
        if ci % nblocks != block:
            continue
        for a in group:
            for b in group:
                acc.ev(2)
                ratio = exact_ratio(M, a, b)
                want = ratio * xm
                case = {"nt": nt, "a": {k: str(v) for k, v in a.items()}, "b": {k: str(v) for k, v in b.items()}, "x": str(x)}
                if a != b:
                    acc.nt(("compound", nt, tuple(sorted(case["a"].items())), tuple(sorted(case["b"].items()))))
                for api, fn in (("convert", lambda: ureg.convert(x, uc(a), uc(b))), ("Quantity.to", lambda: ureg.Quantity(x, uc(a)).to(uc(b)).magnitude)):
                    o = conv_out(fn)
                    if o[0] != "ok":
                        acc.violation(["compound", api, "raises", nt], case, str(want.coef), o)
                    elif not close(o[1], want, nt):
                        acc.violation(["compound", api, "wrong-factor", nt], case, str(want.coef) if want.rational else str(want.dec(30)), show(o[1]))
                    elif not type_ok(o[1], nt, want.rational):
                        acc.violation(["compound", api, "numeric-type-contaminated", nt], case, nt, type(o[1]).__name__)
        acc.outcome(f"class-size={len(group)}")
    acc.sample({"clause": "compound", "nt": nt, "a": {"meter": "1", "second": "-2"}, "b": {"kilometer": "1", "hour": "-2"}})


# ----------------------------------------------------------------------------- (e) generated files


def gen_files():
    facs = ["2", "1 / 3", "1e3", "0.0254", "7 / 2"]
    for f1, f2 in itertools.product(facs, repeat=2):
        for e in (1, -1, 2):
            yield [
                "kilo- = 1e3 = k-",
                "milli- = 1e-3 = m-",
                "ua = [A] = a_",
                "ub = [B]",
                f"uc = {f1} * ua = c_",
                f"ud = {f2} * uc ** {e} * ub",
                f"ue = ud / kiloua ** {e}",
                "uf = 5 * ub * milliub",
            ]


def run_generated(acc):
    for lines in gen_files():
        M = defs.read(lines)
        for nt in ("Fraction", "float", "Decimal"):
            ureg = regs.tiny(lines, non_int_type=nt)
            x = mag(nt)
            xm = defs.Mono(Fraction(x))
            names = list(M.units) + ["kilouc", "milliud", "c_", "kc_"]
            for a, b in itertools.product(names, repeat=2):
                if M.dim(a) != M.dim(b):
                    continue
                acc.ev()
                if a != b:
                    acc.nt(("gen", tuple(lines), nt, a, b))
                want = exact_ratio(M, {a: 1}, {b: 1}) * xm
                o = conv_out(lambda: ureg.convert(x, a, b))
                case = {"registry": lines, "nt": nt, "a": a, "b": b, "x": str(x)}
                if o[0] != "ok":
                    acc.violation(["generated", "convert", "raises", nt], case, str(want.coef), o)
                elif not close(o[1], want, nt):
                    acc.violation(["generated", "convert", "wrong-factor", nt], case, str(want.coef), show(o[1]))
                elif not type_ok(o[1], nt, True):
                    acc.violation(["generated", "convert", "numeric-type-contaminated", nt], case, nt, type(o[1]).__name__)
            acc.outcome("generated-" + nt)
    acc.sample({"clause": "generated", "registry": lines})


# ----------------------------------------------------------------------------- (f) the written definitions change

RD_LINES = ["kilo- = 1000 = k-", "ua = [A]", "ub = [B]", "inch = 2 * ua = in", "foot = 12 * inch", "mile = 5280 * foot", "speed = mile / ub",
            "@context N", "    [A] -> [B]: value * 3 * ub / ua", "@end", "@context RD", "    foot = 10 * inch", "@end"]
RD_EVENTS = [("warm",), ("redef", "inch = 3 * ua = in"), ("redef", "inch = 5 * ua = in"), ("redef", "foot = 7 * inch"), ("use", "N"), ("enable", "N"), ("enable", "RD"), ("disable",), ("within", "RD")]
RD_PROBES = [({"foot": 1}, {"ua": 1}), ({"mile": 1}, {"ua": 1}), ({"mile": 1}, {"inch": 1}), ({"speed": 1}, {"ua": 1, "ub": -1}), ({"kilofoot": 1}, {"inch": 1}), ({"ua": 1}, {"foot": 1}), ({"in": 2}, {"foot": 2})]


class _RD:
    pass


class RedefDriver(explore.Driver):
    """the factor follows the definitions CURRENTLY written: a unit defined again (registry.define on an existing name, allowed
    by default) or overlaid by a context while it is active. Histories of conversions, redefinitions and context
    activations on a generated registry; after each, every probe equals the exact ratio the independent reader derives from
    the text in force"""

    def __init__(self):
        self._models = {}

    def fresh(self):
        regs.clear_process_caches()
        s = _RD()
        s.reg = regs.tiny(RD_LINES, non_int_type="Fraction", on_redefinition="ignore")
        s.redefs, s.stack = {}, []
        return s

    def events(self):
        return list(RD_EVENTS)

    def enabled(self, hist):
        depth = 0
        for e in hist:
            depth += 1 if e[0] == "enable" else (-1 if e[0] == "disable" and depth else 0)
        return [e for e in RD_EVENTS if not (e[0] == "redef" and depth)]

    def outcome_oracle(self, acc, s, hist, outs):
        pass

    @staticmethod
    def answers(r):
        out = []
        for a, b in RD_PROBES:
            out.append(conv_out(lambda: r.convert(1, r.UnitsContainer(a), r.UnitsContainer(b))))
            out.append(conv_out(lambda: r.Quantity(1, r.UnitsContainer(a)).to(r.UnitsContainer(b)).magnitude))
        out.append(conv_out(lambda: r.get_root_units("mile")[0]))
        out.append(conv_out(lambda: r.Quantity(1, "kilofoot").to_root_units().magnitude))
        return out

    def apply(self, s, ev):
        r, k = s.reg, ev[0]
        if k == "warm":
            return [o[0] for o in self.answers(r)]
        if k == "redef":
            s.redefs[ev[1].split("=")[0].strip()] = ev[1]
            return conv_out(lambda: r.define(ev[1]))[:1]
        if k == "use":
            return conv_out(lambda: str(r.Quantity(1, "ua").to("ub", ev[1]).magnitude))
        if k == "enable":
            s.stack.append(ev[1])
            return conv_out(lambda: r.enable_contexts(ev[1]))[:1]
        if k == "disable":
            if s.stack:
                s.stack.pop()
            return conv_out(lambda: r.disable_contexts(1))[:1]
        if k == "within":
            def blk():
                with r.context(ev[1]):
                    return [str(o[1]) for o in self.answers(r)[:4]]
            return conv_out(blk)
        raise core.HarnessError(ev)

    def fp(self, s, hist):
        d = vars(s.reg)
        return explore.fingerprint({k: d[k] for k in ("_units", "_cache", "_caches", "_context_units", "_active_ctx") if k in d})

    def model(self, redefs, stack):
        key = (tuple(sorted(redefs.items())), "RD" in stack)
        if key not in self._models:
            lines = []
            for ln in RD_LINES[:7]:
                n = ln.split("=")[0].strip()
                if n == "foot" and "RD" in stack:
                    ln = "foot = 10 * inch"
                elif n in redefs:
                    ln = redefs[n]
                lines.append(ln)
            self._models[key] = defs.read(lines)
        return self._models[key]

    def oracle(self, acc, s, hist, outs):
        M = self.model(s.redefs, s.stack)
        want = []
        for a, b in RD_PROBES:
            w = exact_ratio(M, a, b)
            want += [w, w]
        want.append(defs.Mono(M.root("mile").coef))
        want.append(defs.Mono(M.root("foot").coef * 1000))
        got = self.answers(s.reg)
        names = [f"{api}({a} -> {b})" for a, b in RD_PROBES for api in ("convert", "Quantity.to")] + ["get_root_units(mile)", "to_root_units(kilofoot)"]
        for n, w, o in zip(names, want, got):
            acc.ev()
            if o[0] != "ok" or not close(o[1], w, "Fraction"):
                kinds = [e[0] for e in hist]
                cause = "after-redefinition-and-context-switch" if "redef" in kinds and any(k in kinds for k in ("use", "enable", "within", "disable")) else ("after-redefinition" if "redef" in kinds else "context-overlay")
                acc.violation(["redefined", n.split("(")[0], "factor-is-not-the-ratio-of-the-definitions-in-force", cause], {"history": [list(e) for e in hist], "probe": n, "redefined": dict(s.redefs), "contexts": list(s.stack)}, str(w.coef), show(o[1]) if o[0] == "ok" else o)
        acc.sample({"clause": "redefined", "history": [list(e) for e in hist]}, limit=2)


# ----------------------------------------------------------------------------- (g) the files change between two loads


def run_files_edited(acc):
    """the definitions 'written' are those in the files NOW: a main file importing a second one, loaded through a disk
    cache folder, one of the two (or both) edited, loaded again through the same folder — every factor of the second
    registry is the ratio the independent reader derives from the files as they are then"""
    import os
    import shutil
    import tempfile
    pint = core.boot()

    def texts(rod, furl, pole):
        return {"part.txt": ["meter = [length] = m", f"rod = {rod} * meter", "span = 9 * inch_", "inch_ = 1 / 40 * meter"], "main.txt": ["kilo- = 1000 = k-", "@import part.txt", f"furl = {furl} * rod", f"pole = {pole} * rod * span"]}

    versions = {"imported-file-edited": (texts(3, 40, 2), texts(7, 40, 2)), "main-file-edited": (texts(3, 40, 2), texts(3, 50, 2)), "both-edited": (texts(3, 40, 2), texts(7, 50, 5)), "nothing-edited": (texts(3, 40, 2), texts(3, 40, 2))}
    probes = [({"rod": 1}, {"meter": 1}), ({"furl": 1}, {"meter": 1}), ({"furl": 1}, {"rod": 1}), ({"pole": 1}, {"meter": 2}), ({"kilorod": 1}, {"furl": 1}), ({"span": 1}, {"meter": 1})]
    for vname, (t1, t2) in versions.items():
        for nt in ("float", "Fraction", "Decimal"):
            scratch = tempfile.mkdtemp(prefix="c02files_", dir=os.environ.get("VERIF_SCRATCH") or None)
            try:
                kw = {} if nt == "float" else {"non_int_type": {"Fraction": Fraction, "Decimal": Decimal}[nt]}
                cf = os.path.join(scratch, "cache")
                for t in (t1, t2):
                    for fn, lines in t.items():
                        with open(os.path.join(scratch, fn), "w", encoding="utf-8") as fh:
                            fh.write("\n".join(lines) + "\n")
                    ureg = pint.UnitRegistry(os.path.join(scratch, "main.txt"), cache_folder=cf, **kw)
                    for a, b in probes:  # ask the first registry too: whatever it stores must not answer for the second
                        conv_out(lambda: ureg.convert(1, ureg.UnitsContainer(a), ureg.UnitsContainer(b)))
                        conv_out(lambda: ureg.get_root_units(ureg.UnitsContainer(a)))
                M = defs.read([ln for ln in t2["main.txt"] if not ln.startswith("@import")][:1] + t2["part.txt"] + [ln for ln in t2["main.txt"] if not ln.startswith("@import")][1:])
                for a, b in probes:
                    want = exact_ratio(M, a, b)
                    wroot = M.root_of_units(a)
                    obs = [("convert", conv_out(lambda: ureg.convert(1, ureg.UnitsContainer(a), ureg.UnitsContainer(b))), want),
                           ("Quantity.to", conv_out(lambda: ureg.Quantity(1, ureg.UnitsContainer(a)).to(ureg.UnitsContainer(b)).magnitude), want),
                           ("get_root_units", conv_out(lambda: ureg.get_root_units(ureg.UnitsContainer(a))[0]), defs.Mono(wroot.coef)),
                           ("to_root_units", conv_out(lambda: ureg.Quantity(1, ureg.UnitsContainer(a)).to_root_units().magnitude), defs.Mono(wroot.coef))]
                    for api, o, w in obs:
                        acc.ev()
                        acc.nt(("files-edited", vname, nt, tuple(a.items()), tuple(b.items()), api))
                        if o[0] != "ok" or not close(o[1], w, nt):
                            acc.violation(["files-edited", api, "factor-is-not-the-ratio-of-the-definitions-now-in-the-files", vname], {"nt": nt, "edit": vname, "a": a, "b": b, "files": t2}, str(w.coef), show(o[1]) if o[0] == "ok" else o)
            finally:
                shutil.rmtree(scratch, ignore_errors=True)
    acc.outcome("files-edited")
    acc.sample({"clause": "files-edited", "edit": "imported-file-edited", "probe": "get_root_units(rod) after rod = 3 * meter became rod = 7 * meter"})


# ----------------------------------------------------------------------------- (h) case-insensitive registries

CASEI_UNITS = ("Hz", "eV", "W", "m", "g", "s", "V", "Pa", "J", "hertz", "meter", "N", "K", "L", "l", "T", "t", "B", "b", "F", "C", "h", "H", "S", "A", "a", "d", "D")


def run_casei(acc):
    """in a registry built with case_sensitive=False a spelling may have more readings, but the factor is still the one of
    a reading the rule allows (prefix as written, unit name compared without case): every prefix spelling x 28 unit
    spellings, get_root_units / convert / Quantity.to_root_units against the reader's case-insensitive reading set"""
    M = model()
    ureg = regs.default("Fraction", case_sensitive=False)
    st, pt = M.spelling_table(), M.prefix_table()
    for ps in pt:
        for us in CASEI_UNITS:
            s_ = ps + us
            if s_ in st:
                continue
            try:
                rd = M.readings(s_, case_sensitive=False)
            except Exception:  # noqa
                continue
            if not rd or any(not M.units[u].is_multiplicative for _, u in rd):
                continue
            wants = {((M.root(u) * M.prefixes[p].value) if p else M.root(u)).coef for p, u in rd}
            acc.nt(("casei", s_))
            for api, fn in (("get_root_units", lambda: ureg.get_root_units(s_)[0]), ("to_root_units", lambda: ureg.Quantity(1, s_).to_root_units().magnitude)):
                acc.ev()
                o = conv_out(fn)
                if o[0] != "ok" or o[1] not in wants:
                    acc.violation(["case-insensitive", api, "factor-is-not-that-of-an-allowed-reading", "upper-case-prefix-symbol" if ps[:1].isupper() else "other"], {"string": s_, "readings": [list(r) for r in rd]}, sorted(str(w) for w in wants), show(o[1]) if o[0] == "ok" else o)
    acc.outcome("case-insensitive")
    acc.sample({"clause": "case-insensitive", "string": "MHz", "expected": "mega x hertz: 1000000 / second"})


# ----------------------------------------------------------------------------- dispatch / replay


def run_shard(acc, shard, tier, seed):
    k = shard[0]
    if k == "pairs":
        run_pairs(acc, shard[1], shard[2], shard[3])
    elif k == "prefixes":
        run_prefixes(acc, shard[1], shard[2], shard[3])
    elif k == "triples":
        run_triples(acc, shard[1], tier)
    elif k == "spellpairs":
        run_spellpairs(acc, shard[1], shard[2], shard[3])
    elif k == "compound":
        run_compound(acc, shard[1], shard[2], shard[3], tier)
    elif k == "generated":
        run_generated(acc)
    elif k == "files-edited":
        run_files_edited(acc)
    elif k == "casei":
        run_casei(acc)
    elif k == "redef":
        drv = RedefDriver()
        first = None if shard[2] is None else tuple(shard[2])
        explore.explore(drv, acc, shard[1], roots=[()] if first is None else [(first,)], oracle_on="all")
    else:
        raise core.HarnessError(str(shard))


def replay(rec):
    """Histories matter here (cold / swapped / warm, sibling cache keys), so the replay re-runs the
    enclosing shard and reports whether the recorded site shows again."""
    site, case = rec["site"], rec["case"]
    nt = case.get("nt", "Fraction")
    tier = rec.get("tier", "quick")
    acc = core.Acc(PROPERTY)
    if site[0] == "files-edited":
        run_files_edited(acc)
    elif site[0] == "case-insensitive":
        run_casei(acc)
    elif site[0] == "redefined":
        drv = RedefDriver()
        hist = tuple(tuple(e) for e in case["history"])
        st, outs = explore.run_history(drv, hist)
        drv.oracle(acc, st, hist, outs)
    elif site[0] == "unit-pair":
        for b in range(4):
            run_pairs(acc, nt, b, 4)
    elif site[0] == "prefixed-spelling":
        for b in range(8):
            run_prefixes(acc, nt, b, 8)
    elif site[0] == "path":
        run_triples(acc, nt, tier)
    elif site[0] == "compound":
        for b in range(2):
            run_compound(acc, nt, b, 2, tier)
    elif site[0] == "generated":
        run_generated(acc)
    elif site[0] == "spelling-pair":
        for b in range(2):
            run_spellpairs(acc, nt, b, 2)
    sites = {tuple(v["site"]) for v in acc.violations}
    return tuple(site) in sites, {"sites_seen": sorted(sites)[:20]}


MANIFEST = {
    "category": "exploration",
    "technique": "bounded exhaustive enumeration of conversions against exact monomial arithmetic from an independent definition-file reader (R1); cold/swapped/warm query orders on one registry instance",
    "text": "Every ordered same-dimension pair of multiplicative canonical units (23k) in Fraction (exact equality, no float), float (<=64 ulp) and Decimal (1e-24) registries, each asked cold, after the "
    "swapped pair and warm; all 72 prefix spellings x all multiplicative unit spellings x {'', 's'} (130k strings) through get_root_units (factor = prefix x unit exactly once); identity, inverse and "
    "float ndarray magnitudes through to / m_as / convert / ito — twice on the same object, plainly and with a context named — with the source required to stay bit-identical; every ordered pair of spellings of ONE unit (name, symbol, aliases, plural, prefixed by name and by symbol) as single-entry containers (identity) and together in one container or plain dict (the square), through convert, Quantity.to and get_root_units; path independence on every triple within each dimension class; every ordered same-dimension pair of 1-2 entry compound containers over 12 units on ONE registry instance so that sibling cache keys "
    "(exponent -1 vs -2, swapped operands) meet; 75 generated definition files x 3 numeric types. The expected value is R1's exact ratio; result types are checked for float contamination.",
    "note": "Trusted: R1 monomial algebra (cross-checked: 0 disagreements with pint over all 402 units on the unchanged tree). Units reached through a fractional power are compared with tolerance even in "
    "the Fraction registry (Python turns Fraction**0.5 into float). Compounds with more than 2 factors and units outside the 12-unit alphabet in compound position are outside the bound.",
    "ref": "DESIGN.md §4 C02",
}
MANIFEST["text"] += ' Redefinitions: BFS to depth 4 (5 thorough) over 9 events (warm conversions, three registry.define() redefinitions of existing units, per-call / enabled / with-block use of a context that redefines nothing and one that overlays a unit) on a generated registry; after every history 16 probes (convert, Quantity.to, get_root_units, to_root_units) equal the exact ratio the independent reader derives from the text in force.'
MANIFEST["text"] += ' Integer ndarrays through ito / convert(inplace=True) / ito_root_units for every same-dimension pair: the right numbers or a refusal, never truncated values.'
MANIFEST["text"] += ' Files edited between two loads: a main file importing a second one through one disk-cache folder, 4 edit patterns (imported / main / both / none) x 3 numeric types x 6 probes x 4 APIs against the independent reader on the files as they are at the second load.'
MANIFEST["text"] += " Case-insensitive registries: every prefix spelling x 28 unit spellings, get_root_units / to_root_units against the reader's case-insensitive reading set."
