"""C07 — string expressions evaluate like ordinary arithmetic on quantities.

E1: ALL token strings up to a length bound over small alphabets.  Reference R3 = CPython's own
parser: the token list is rendered with explicit operators (juxtaposition -> '*', '^' -> '**'),
ast.parse'd, and the tree is evaluated with Python operators on exactly the objects pint builds
for the leaves.  pint must return an equal value, raise the same exception class, or — when
CPython rejects the string — not return a value at all.  Spelling variants (no/double spaces,
juxtaposition, ^, unicode superscripts, per, squared/cubed/square/sq/cubic) are generated as
token-level inverse images of pint's documented preprocessing and must evaluate to the same value.
No-execution clause: all short strings over a hostile token alphabet under a sys.addaudithook
monitor and an attribute-access-recording sentinel."""
from __future__ import annotations

import ast
import itertools
import operator
import signal
import sys
from decimal import Decimal
from fractions import Fraction

from mc import core, regs

PROPERTY = "C07"
LEVEL = "exploration"
RULE = (
    "all token strings of length <= 6 (quick) / 7 (thorough) over {2,3,+,-,*,/,**,(,)} and <= 4 / 5 over that alphabet plus {m, s, //, ^, 0.5}, each with single, double and (where tokenisation is "
    "unchanged) no spaces; every applicable spelling rewrite of every extended-alphabet string; float / Fraction / Decimal registries and ParserHelper.from_string; all strings of length <= 3 / 4 over a "
    "22-token hostile alphabet under an audit hook; every three-operand tree X op Y op Z with operands {2, m, ohm-sign} x optional parentheses x optional superscript (2, -1) x optional leading minus, 9 operator spellings (+ - * / // ** ^ blank per) in a spaced and a tight layout. non-trivial = distinct string that CPython accepts after the literal rewrites (the others check the 'never yields a value' clause and are counted separately)"
)
ASSUMPTIONS = [
    "CPython's parser (ast.parse) defines Python precedence and associativity",
    "strings containing the token sequence + / - are pint's uncertainty operator and are left to C19; '%' is rewritten to 'percent' by the default registry's documented preprocessor and is not in the alphabet",
    "powers whose exact result would exceed ~1e6 bits are skipped on both sides (counted)",
]
SITE_GRAMMAR = "[clause, entry-point, failure-kind, registry numeric type]"

A1 = ["2", "3", "+", "-", "*", "/", "**", "(", ")"]
A2 = A1 + ["m", "s", "//", "^", "0.5"]
HOSTILE = ["__import__", "os", ".", "system", "(", ")", "'x'", "[", "]", "lambda", ":", ",", "=", ";", "@", "{", "}", "\n", "eval", "open", "`", "!"]

NIT = {"float": float, "Fraction": Fraction, "Decimal": Decimal}


class Skip(Exception):
    pass


class Hang(BaseException):
    pass


def _alarm(signum, frame):
    raise Hang()


def is_operand_end(t):
    return t == ")" or t[0].isalnum() or t[0] == "_"


def is_operand_start(t):
    return t == "(" or t[0].isalnum() or t[0] == "_"


def explicit(tokens):
    """token list -> Python source with explicit operators (the literal rewrites of the property)"""
    out = []
    for i, t in enumerate(tokens):
        if i and is_operand_end(tokens[i - 1]) and is_operand_start(t):
            out.append("*")
        out.append("**" if t == "^" else t)
    return " ".join(out)


def has_plus_minus(tokens):
    for i in range(len(tokens) - 1):
        if tokens[i] == "(" and tokens[i + 1] == ")":
            return True  # '()' is Python's empty tuple, not arithmetic: outside the property
    for i in range(len(tokens) - 2):
        if tokens[i] == "+" and tokens[i + 1] == "/" and tokens[i + 2] == "-":
            return True
    return False


BINOPS = {ast.Add: operator.add, ast.Sub: operator.sub, ast.Mult: operator.mul, ast.Div: operator.truediv, ast.FloorDiv: operator.floordiv, ast.Pow: operator.pow, ast.Mod: operator.mod}


def ref_eval(src, leaf_num, leaf_name):
    """('syntax',) | ('skip', why) | ('exc', class name) | ('ok', value)"""
    try:
        tree = ast.parse(src, mode="eval")
    except SyntaxError:
        return ("syntax",)
    except (ValueError, MemoryError, RecursionError):
        return ("skip", "unparsable")

    def ev(n):
        if isinstance(n, ast.Expression):
            return ev(n.body)
        if isinstance(n, ast.Constant):
            if isinstance(n.value, (int, float)) and not isinstance(n.value, bool):
                return leaf_num(ast.get_source_segment(src, n))
            raise Skip("constant")
        if isinstance(n, ast.Name):
            return leaf_name(n.id)
        if isinstance(n, ast.UnaryOp):
            v = ev(n.operand)
            if isinstance(n.op, ast.USub):
                # pint defines unary minus as multiplication by -1 (the same thing wherever __neg__ exists)
                return -v if hasattr(v, "__neg__") else v * -1
            if isinstance(n.op, ast.UAdd):
                return +v
            raise Skip("unary")
        if isinstance(n, ast.BinOp) and type(n.op) in BINOPS:
            l, r = ev(n.left), ev(n.right)
            if isinstance(n.op, ast.Pow):
                guard_pow(l, r)
            return BINOPS[type(n.op)](l, r)
        raise Skip(type(n).__name__)

    try:
        return ("ok", ev(tree))
    except Skip as e:
        return ("skip", str(e))
    except Hang:
        raise
    except RecursionError:
        return ("skip", "recursion")
    except Exception as e:  # noqa
        return ("exc", norm_exc(e))


def norm_exc(e):
    n = type(e).__name__
    if n in ("DivisionByZero", "InvalidOperation", "DivisionUndefined", "ZeroDivisionError"):
        return "ZeroDivisionError"
    return n


def guard_pow(base, exp):
    b = getattr(base, "magnitude", base)
    e = getattr(exp, "magnitude", exp)
    try:
        fb, fe = abs(float(b)), abs(float(e))
    except (TypeError, ValueError, OverflowError):
        raise Skip("big")
    if fe > 4096 or (fb > 1 and fe * (len(str(int(fb))) + 1) > 20000) or fb > 1e300:
        raise Skip("big power")
    if isinstance(b, Fraction) and (fe * max(len(str(b.numerator)), len(str(b.denominator))) > 20000):
        raise Skip("big power")


def equalish(a, b):
    """same value, same units; floats up to 1e-12 relative"""
    qa, qb = hasattr(a, "_units"), hasattr(b, "_units")
    if qa != qb:
        # a dimensionless quantity vs a plain number would be a type change worth flagging
        return False
    if qa:
        if dict(a._units) != dict(b._units):
            return False
        a, b = a._magnitude, b._magnitude
    if isinstance(a, complex) or isinstance(b, complex):
        return abs(complex(a) - complex(b)) <= 1e-12 * max(abs(complex(a)), abs(complex(b)), 1e-300)
    try:
        if a == b:
            return True
        fa, fb = float(a), float(b)
    except Exception:  # noqa
        return False
    if fa != fa and fb != fb:
        return True
    return abs(fa - fb) <= 1e-12 * max(abs(fa), abs(fb))


def exactness(v):
    m = getattr(v, "_magnitude", v)
    return type(m).__name__


def show(v):
    if hasattr(v, "_units"):
        return {"magnitude": repr(v._magnitude), "units": {k: str(x) for k, x in dict(v._units).items()}}
    return repr(v)


def pint_eval(fn, s):
    try:
        return ("ok", fn(s))
    except Hang:
        raise
    except RecursionError:
        return ("exc", "RecursionError")
    except Exception as e:  # noqa
        return ("exc", norm_exc(e))


# ----------------------------------------------------------------------------- rendering variants


def renderings(tokens):
    """(label, string) for the spacing variants whose tokenisation is unchanged"""
    yield "single", " ".join(tokens)
    yield "double", "  ".join(tokens)
    ok = True
    for a, b in zip(tokens, tokens[1:]):
        if (a[-1].isalnum() or a[-1] == ".") and (b[0].isalnum() or b[0] == "."):
            ok = False  # 2 3 -> 23, m s -> ms, 2 m is fine for pint but not for us to assume
        if a + b in ("**", "//", "***", "*//", "/**") or (a in ("*", "/") and b in ("*", "**", "/", "//")) or (a in ("**", "//") and b[0] in "*/"):
            ok = False
        if a[-1].isdigit() and b == "(":
            ok = False  # 2(3) is pint's parenthesised-uncertainty shorthand (C19)
    if ok and len(tokens) > 1:
        yield "none", "".join(tokens)


SUP = str.maketrans("0123456789-", "⁰¹²³⁴⁵⁶⁷⁸⁹⁻")


def spelling_variants(tokens):
    """token-level inverse images of the documented preprocessing; each must mean the same as `tokens`"""
    n = len(tokens)
    out = []
    for i, t in enumerate(tokens):
        # explicit '*' between operands -> juxtaposition
        if t == "*" and 0 < i < n - 1 and is_operand_end(tokens[i - 1]) and is_operand_start(tokens[i + 1]):
            if not (tokens[i - 1][0].isdigit() and tokens[i + 1] == "("):
                out.append(("juxtaposition", " ".join(tokens[:i] + tokens[i + 1 :])))
        if t == "**":
            out.append(("caret", " ".join(tokens[:i] + ["^"] + tokens[i + 1 :])))
        if t == "^":
            out.append(("doublestar", " ".join(tokens[:i] + ["**"] + tokens[i + 1 :])))
        if t == "/" and 0 < i < n - 1 and is_operand_end(tokens[i - 1]) and is_operand_start(tokens[i + 1]):
            out.append(("per", " ".join(tokens[:i]) + " per " + " ".join(tokens[i + 1 :])))
        if t in ("**", "^") and 0 < i < n - 1:
            ident = tokens[i - 1] in ("m", "s")
            lit = tokens[i + 1]
            complete = i + 2 >= n or tokens[i + 2] not in ("**", "^")
            if ident and lit in ("2", "3") and complete:
                word = {"2": "squared", "3": "cubed"}[lit]
                out.append((word, " ".join(tokens[: i - 1] + [tokens[i - 1] + " " + word] + tokens[i + 2 :])))
                pre = {"2": ["square", "sq"], "3": ["cubic"]}[lit]
                for w in pre:
                    out.append((w, " ".join(tokens[: i - 1] + [w + " " + tokens[i - 1]] + tokens[i + 2 :])))
            if lit in ("2", "3") and complete and is_operand_end(tokens[i - 1]):
                out.append(("superscript", " ".join(tokens[:i]) + lit.translate(SUP) + (" " if i + 2 < n else "") + " ".join(tokens[i + 2 :])))
                if i + 3 < n and tokens[i + 2] == "*" and is_operand_start(tokens[i + 3]):
                    # two rewrites at once: the exponent as a superscript AND the following '*' as a blank
                    out.append(("superscript+juxtaposition", " ".join(tokens[:i]) + lit.translate(SUP) + " " + " ".join(tokens[i + 3 :])))
            if lit == "-" and i + 2 < n and tokens[i + 2] in ("2", "3") and (i + 3 >= n or tokens[i + 3] not in ("**", "^")) and is_operand_end(tokens[i - 1]):
                out.append(("superscript", " ".join(tokens[:i]) + ("-" + tokens[i + 2]).translate(SUP) + (" " if i + 3 < n else "") + " ".join(tokens[i + 3 :])))
                if i + 4 < n and tokens[i + 3] == "*" and is_operand_start(tokens[i + 4]):
                    out.append(("superscript+juxtaposition", " ".join(tokens[:i]) + ("-" + tokens[i + 2]).translate(SUP) + " " + " ".join(tokens[i + 4 :])))
    return out


# ----------------------------------------------------------------------------- shards


def shards(tier, seed):
    out = []
    L1 = 6 if tier == "quick" else 7
    L2 = 4 if tier == "quick" else 5
    nts = ["float", "Fraction", "Decimal"]
    # numeric alphabet: first two tokens fix the shard (81 shards), float registry for the long sweep
    for t0 in A1:
        for t1 in A1:
            out.append(("strings", "A1", "float", L1, (t0, t1)))
    out.append(("strings", "A1", "float", 1, None))
    for nt in ("Fraction", "Decimal"):
        for t0 in A1:
            out.append(("strings", "A1", nt, L1 - 1, (t0,)))
    for nt in nts:
        for t0 in A2:
            out.append(("strings", "A2", nt, L2, (t0,)))
    for t0 in A2:
        out.append(("variants", "float", L2, (t0,)))
        out.append(("parserhelper", L2, (t0,)))
    LH = 3 if tier == "quick" else 4
    for t0 in HOSTILE:
        out.append(("hostile", LH, t0))
    out.append(("literals",))
    out.append(("isolation",))
    out.append(("aliasing",))
    for nt in nts:
        out.append(("exponents", nt))
    for i in range(len(operand_forms(True, True))):
        out.append(("trees", "float", i))
        if tier != "quick":
            out.append(("trees", "Fraction", i))
    return out


def token_strings(alpha, maxlen, prefix):
    if prefix is None:
        for t in alpha:
            yield [t]
        return
    k = len(prefix)
    for n in range(k, maxlen + 1):
        for rest in itertools.product(alpha, repeat=n - k):
            yield list(prefix) + list(rest)


OMEGA = "\u03a9"  # the symbol the definition file gives the ohm: a word character outside ASCII


def leafs(ureg, nt, names=None):
    T = NIT[nt]

    def leaf_num(text):
        if nt == "float":
            try:
                return int(text)
            except ValueError:
                return float(text)
        return T(text)

    units = names or {"m": "meter", "s": "second", OMEGA: "ohm", "km": "kilometer", "min": "minute", "percent": "percent", "deg": "degree", "cm": "centimeter"}

    def leaf_name(name):
        if name not in units:
            raise Skip("name")
        return ureg.Quantity(1, ureg.UnitsContainer({units[name]: 1}))

    return leaf_num, leaf_name


def compare(acc, clause, entry, nt, tokens, s, ref, got):
    case = {"registry": nt, "tokens": tokens, "string": s}
    if ref[0] == "syntax":
        acc.outcome("cpython-rejects")
        if got[0] == "ok":
            acc.violation([clause, entry, "yields-a-value-for-a-string-python-rejects", nt], case, "an error", show(got[1]))
        return
    if ref[0] == "exc":
        acc.outcome("both-raise" if got[0] == "exc" else "mismatch")
        if got[0] != "exc":
            acc.violation([clause, entry, "returns-a-value-where-python-raises", nt], case, ref[1], show(got[1]))
        elif got[1] != ref[1] and not ({got[1], ref[1]} <= {"ZeroDivisionError", "OverflowError"}):
            acc.violation([clause, entry, "different-exception-class", nt], case, ref[1], got[1])
        return
    acc.outcome("value")
    if got[0] != "ok":
        acc.violation([clause, entry, "raises-on-a-valid-expression", nt], case, show(ref[1]), got[1])
    elif not equalish(ref[1], got[1]):
        acc.violation([clause, entry, "differs-from-python-evaluation", nt], case, show(ref[1]), show(got[1]))
    elif nt != "float" and exactness(got[1]) == "float" and exactness(ref[1]) != "float":
        acc.violation([clause, entry, "float-contamination", nt], case, exactness(ref[1]), exactness(got[1]))


def run_strings(acc, alpha_name, nt, maxlen, prefix):
    ureg = regs.default(nt)
    alpha = A1 if alpha_name == "A1" else A2
    leaf_num, leaf_name = leafs(ureg, nt)
    signal.signal(signal.SIGVTALRM, _alarm)
    skipped = 0
    for tokens in token_strings(alpha, maxlen, prefix):
        if has_plus_minus(tokens):
            skipped += 1
            continue
        src = explicit(tokens)
        signal.setitimer(signal.ITIMER_VIRTUAL, 20)
        try:
            ref = ref_eval(src, leaf_num, leaf_name)
            if ref[0] == "skip":
                skipped += 1
                continue
            if ref[0] == "ok" or ref[0] == "exc":
                acc.nt((alpha_name, nt, src))
            for label, s in renderings(tokens):
                acc.ev()
                got = pint_eval(ureg.parse_expression, s)
                compare(acc, "token-string", "parse_expression", nt, tokens, s, ref, got)
        except Hang:
            acc.violation(["token-string", "parse_expression", "does-not-terminate", nt], {"registry": nt, "tokens": tokens}, "termination", "timeout 20 s")
        finally:
            signal.setitimer(signal.ITIMER_VIRTUAL, 0)
    acc.count("strings skipped (+/- operator, guard, unsupported node)", skipped)
    acc.sample({"clause": "token-string", "alphabet": alpha_name, "registry": nt, "tokens": (list(prefix) if prefix else []) + ["**", "-", "2"], "python_source": explicit((list(prefix) if prefix else []) + ["**", "-", "2"])})


def run_variants(acc, nt, maxlen, prefix):
    ureg = regs.default(nt)
    leaf_num, leaf_name = leafs(ureg, nt)
    signal.signal(signal.SIGVTALRM, _alarm)
    for tokens in token_strings(A2, maxlen, prefix):
        if has_plus_minus(tokens):
            continue
        vs = spelling_variants(tokens)
        if not vs:
            continue
        signal.setitimer(signal.ITIMER_VIRTUAL, 20)
        try:
            ref = ref_eval(explicit(tokens), leaf_num, leaf_name)
            if ref[0] in ("skip", "syntax"):
                continue
            for label, s in vs:
                acc.ev()
                acc.nt(("variant", label, s))
                got = pint_eval(ureg.parse_expression, s)
                compare(acc, "spelling-variant:" + label, "parse_expression", nt, tokens, s, ref, got)
                # Quantity(str) goes through the same evaluator
                if ref[0] == "ok" and len(tokens) <= 3:
                    got2 = pint_eval(lambda x: ureg.Quantity(x), s)
                    if got2[0] == "ok" and not hasattr(ref[1], "_units"):
                        got2 = ("ok", got2[1].magnitude if dict(got2[1]._units) == {} else got2[1])
                    compare(acc, "spelling-variant:" + label, "Quantity(str)", nt, tokens, s, ref, got2)
        except Hang:
            acc.violation(["spelling-variant", "parse_expression", "does-not-terminate", nt], {"tokens": tokens}, "termination", "timeout")
        finally:
            signal.setitimer(signal.ITIMER_VIRTUAL, 0)
    acc.sample({"clause": "spelling-variant", "tokens": ["m", "**", "2", "/", "s"], "variants": [v for _, v in spelling_variants(["m", "**", "2", "/", "s"])]})
    # the same sweep with a unit whose symbol is a non-ASCII word character (s -> the ohm sign): the
    # rewrites are defined on "words", and a word is not only [A-Za-z0-9_]
    leaf_num, leaf_name = leafs(ureg, nt, {"m": "meter", "s": "ohm"})
    for tokens in token_strings(A2, maxlen, prefix):
        if has_plus_minus(tokens) or "s" not in tokens:
            continue
        signal.setitimer(signal.ITIMER_VIRTUAL, 20)
        try:
            ref = ref_eval(explicit(tokens), leaf_num, leaf_name)
            if ref[0] in ("skip", "syntax"):
                continue
            utok = [OMEGA if t == "s" else t for t in tokens]
            vs = [(lab, st.replace("s", OMEGA)) for lab, st in spelling_variants(tokens) if "squared" not in st and "square" not in st and "sq " not in st and "cubed" not in st and "cubic" not in st]
            for label, st in list(renderings(utok)) + vs:
                acc.ev()
                acc.nt(("unicode-name", label, st))
                got = pint_eval(ureg.parse_expression, st)
                compare(acc, "unicode-name:" + label, "parse_expression", nt, utok, st, ref, got)
        except Hang:
            acc.violation(["unicode-name", "parse_expression", "does-not-terminate", nt], {"tokens": tokens}, "termination", "timeout")
        finally:
            signal.setitimer(signal.ITIMER_VIRTUAL, 0)


# ----------------------------------------------------------------------------- three-operand trees x every spelling

T_BASE = ("2", "m", OMEGA)
T_POST = (("", ""), ("\u00b2", "**(2)"), ("\u207b\u00b9", "**(-1)"))  # a superscript is one parenthesised exponent
T_OPS = (("+", "+"), ("-", "-"), ("*", "*"), ("/", "/"), ("//", "//"), ("**", "**"), ("^", "**"), ("", "*"), ("per", "/"))


def operand_forms(unary, post):
    """(pint text, python text) of one operand: optional unary minus, optional parentheses, optional superscript exponent"""
    out = []
    for u in (("", "-") if unary else ("",)):
        for b in T_BASE:
            for par in (False, True):
                for ptxt, ppy in (T_POST if post else T_POST[:1]):
                    core_p = f"({b})" if par else b
                    out.append((u + core_p + ptxt, u + core_p + ppy))
    return out


def tree_strings(first, tier):
    """every X op Y op Z for the operand forms of the tier, in a spaced and a tight layout"""
    second = operand_forms(tier != "quick", True)
    third = operand_forms(False, tier != "quick")
    for o1, p1 in T_OPS:
        for y, ypy in second:
            if o1 in ("", "per") and y.startswith("-"):
                continue  # 'm -2' is a subtraction, not juxtaposition with a negative number
            if o1 == "" and first[0][-1].isdigit() and y.startswith("("):
                continue  # 2 (3) is the parenthesised-uncertainty shorthand (C19)
            for o2, p2 in T_OPS:
                for z, zpy in third:
                    if o2 == "" and y[-1].isdigit() and z.startswith("("):
                        continue
                    py = f"{first[1]} {p1} {ypy} {p2} {zpy}"
                    for layout in ("spaced", "tight"):
                        parts = [first[0]]
                        for o, t in ((o1, y), (o2, z)):
                            if o == "":
                                parts.append(" " + t)
                            elif o == "per" or layout == "spaced":
                                parts.append(" " + o + " " + t)
                            else:
                                parts.append(o + t)
                        yield layout, "".join(parts), py


def run_trees(acc, nt, tier, idx):
    ureg = regs.default(nt)
    leaf_num, leaf_name = leafs(ureg, nt)
    firsts = operand_forms(True, True)
    first = firsts[idx]
    signal.signal(signal.SIGVTALRM, _alarm)
    acc.dim("first-operand forms", len(firsts))
    cache = {}
    for layout, st, py in tree_strings(first, tier):
        signal.setitimer(signal.ITIMER_VIRTUAL, 20)
        try:
            if py not in cache:
                cache[py] = ref_eval(py, leaf_num, leaf_name)
            ref = cache[py]
            if ref[0] in ("skip", "syntax"):
                acc.count("trees skipped (guard)")
                continue
            acc.ev()
            acc.nt(("tree", nt, st))
            got = pint_eval(ureg.parse_expression, st)
            compare(acc, "tree:" + layout, "parse_expression", nt, {"python": py}, st, ref, got)
        except Hang:
            acc.violation(["tree", "parse_expression", "does-not-terminate", nt], {"string": st}, "termination", "timeout")
        finally:
            signal.setitimer(signal.ITIMER_VIRTUAL, 0)
    acc.sample({"clause": "tree", "registry": nt, "first": first[0], "example": "6/\u03a9 (3)  ==  6 / \u03a9 * (3)"})


# ----------------------------------------------------------------------------- exponents that are quantities

EXP_BASES = ["1.001", "4", "m", "2 m", "(3 s)", "km"]
EXP_EXPONENTS = ["(km / m)", "(min / s)", "(m / m)", "(s / min)", "(50 percent)", "(2 m / m)", "(cm / m)", "(200 cm / m)", "(2)", "(m)", "(2 km / m / 1000)", "(1 deg / deg)", "(0 km / m)"]


def run_exponents(acc, nt):
    """a ** b where b is itself a quantity expression: like Python on the quantities — a dimensionless exponent counts with its
    VALUE (km / m is 1000, 50 percent is 0.5), a dimensional one is refused"""
    ureg = regs.default(nt)
    leaf_num, leaf_name = leafs(ureg, nt)
    signal.signal(signal.SIGVTALRM, _alarm)
    for b, e, (opw, oppy) in itertools.product(EXP_BASES, EXP_EXPONENTS, (("**", "**"), ("^", "**"))):
        st = f"{b} {opw} {e}"
        py = explicit_source(f"{b} {oppy} {e}")
        signal.setitimer(signal.ITIMER_VIRTUAL, 20)
        try:
            ref = ref_eval(py, leaf_num, leaf_name)
            if ref[0] in ("skip", "syntax"):
                acc.count("exponent strings skipped (guard)")
                continue
            acc.ev()
            acc.nt(("exponent", nt, st))
            got = pint_eval(ureg.parse_expression, st)
            compare(acc, "tree:exponent", "parse_expression", nt, {"python": py}, st, ref, got)
        except Hang:
            acc.violation(["tree", "parse_expression", "does-not-terminate", nt], {"string": st}, "termination", "timeout")
        finally:
            signal.setitimer(signal.ITIMER_VIRTUAL, 0)
    acc.sample({"clause": "tree:exponent", "registry": nt, "string": "1.001 ** (km / m)", "python": "1.001 ** (km / m)  with km, m the unit quantities"})


def explicit_source(s):
    """implicit multiplication between a number and a name written out ('2 m' -> '2 * m', '50 percent' -> '50 * percent')"""
    import re
    return re.sub(r"(\d)\s+([A-Za-z(])", r"\1 * \2", s)


# ----------------------------------------------------------------------------- preprocessors belong to one registry

ISO_STRINGS = ["5 m-2 m", "2 m", "m s", "3 m**2", "2**3 m", "m/s", "2 m - 3 m", "m^2", "4 s m-1", "m2", "2 m+3", "m-2", "1 m-1 s"]


def run_isolation(acc):
    """a preprocessor given to one registry (at construction or by appending to its list) rewrites the input of THAT
    registry only: every order of {build plain A, build B with a preprocessor, append one to B, build plain C, build D
    with another preprocessor}, and after each step every plain registry built so far parses the probe strings as a
    lone plain registry does"""
    import re

    pint = core.boot()

    def udunits(x):  # UDUNITS-style exponents: m2 -> m**2, m-1 -> m**-1 (the example of pint's documentation)
        return re.sub(r"(?<=[A-Za-z])(?![A-Za-z])(?<![0-9\-][eE])(?<![0-9\-])(?=[0-9\-])", "**", x)

    def swap(x):  # harmless for unit names (a registry also runs its preprocessors while it loads its systems)
        return x.replace("2 m", "20 m")

    def observe(reg):
        out = []
        for st in ISO_STRINGS:
            o = pint_eval(reg.parse_expression, st)
            out.append((st, (o[0], show(o[1])) if o[0] == "ok" else o))
        return out

    lines = ["meter = [length] = m", "second = [time] = s"]

    def build(**kw):
        return regs.tiny(lines, non_int_type="float", **kw)

    lone = observe(build())
    steps = ["plain A", "B(preprocessors=[udunits])", "B.preprocessors.append(swap)", "plain C", "D(preprocessors=[swap])"]
    for order in itertools.permutations(range(len(steps))):
        if order.index(2) < order.index(1):
            continue  # B has to exist before it is appended to
        regs_, plain, hist = {}, [], []
        for i in order:
            hist.append(steps[i])
            if i == 0:
                regs_["A"] = build(); plain.append("A")
            elif i == 1:
                regs_["B"] = build(preprocessors=[udunits])
            elif i == 2:
                regs_["B"].preprocessors.append(swap)
            elif i == 3:
                regs_["C"] = build(); plain.append("C")
            else:
                regs_["D"] = build(preprocessors=[swap])
            for name in plain:
                acc.ev()
                acc.nt(("isolation", order, len(hist), name))
                got = observe(regs_[name])
                for (st, g), (_, w) in zip(got, lone):
                    if g != w:
                        acc.violation(["isolation", "parse_expression", "preprocessor-of-another-registry-applied", "plain-registry"], {"history": list(hist), "registry": name, "string": st}, w, g)
                        break
    # ... and B itself does apply its own
    b = build(preprocessors=[udunits])
    o = pint_eval(b.parse_expression, "4 s m-1")
    acc.ev()
    if o[0] != "ok" or dict(o[1]._units) != {"second": 1, "meter": -1}:
        acc.violation(["isolation", "parse_expression", "own-preprocessor-not-applied", "configured-registry"], {"string": "4 s m-1"}, "4 s/m", show(o[1]) if o[0] == "ok" else o)
    acc.outcome("isolation")
    acc.sample({"clause": "isolation", "history": steps, "probe": ISO_STRINGS[0], "expected": "3 m in every registry that was given no preprocessor"})


# ----------------------------------------------------------------------------- what a parse returns belongs to the caller

ALIAS_STRINGS = ["km", "m", "(s)", "+m", "-s", "degC", "m s", "km/s", "2 m", "m**2", "ms", "kilometer", "1 m", "m/m"]


def run_aliasing(acc):
    """the value of an expression does not depend on what a caller did with the result of an earlier parse: for every
    probe string and every entry point, the first result is changed in place (ito, *=, a write into its array) and the
    string is parsed again — in a plain registry and in one that keeps magnitudes in ndarrays"""
    for regname, kw in (("plain", {}), ("force_ndarray", {"force_ndarray": True})):
        reg = regs.default("float", fresh=True, **kw)
        entries = {"parse_expression": reg.parse_expression, "__call__": reg, "Quantity(str)": lambda x: reg.Quantity(x), "parse_units": lambda x: reg.Quantity(1.0, reg.parse_units(x))}
        for st in ALIAS_STRINGS:
            for ename, fn in entries.items():
                if ename == "parse_units" and st[0] in "+-12(":
                    continue
                first = pint_eval(fn, st)
                if first[0] != "ok" or not hasattr(first[1], "_units"):
                    continue
                before = show(first[1])
                for mname, mut in (("ito_root_units", lambda q: q.ito_root_units()), ("*= 5", lambda q: q.__imul__(5)), ("ito(kelvin|mm)", lambda q: q.ito("kelvin" if "degC" in st else "millimeter")), ("buffer write", lambda q: q._magnitude.__setitem__(Ellipsis, 99.0))):
                    acc.ev()
                    acc.nt(("aliasing", regname, ename, st, mname))
                    r1 = pint_eval(fn, st)
                    if r1[0] != "ok":
                        break
                    if pint_eval(lambda _: mut(r1[1]), "")[0] != "ok":
                        continue
                    again = pint_eval(fn, st)
                    if again[0] != "ok" or show(again[1]) != before or again[1] is r1[1]:
                        acc.violation(["aliasing", ename, "parse-result-depends-on-what-was-done-with-an-earlier-result", regname], {"registry": regname, "string": st, "mutation_of_the_first_result": mname}, before, show(again[1]) if again[0] == "ok" else again)
                        break
    acc.outcome("aliasing")
    acc.sample({"clause": "aliasing", "string": "km", "history": ["d = ureg('km')", "d.ito('m')", "ureg('km')"], "expected": "1 kilometer"})


def run_parserhelper(acc, maxlen, prefix):
    """ParserHelper.from_string over the names-and-numbers sub-language (no + -)"""
    from pint.util import ParserHelper

    alpha = [t for t in A2 if t not in ("+", "-", "//")] + ["-"]
    signal.signal(signal.SIGVTALRM, _alarm)
    for nt in ("float", "Fraction"):
        T = NIT[nt]

        def leaf_num(text):
            if nt == "float":
                try:
                    return int(text)
                except ValueError:
                    return float(text)
            return T(text)

        def leaf_name(name):
            return ParserHelper.from_word(name, non_int_type=T)

        for tokens in token_strings(alpha, maxlen - 1, prefix if prefix[0] in alpha else None):
            if prefix[0] not in alpha:
                break
            src = explicit(tokens)
            ref = ref_eval(src, leaf_num, leaf_name)
            if ref[0] == "skip":
                continue
            acc.ev()
            regs.clear_process_caches()
            s = " ".join(tokens)
            got = pint_eval(lambda x: ParserHelper.from_string(x, T), s)
            case = {"registry": nt, "tokens": tokens, "string": s}
            if ref[0] == "syntax":
                if got[0] == "ok":
                    acc.violation(["token-string", "ParserHelper.from_string", "yields-a-value-for-a-string-python-rejects", nt], case, "an error", repr(got[1]))
                continue
            acc.nt(("ph", nt, s))
            if ref[0] == "exc":
                if got[0] == "ok":
                    acc.violation(["token-string", "ParserHelper.from_string", "returns-a-value-where-python-raises", nt], case, ref[1], repr(got[1]))
                continue
            r = ref[1]
            if not isinstance(r, ParserHelper):
                r = ParserHelper(r, non_int_type=T)
            if got[0] != "ok":
                acc.violation(["token-string", "ParserHelper.from_string", "raises-on-a-valid-expression", nt], case, repr(r), got[1])
            else:
                g = got[1]
                same = dict(g) == dict(r) and (g.scale == r.scale or abs(float(g.scale) - float(r.scale)) <= 1e-12 * abs(float(r.scale)))
                if not same:
                    acc.violation(["token-string", "ParserHelper.from_string", "differs-from-python-evaluation", nt], case, repr(r), repr(g))
    acc.sample({"clause": "token-string", "entry": "ParserHelper.from_string", "tokens": ["2", "m", "**", "-", "2"]})


def run_literals(acc):
    """numeric literals keep the registry's numeric type; integers stay integers"""
    lits = ["2", "0", "10", "007" if False else "7", "0.5", "2.", ".5", "1e3", "1.5e-3", "2E2", "1_000"]
    for nt in ("float", "Fraction", "Decimal"):
        ureg = regs.default(nt)
        T = NIT[nt]
        for lit in lits:
            for s, unit in ((lit, None), (lit + " m", "meter"), (lit + "*m", "meter")):
                acc.ev()
                acc.nt(("literal", nt, s))
                got = pint_eval(ureg.parse_expression, s)
                isint = lit.replace("_", "").isdigit()
                want = (int(lit.replace("_", "")) if nt == "float" or True else None) if isint else (float(lit) if nt == "float" else T(lit))
                case = {"registry": nt, "string": s}
                if got[0] != "ok":
                    acc.violation(["literal", "parse_expression", "raises-on-a-valid-expression", nt], case, repr(want), got[1])
                    continue
                m = getattr(got[1], "_magnitude", got[1])
                if m != want:
                    acc.violation(["literal", "parse_expression", "wrong-value", nt], case, repr(want), repr(m))
                elif isint and nt == "float" and type(m) is not int:
                    acc.violation(["literal", "parse_expression", "integer-literal-not-int", nt], case, "int", type(m).__name__)
                elif isint and nt != "float" and not isinstance(m, (int, T)):
                    acc.violation(["literal", "parse_expression", "integer-literal-contaminated", nt], case, f"int or {nt}", type(m).__name__)
                elif not isint and type(m) is not T:
                    acc.violation(["literal", "parse_expression", "non-integer-literal-not-of-registry-type", nt], case, nt, type(m).__name__)
    acc.sample({"clause": "literal", "literals": lits})


# ----------------------------------------------------------------------------- no-execution clause


class Sentinel:
    """records every attribute anybody asks of it"""

    def __init__(self):
        object.__setattr__(self, "log", [])

    def __getattr__(self, name):
        object.__getattribute__(self, "log").append(name)
        raise AttributeError(name)


_audit_log = None
_audit_installed = False
FORBIDDEN_PREFIX = ("exec", "compile", "import", "open", "os.", "subprocess.", "socket.", "ctypes.", "shutil.", "builtins.input", "code.", "marshal.", "pickle.", "sys.settrace", "sys.setprofile", "urllib.", "webbrowser.", "glob.", "pathlib.", "tempfile.")


def _hook(event, args):
    if _audit_log is not None and event.startswith(FORBIDDEN_PREFIX):
        if event == "open" and args and isinstance(args[0], str) and args[0].startswith("<") and args[0].endswith(">"):
            return  # linecache probing the pseudo-file '<string>' while a tokenizer SyntaxError is built
        _audit_log.append(event + ":" + repr(args[:1])[:80])


def run_hostile(acc, maxlen, t0):
    global _audit_log, _audit_installed
    ureg = regs.default("float")
    # warm every lazily imported module / compiled regex before monitoring
    for w in ("2 m", "m²", "2 per s", "(1 +/- 2) m", "x"):
        try:
            ureg.parse_expression(w, x=1)
        except Exception:  # noqa
            pass
    if not _audit_installed:
        sys.addaudithook(_hook)
        _audit_installed = True
    marker = object()
    for n in range(1, maxlen + 1):
        for rest in itertools.product(HOSTILE, repeat=n - 1):
            tokens = [t0] + list(rest)
            s = " ".join(tokens)
            sent = Sentinel()
            _audit_log = []
            acc.ev()
            acc.nt(("hostile", s))
            try:
                r = ureg.parse_expression(s, os=sent, system=sent)
                out = "value"
            except BaseException as e:  # noqa
                r = None
                out = type(e).__name__
                if isinstance(e, (SystemExit, KeyboardInterrupt)):
                    acc.violation(["no-execution", "parse_expression", "string-caused-" + out], {"string": s}, "arithmetic and lookups only", out)
            events = list(_audit_log)
            _audit_log = None
            acc.outcome(out)
            if events:
                acc.violation(["no-execution", "parse_expression", "audit-event-during-parsing", events[0].split(".")[0]], {"string": s}, "no exec/compile/import/open/os/subprocess/socket events", events[:5])
            # attribute access on caller-supplied values beyond what building a Quantity needs
            leaked = [a for a in sent.log if a in ("system", "popen", "x", "__import__", "eval", "open")]
            if leaked:
                acc.violation(["no-execution", "parse_expression", "attribute-access-on-user-value"], {"string": s}, "no attribute lookups driven by the string", leaked)
    acc.sample({"clause": "no-execution", "string": " ".join([t0, ".", "system", "("][:maxlen])})


def run_shard(acc, shard, tier, seed):
    k = shard[0]
    if k == "strings":
        run_strings(acc, shard[1], shard[2], shard[3], shard[4])
    elif k == "variants":
        run_variants(acc, shard[1], shard[2], shard[3])
    elif k == "parserhelper":
        run_parserhelper(acc, shard[1], shard[2])
    elif k == "hostile":
        run_hostile(acc, shard[1], shard[2])
    elif k == "literals":
        run_literals(acc)
    elif k == "trees":
        run_trees(acc, shard[1], tier, shard[2])
    elif k == "isolation":
        run_isolation(acc)
    elif k == "aliasing":
        run_aliasing(acc)
    elif k == "exponents":
        run_exponents(acc, shard[1])
    else:
        raise core.HarnessError(str(shard))


def replay(rec):
    site, case = rec["site"], rec["case"]
    acc = core.Acc(PROPERTY)
    nt = case.get("registry", "float")
    if site[0] == "isolation":
        run_isolation(acc)
    elif site[0] == "aliasing":
        run_aliasing(acc)
    elif site[0] == "no-execution":
        toks = case["string"].split(" ")
        run_hostile(acc, len(toks), toks[0])
    elif site[0] == "literal":
        run_literals(acc)
    elif site[1] == "ParserHelper.from_string":
        run_parserhelper(acc, len(case["tokens"]) + 1, (case["tokens"][0],))
    else:
        ureg = regs.default(nt)
        leaf_num, leaf_name = leafs(ureg, nt)
        tokens = case["tokens"]
        ref = ref_eval(tokens["python"] if isinstance(tokens, dict) else explicit(tokens), leaf_num, leaf_name)
        s = case["string"]
        fn = ureg.parse_expression if site[1] == "parse_expression" else (lambda x: ureg.Quantity(x))
        got = pint_eval(fn, s)
        if site[1] == "Quantity(str)" and got[0] == "ok" and ref[0] == "ok" and not hasattr(ref[1], "_units") and dict(got[1]._units) == {}:
            got = ("ok", got[1].magnitude)
        compare(acc, site[0], site[1], nt, tokens, s, ref, got)
        if tuple(site) not in {tuple(v["site"]) for v in acc.violations}:
            # the answer may depend on what the process did before (registries built earlier in the same worker): redo
            # that history — the isolation and aliasing clauses — and ask again
            scratch = core.Acc(PROPERTY)
            run_isolation(scratch)
            run_aliasing(scratch)
            got = pint_eval(fn, s)
            if site[1] == "Quantity(str)" and got[0] == "ok" and ref[0] == "ok" and not hasattr(ref[1], "_units") and dict(got[1]._units) == {}:
                got = ("ok", got[1].magnitude)
            compare(acc, site[0], site[1], nt, tokens, s, ref, got)
    sites = {tuple(v["site"]) for v in acc.violations}
    return tuple(site) in sites, {"sites_seen": sorted(sites)[:20]}


MANIFEST = {
    "category": "exploration",
    "technique": "bounded exhaustive enumeration of token strings and their spelling variants, differential against CPython's parser (ast.parse) with Python operators on the same leaf objects; audit-hook monitor for the no-execution clause",
    "text": "Every token string up to length 6 (7 thorough) over {2,3,+,-,*,/,**,(,)} and up to length 4 (5) over that plus {m,s,//,^,0.5} is parsed by pint in three spacings and compared with CPython's own "
    "parse of the explicit-operator rendering, evaluated with Python operators on exactly the leaf objects pint builds: equal value and units, same exception class, or — when CPython rejects the string — no "
    "value. This decides precedence, associativity (** right-assoc, tighter than unary minus), juxtaposition == '*', unbalanced parentheses and dangling operators exhaustively within the bound. Every "
    "applicable inverse image of the documented preprocessing (juxtaposition, ^, unicode superscripts, per, squared/cubed/square/sq/cubic) of every extended string must give the same value; float, Fraction and "
    "Decimal registries, Quantity(str) and ParserHelper.from_string; the same sweep with a unit whose symbol is a non-ASCII word character; pairs of rewrites at once (superscript + blank); every three-operand tree X op Y op Z "
    "(operands 2 / m / ohm-sign, bare or parenthesised, with or without a superscript exponent and a leading minus; 9 operator spellings incl. blank and 'per'; spaced and tight layouts: 0.6M strings quick, 7.6M thorough) against "
    "CPython; what a parse returns belongs to the caller (14 probe strings x 4 entry points x 4 in-place changes of the first result, plain and force_ndarray registries: the next parse is unaffected); preprocessors stay with their registry (every order of building plain registries, registries with a preprocessor and appending one; plain registries must keep parsing 13 probe strings unchanged); literal typing; all strings up to length 3 (4) over a 22-token hostile alphabet under sys.addaudithook with attribute-recording sentinels.",
    "note": "Trusted: CPython's parser as the definition of Python precedence; the 6 literal rewrite rules. Not covered: strings longer than the bound, arbitrary unicode fuzz (sampling family), the +/- "
    "uncertainty operator (C19), '%' (rewritten to 'percent' by the default preprocessor). Powers beyond ~1e6 bits are skipped on both sides.",
    "ref": "DESIGN.md §4 C07",
}
MANIFEST["text"] += ' Quantity-valued exponents: 6 bases x 13 exponent expressions (km / m, min / s, 50 percent, 2 m / m, a dimensional one, ...) x ** and ^ x 3 registries against Python evaluation on the quantities.'
