"""C19 — measurements carry uncertainty consistently through conversion and arithmetic.

E1: values x errors x constructor forms (accessors, negative errors); every ordered pair of 9 units
(offset units included) x values x errors (nominal like a plain quantity, standard deviation times
the slope, relative error invariant under multiplicative conversion); depth-1 arithmetic over
measurement / quantity / number operands plus the correlated cases ((a+b)-a, (a*b)/a, a.to(u)-a);
every notation of the uncertainty grammar (generated: sign, exponent, +/- and ±, parenthesised,
(v +/- e)eN, v(e), v(e)eN, leading-zero exponents, nan, with and without unit and spaces); every
measurement format spec rendered and parsed back."""
from __future__ import annotations

import itertools
import math
from fractions import Fraction

from mc import core, regs
from mc.ref import defs

PROPERTY = "C19"
LEVEL = "exploration"
RULE = (
    "constructors: 5 values x 4 errors x 6 forms; conversions: 9x9 ordered unit pairs x 3 values x 3 errors; arithmetic: 5 operators x {M,Q,N}^2 operand kinds x 2 value pairs + 8 correlated expressions x 3 unit "
    "spellings; notations: the generated uncertainty grammar (about 1500 strings: 4 values x 3 errors x 5 forms x exponents {none, e3, e-3, e+03, e-03} x {+/-, ±} x unit {none, m, km/h} x spacing); formats: 9 "
    "measurements x 14 specs with parse-back for the plain ones. non-trivial = distinct case key"
)
ASSUMPTIONS = [
    "first-order propagation formulas are written out here independently of the `uncertainties` package (which is otherwise trusted as pint's arithmetic engine)",
    "v(e) is the concise notation of the GUM / CODATA tables: e counts units of the last digit of v",
    "float comparisons use relative tolerance 1e-12 (1e-9 after a unit conversion through float factors)",
]
SITE_GRAMMAR = "[clause, api-or-operator, failure-kind, detail]"


def call(fn):
    try:
        return ("ok", fn())
    except Exception as e:  # noqa
        return ("exc", type(e).__name__)


def close(a, b, rel=1e-12):
    if a != a and b != b:
        return True
    if a == b:
        return True
    return abs(a - b) <= rel * max(abs(a), abs(b), 1e-300)


def nominal(q):
    m = q.magnitude
    return m.nominal_value if hasattr(m, "nominal_value") else float(m)


def stddev(q):
    m = q.magnitude
    return m.std_dev if hasattr(m, "std_dev") else 0.0


# ----------------------------------------------------------------------------- constructors

VALUES = [0.0, 1.0, -2.5, 1234.5, 1e-7]
ERRORS = [0.0, 0.1, 3.0, 1e-9]


def run_constructors(acc):
    from uncertainties import ufloat

    ureg = regs.default("float")
    Q, Meas = ureg.Quantity, ureg.Measurement
    for v, e in itertools.product(VALUES, ERRORS):
        forms = {
            "Measurement(Q, Q)": lambda: Meas(Q(v, "meter"), Q(e, "meter")),
            "Measurement(Q, Q other unit)": lambda: Meas(Q(v, "meter"), Q(e * 100, "centimeter")),
            "Measurement(v, e, unit)": lambda: Meas(v, e, "meter"),
            "Measurement(ufloat, unit)": lambda: Meas(ufloat(v, e), "meter"),
            "plus_minus(abs)": lambda: Q(v, "meter").plus_minus(e),
            "plus_minus(rel)": lambda: Q(v, "meter").plus_minus(e / abs(v) if v else 0.0, relative=True),
        }
        for name, fn in forms.items():
            acc.ev()
            acc.nt(("ctor", name, v, e))
            o = call(fn)
            case = {"form": name, "value": v, "error": e}
            if o[0] != "ok":
                acc.violation(["constructor", name, "raises", o[1]], case, "a measurement", o[1])
                continue
            m = o[1]
            we = e if not (name == "plus_minus(rel)" and v == 0) else 0.0
            tol = 1e-12 if "other unit" not in name and "rel" not in name else 1e-9
            ok = dict(m._units) == {"meter": 1} and close(m.value.magnitude, v) and close(m.error.magnitude, we, tol) and dict(m.value._units) == {"meter": 1} and dict(m.error._units) == {"meter": 1}
            if not ok:
                acc.violation(["constructor", name, "accessors-do-not-report-what-was-given", ""], case, [v, we, "meter"], [repr(m)])
            if v != 0:
                r = call(lambda: m.rel)
                if r[0] != "ok" or not close(r[1], abs(we / v), tol):
                    acc.violation(["constructor", name, "rel-is-not-error-over-value", ""], case, abs(we / v), repr(r))
        acc.outcome("constructors")
    # negative errors are rejected
    for name, fn in {
        "Measurement(v, e, unit)": lambda: Meas(1.0, -0.1, "meter"),
        "Measurement(Q, Q)": lambda: Meas(Q(1.0, "meter"), Q(-0.1, "meter")),
        "plus_minus(abs)": lambda: Q(1.0, "meter").plus_minus(-0.1),
        "plus_minus(rel)": lambda: Q(1.0, "meter").plus_minus(-0.1, relative=True),
    }.items():
        acc.ev()
        o = call(fn)
        if o != ("exc", "ValueError"):
            acc.violation(["constructor", name, "negative-error-accepted", ""], {"form": name}, "ValueError", repr(o)[:100])
    acc.sample({"clause": "constructor", "value": 1234.5, "error": 3.0, "forms": ["Measurement(Q, Q)", "Measurement(v, e, unit)", "Measurement(ufloat, unit)", "plus_minus(abs)", "plus_minus(rel)"]})


# ----------------------------------------------------------------------------- conversions

CONV_UNITS = ["meter", "centimeter", "kilometer", "inch", "kelvin", "degC", "degF", "delta_degC", "delta_degF"]


def run_conversions(acc):
    M = defs.default_model(core.REPO)
    ureg = regs.default("float")
    Q, Meas = ureg.Quantity, ureg.Measurement
    for a, b in itertools.product(CONV_UNITS, repeat=2):
        if M.dim(a) != M.dim(b):
            continue
        ua, ub = M.units[M.resolve(a)[1]], M.units[M.resolve(b)[1]]
        slope = float(M.root(a).coef / M.root(b).coef)
        offset_pair = (not ua.is_multiplicative) or (not ub.is_multiplicative)
        delta_mix = (a.startswith("delta_") != b.startswith("delta_")) and offset_pair
        for v, e in itertools.product((1.0, -2.5, 1234.5), (0.0, 0.1, 3.0)):
            acc.ev()
            acc.nt(("conv", a, b, v, e))
            case = {"from": a, "to": b, "value": v, "error": e}
            plain = call(lambda: Q(v, a).to(b).magnitude)
            o = call(lambda: Meas(v, e, a).to(b))
            if plain[0] != "ok":
                if o[0] == "ok":
                    acc.violation(["conversion", "to", "measurement-converts-where-the-plain-quantity-is-refused", "offset" if offset_pair else "mult"], case, plain[1], repr(o[1]))
                continue
            if o[0] != "ok":
                acc.violation(["conversion", "to", "raises", "offset" if offset_pair else "mult"], case, "a measurement", o[1])
                continue
            m = o[1]
            if not close(nominal(m), plain[1], 1e-12):
                acc.violation(["conversion", "to", "nominal-value-differs-from-plain-conversion", "offset" if offset_pair else "mult"], case, plain[1], nominal(m))
            if not close(stddev(m), e * abs(slope), 1e-9):
                acc.violation(["conversion", "to", "standard-deviation-is-not-scaled-by-the-slope", "offset" if offset_pair else "mult"], case, e * abs(slope), stddev(m))
            if not offset_pair and v != 0:
                r0, r1 = e / abs(v), call(lambda: m.rel)
                if r1[0] == "ok" and not close(r1[1], r0, 1e-9):
                    acc.violation(["conversion", "rel", "relative-error-changed-by-a-multiplicative-conversion", ""], case, r0, r1[1])
            if type(m).__name__ != "Measurement":
                acc.violation(["conversion", "to", "result-is-not-a-Measurement", ""], case, "Measurement", type(m).__name__)
            acc.outcome("converted")
    acc.sample({"clause": "conversion", "from": "degF", "to": "kelvin", "value": 1234.5, "error": 3.0, "expected_std": 3.0 * 5 / 9})


# ----------------------------------------------------------------------------- compaction

COMPACT_UNITS = ["meter", "kilometer", "millimeter", "millisecond", "second", "microfarad", "kilogram", "gram", "megawatt", "nanometer"]


def run_compact(acc):
    """to_compact() (and the '#' format flag) is a conversion like any other: the prefix is the one the plain quantity of the
    nominal value gets, the nominal value is that plain quantity's, and the standard deviation is scaled by the same slope"""
    ureg = regs.default("float")
    Q, Meas = ureg.Quantity, ureg.Measurement
    from uncertainties import ufloat
    for u in COMPACT_UNITS:
        for v, rel in itertools.product((1500.0, 0.0025, 2.5e7, 1.0, 12.0, -47000.0, 3e-8), (0.0, 0.01, 0.2)):
            e = abs(v) * rel
            plain = call(lambda: Q(v, u).to_compact())
            if plain[0] != "ok":
                continue
            pc = plain[1]
            slope = pc.magnitude / v
            case = {"unit": u, "value": v, "error": e}
            for way in ("Measurement", "Quantity-of-ufloat"):
                acc.ev()
                acc.nt(("compact", u, v, rel, way))
                m0 = Meas(v, e, u) if way == "Measurement" else Q(ufloat(v, e), u)
                o = call(lambda: m0.to_compact())
                if o[0] != "ok":
                    acc.violation(["conversion", "to_compact", "raises", way], case, repr(pc), o[1])
                    continue
                m = o[1]
                if dict(m._units) != dict(pc._units):
                    acc.violation(["conversion", "to_compact", "prefix-differs-from-the-plain-quantity-of-the-nominal-value", way], case, str(pc.units), str(m.units))
                    continue
                if not close(nominal(m), pc.magnitude, 1e-12):
                    acc.violation(["conversion", "to_compact", "nominal-value-differs-from-plain-conversion", way], case, pc.magnitude, nominal(m))
                if not close(stddev(m), e * abs(slope), 1e-9):
                    acc.violation(["conversion", "to_compact", "standard-deviation-is-not-scaled-by-the-slope", way], case, e * abs(slope), stddev(m))
                if way == "Measurement":
                    for spec in ("P", "", ".2fP", "~P"):
                        acc.ev()
                        want = call(lambda: format(Meas(pc.magnitude, e * abs(slope), pc.units), spec))
                        got = call(lambda: format(m0, "#" + spec))
                        if want[0] == "ok" and got != want:
                            acc.violation(["format", "compact-flag", "differs-from-the-format-of-the-compacted-measurement", spec], case, want[1], got[1])
            acc.outcome("compacted")
    acc.sample({"clause": "to_compact", "measurement": "(1500 +/- 200) kilometer", "expected": "(1.5 +/- 0.2) megameter"})


# ----------------------------------------------------------------------------- bare uncertain numbers


def run_bare_uncertain(acc):
    """an uncertain NUMBER (a bare ufloat, no units) is a dimensionless operand like any other number: added to, subtracted
    from or order-compared with a dimensional measurement / quantity it is refused with DimensionalityError — also when its
    nominal value is 0 (only an exact 0 is the unit-free zero); with a dimensionless operand it is plain propagation"""
    from uncertainties import ufloat
    ureg = regs.default("float")
    Q, Meas = ureg.Quantity, ureg.Measurement
    import operator as op_
    ops = [("+", op_.add), ("-", op_.sub), ("<", op_.lt), (">", op_.gt), ("<=", op_.le), (">=", op_.ge)]
    lefts = [("Measurement(5, 0.4, m)", lambda: Meas(5.0, 0.4, "meter")), ("Quantity(ufloat(5, 0.4), m)", lambda: Q(ufloat(5.0, 0.4), "meter")), ("Quantity(5, m)", lambda: Q(5.0, "meter")),
             ("Measurement(0, 0.4, m)", lambda: Meas(0.0, 0.4, "meter")), ("Measurement(5, 0.4, km/m)", lambda: Meas(5.0, 0.4, "kilometer/meter")), ("Measurement(5, 0.4, '')", lambda: Meas(5.0, 0.4, ""))]
    for (ln, lf), (v, e), (on, of), order in itertools.product(lefts, ((0.0, 0.3), (1.0, 0.3), (0.0, 1e-9), (-2.0, 0.5)), ops, ("q op n", "n op q")):
        acc.ev()
        acc.nt(("bare-uncertain", ln, v, e, on, order))
        q, n = lf(), ufloat(v, e)
        o = call((lambda: of(q, n)) if order == "q op n" else (lambda: of(n, q)))
        dimensional = "'')" not in ln and "km/m" not in ln
        case = {"quantity": ln, "number": f"ufloat({v}, {e})", "op": on, "order": order}
        if dimensional:
            refused = o == ("exc", "DimensionalityError") or (on not in ("+", "-") and o == ("exc", "ValueError"))  # ordering against a number: "Cannot compare Quantity and <type>"
            if not refused:
                acc.violation(["arithmetic", on, "unit-less-uncertain-number-combined-with-a-dimensional-quantity", "nominal-zero" if v == 0 else "nominal-nonzero"], case, "DimensionalityError", repr(o)[:140])
            acc.outcome("refused")
        elif on in ("+", "-") and o[0] == "ok":
            scale = 1000.0 if "km/m" in ln else 1.0
            a, b = (5.0 * scale, v) if order == "q op n" else (v, 5.0 * scale)
            want_v = a + b if on == "+" else a - b
            want_e = math.hypot(0.4 * scale, e)
            r = o[1].to("") if hasattr(o[1], "to") else o[1]
            if not close(nominal(r), want_v, 1e-12) or not close(stddev(r), want_e, 1e-9):
                acc.violation(["arithmetic", on, "dimensionless-with-uncertain-number-wrong-propagation", ""], case, [want_v, want_e], [nominal(r), stddev(r)])
            acc.outcome("propagated")
    acc.sample({"clause": "bare-uncertain", "quantity": "Measurement(5, 0.4, m)", "number": "ufloat(0.0, 0.3)", "op": "+", "expected": "DimensionalityError"})


# ----------------------------------------------------------------------------- arithmetic


def run_arithmetic(acc):
    ureg = regs.default("float")
    Q, Meas = ureg.Quantity, ureg.Measurement

    def operand(kind, v, e, unit):
        if kind == "M":
            return Meas(v, e, unit), v, e
        if kind == "Q":
            return Q(v, unit), v, 0.0
        return v, v, 0.0

    for (va, ea0, vb, eb0) in ((4.0, 0.3, 2.0, 0.1), (-3.0, 0.2, 5.0, 0.5)):
        for ka, kb in itertools.product("MQN", repeat=2):
            if "M" not in (ka, kb):
                continue
            for op in ("+", "-", "*", "/", "**"):
                for ua, ub in (("meter", "meter"), ("meter", "centimeter"), ("kilometer", "meter")):
                    if op == "**":
                        if kb != "N" or ub != "meter" or ua != "meter":
                            continue
                    if (ka == "N" and ua != "meter") or (kb == "N" and ub != "meter"):
                        continue  # a bare number has no unit spelling
                    fa = {"meter": 1.0, "centimeter": 0.01, "kilometer": 1000.0}
                    # physical (metre) values
                    A, pa, sa = operand(ka, va / fa[ua], ea0 / fa[ua], ua)
                    B, pb, sb = operand(kb, vb / fa[ub], eb0 / fa[ub], ub)
                    acc.ev()
                    acc.nt(("arith", ka, kb, op, ua, ub, va))
                    case = {"a": [ka, va, ea0 if ka == "M" else 0.0, ua], "op": op, "b": [kb, vb, eb0 if kb == "M" else 0.0, ub]}
                    dim_a = ka != "N"
                    dim_b = kb != "N"
                    ea, eb = sa * fa[ua] if ka == "M" else 0.0, sb * fa[ub] if kb == "M" else 0.0  # only measurements carry an error
                    if op in "+-":
                        if dim_a != dim_b:
                            want = ("exc", "DimensionalityError")
                        else:
                            val = va + vb if op == "+" else va - vb
                            want = ("ok", val, math.hypot(ea, eb), 1 if dim_a else 0)
                    elif op == "*":
                        val = va * vb
                        want = ("ok", val, math.hypot(vb * ea, va * eb), int(dim_a) + int(dim_b))
                    elif op == "/":
                        val = va / vb
                        want = ("ok", val, abs(val) * math.hypot(ea / va, eb / vb), int(dim_a) - int(dim_b))
                    else:
                        n = 2
                        val = va**n
                        want = ("ok", val, abs(n * va ** (n - 1)) * ea, n)
                        B = n
                    f = {"+": lambda x, y: x + y, "-": lambda x, y: x - y, "*": lambda x, y: x * y, "/": lambda x, y: x / y, "**": lambda x, y: x**y}[op]
                    o = call(lambda: f(A, B))
                    if want[0] == "exc":
                        if o != want:
                            acc.violation(["arithmetic", op, "dimension-mismatch-not-refused", ka + kb], case, want[1], repr(o)[:100])
                        continue
                    if o[0] != "ok":
                        acc.violation(["arithmetic", op, "raises", ka + kb], case, want[1:], o[1])
                        continue
                    r = o[1]
                    rb = r.to_base_units() if hasattr(r, "to_base_units") else r
                    gv, gs = nominal(rb) if hasattr(rb, "magnitude") else (rb.nominal_value if hasattr(rb, "nominal_value") else float(rb)), stddev(rb) if hasattr(rb, "magnitude") else getattr(rb, "std_dev", 0.0)
                    power = dict(getattr(rb, "_units", {})).get("meter", 0)
                    if not close(gv, want[1], 1e-9) or not close(gs, want[2], 1e-9) or power != want[3]:
                        acc.violation(["arithmetic", op, "value-error-or-unit-differs-from-first-order-propagation", ka + kb], case, list(want[1:]), [gv, gs, power])
                    acc.outcome("arith")
    # correlated expressions: the same physical variable appears twice
    for u1, u2 in (("meter", "meter"), ("meter", "centimeter"), ("kilometer", "inch")):
        m1, m2 = Meas(4.0, 0.3, u1), Meas(2.0, 0.6, u2)
        f2 = float(Q(1, u2).to(u1).magnitude)
        exprs = {
            "m1 - m1": (lambda: m1 - m1, 0.0, 0.0),
            "m1 + m1": (lambda: m1 + m1, 8.0, 0.6),
            "m1 / m1": (lambda: m1 / m1, 1.0, 0.0),
            "(m1 + m2) - m1": (lambda: (m1 + m2) - m1, 2.0 * f2, 0.6 * f2),
            "(m1 * m2) / m1": (lambda: ((m1 * m2) / m1).to(u1), 2.0 * f2, 0.6 * f2),
            "m1.to(u2) - m1": (lambda: (m1.to(u2) - m1).to(u1), 0.0, 0.0),
            "2 * m1 - m1": (lambda: 2 * m1 - m1, 4.0, 0.3),
            "(m1 ** 2) / m1": (lambda: ((m1**2) / m1).to(u1), 4.0, 0.3),
            # neutral elements: adding the number 0 (what sum() starts from), multiplying by 1, a zero quantity
            "(m1 + 0) - m1": (lambda: (m1 + 0) - m1, 0.0, 0.0),
            "(0 + m1) - m1": (lambda: (0 + m1) - m1, 0.0, 0.0),
            "(m1 - 0) - m1": (lambda: (m1 - 0) - m1, 0.0, 0.0),
            "(m1 + 0.0) - m1": (lambda: (m1 + 0.0) - m1, 0.0, 0.0),
            "sum([m1, m2]) - (m1 + m2)": (lambda: (sum([m1, m2]) - (m1 + m2)).to(u1), 0.0, 0.0),
            "(m1 * 1) - m1": (lambda: (m1 * 1) - m1, 0.0, 0.0),
            "(1 * m1) / m1": (lambda: (1 * m1) / m1, 1.0, 0.0),
            "(m1 / 1) - m1": (lambda: (m1 / 1) - m1, 0.0, 0.0),
            "(m1 + Q(0, u2)) - m1": (lambda: ((m1 + Q(0.0, u2)) - m1).to(u1), 0.0, 0.0),
            "(m1 ** 1) - m1": (lambda: (m1**1) - m1, 0.0, 0.0),
            "(+m1) - m1": (lambda: (+m1) - m1, 0.0, 0.0),
            "-(-m1) - m1": (lambda: -(-m1) - m1, 0.0, 0.0),
            "abs(m1) - m1": (lambda: abs(m1) - m1, 0.0, 0.0),
        }
        for name, (fn, wv, ws) in exprs.items():
            acc.ev()
            acc.nt(("corr", name, u1, u2))
            o = call(fn)
            case = {"expression": name, "m1": [4.0, 0.3, u1], "m2": [2.0, 0.6, u2]}
            if o[0] != "ok":
                acc.violation(["arithmetic", "correlated", "raises", name], case, [wv, ws], o[1])
                continue
            r = o[1]
            gv, gs = nominal(r), stddev(r)
            if not close(gv, wv, 1e-9) and abs(gv - wv) > 1e-12 or abs(gs - ws) > 1e-9 * max(1.0, ws):
                acc.violation(["arithmetic", "correlated", "correlation-between-a-result-and-its-operand-lost", name], case, [wv, ws], [gv, gs])
            acc.outcome("correlated")
    acc.sample({"clause": "arithmetic", "a": ["M", 4.0, 0.3, "meter"], "op": "*", "b": ["Q", 2.0, 0.0, "centimeter"]})


# ----------------------------------------------------------------------------- notations


def gen_notations():
    """(string, expected value, expected error, unit or None)"""
    out = []
    vals = ["1.0", "-2.5", "1234.5", "0.12", "0.0", "0", "nan"]
    errs = ["0.1", "3.0", "0.05", "0", "0.0", "nan"]
    exps = ["", "e3", "e-3", "e+03", "e-03", "E2"]
    for v, e in itertools.product(vals, errs):
        for pm in ("+/-", "±"):
            for unit in (None, "m", "km/h"):
                for sp in (" ", ""):
                    us = "" if unit is None else " " + unit
                    # plain:  v +/- e
                    out.append((f"{v}{sp}{pm}{sp}{e}{us}", float(v), float(e), unit))
                    # parenthesised
                    out.append((f"({v}{sp}{pm}{sp}{e}){us}", float(v), float(e), unit))
                    for ex in exps[1:]:
                        p = float("1" + ex.lower())
                        if ex[0] == "e":  # after a parenthesis the tokenizer's grammar has a lower-case e only
                            out.append((f"({v}{sp}{pm}{sp}{e}){ex}{us}", float(v) * p, float(e) * p, unit))
                        if "nan" not in (v, e):  # 'nane3' is not a number
                            out.append((f"{v}{ex}{sp}{pm}{sp}{e}{ex}{us}", float(v) * p, float(e) * p, unit))
    # concise notation v(e): e in units of the last digit of v
    for v, e in (("1.0", "1"), ("1.00", "1"), ("1.234", "5"), ("12.3", "4"), ("1.23", "45"), ("123", "4"), ("-2.50", "12"), ("0.5", "12"), ("0.0", "12"), ("0", "1"), ("8.0", "0"), ("0.00", "0")):
        ndec = len(v.split(".")[1]) if "." in v else 0
        err = int(e) * 10.0 ** (-ndec)
        for ex in ("", "e-3", "e3", "e+03"):
            p = float("1" + ex) if ex else 1.0
            for unit in (None, "m"):
                us = "" if unit is None else " " + unit
                out.append((f"{v}({e}){ex}{us}", float(v) * p, err * p, unit))
    for unit in (None, "m"):
        us = "" if unit is None else " " + unit
        out.append((f"nan +/- 0.1{us}", float("nan"), 0.1, unit))
        out.append((f"(nan +/- 0.1){us}", float("nan"), 0.1, unit))
        out.append((f"1.0 +/- 0{us}", 1.0, 0.0, unit))
    return out


def run_notations(acc, block, nblocks):
    ureg = regs.default("float")
    cases = gen_notations()
    acc.dim("notations", len(cases))
    for i, (s, wv, we, unit) in enumerate(cases):
        if i % nblocks != block:
            continue
        acc.ev()
        acc.nt(("notation", s))
        o = call(lambda: ureg.parse_expression(s))
        concise = "(" in s and "+/-" not in s and "±" not in s
        kind = "concise-v(e)" if concise else ("parenthesised" if s.startswith("(") else "plain")
        case = {"string": s}
        if o[0] != "ok":
            acc.violation(["notation", kind, "raises", o[1]], case, [wv, we, unit], o[1])
            continue
        r = o[1]
        gv = nominal(r) if hasattr(r, "magnitude") else getattr(r, "nominal_value", None)
        gs = stddev(r) if hasattr(r, "magnitude") else getattr(r, "std_dev", None)
        gu = dict(getattr(r, "_units", {}))
        wu = {} if unit is None else ({"meter": 1} if unit == "m" else {"kilometer": 1, "hour": -1})
        if gv is None or gs is None or not close(gv, wv, 1e-12) or not close(gs, we, 1e-12) or gu != wu:
            detail = "error-digits-not-scaled-to-the-last-digit-of-the-value" if concise and gv is not None and close(gv, wv, 1e-12) and gu == wu else "general"
            acc.violation(["notation", kind, "parsed-measurement-differs-from-the-one-denoted", detail], case, [wv, we, wu], [gv, gs, gu])
        acc.outcome(kind)
    acc.sample({"clause": "notation", "strings": [c[0] for c in cases[block : block + 400 : 97]]})


# ----------------------------------------------------------------------------- formats


def run_formats(acc):
    ureg = regs.default("float")
    Meas = ureg.Measurement
    ms = [Meas(1234.5, 3.0, "meter"), Meas(-2.5, 0.25, "second"), Meas(0.5, 0.25, "meter/second**2"), Meas(1.0, 0.0, "meter"), Meas(5.0, 1.0, ""), Meas(12.5, 0.5, "kilometer/hour"), Meas(2.0e6, 1.0e3, "pascal"),
          Meas(3.0, 0.5, "1/second"), Meas(20.0, 2.0, "degC"), Meas(2e-9, 1e-5, "meter"), Meas(0.0, 1e-5, "meter"), Meas(8.0e6, 0.0, "meter"), Meas(4.0e-7, 0.0, "second")]
    specs = ["", "D", "C", "P", "H", "L", "Lx", "~", "~P", "~C", ".3f", ".2uS", "S", ".3e"]
    for m in ms:
        for spec in specs:
            acc.ev()
            acc.nt(("fmt", repr(m), spec))
            before = (m.magnitude.nominal_value, m.magnitude.std_dev, tuple(sorted(dict(m._units).items())))
            o = call(lambda: format(m, spec))
            case = {"measurement": repr(m), "spec": spec}
            if o[0] != "ok":
                acc.violation(["format", spec or "default", "raises", o[1]], case, "a string", o[1])
                continue
            s = o[1]
            if (m.magnitude.nominal_value, m.magnitude.std_dev, tuple(sorted(dict(m._units).items()))) != before:
                acc.violation(["format", spec or "default", "formatting-alters-the-object", ""], case, before, repr(m))
            plain = spec in ("", "D", "C", "P", "~", "~P", "~C", ".3f", ".2uS", "S", ".3e") and dict(m._units) != {"degree_Celsius": 1}
            if plain and "×" not in s:  # the pretty x10^n rewriting of the magnitude is for display only
                back = call(lambda: ureg.parse_expression(s))
                ok = back[0] == "ok" and hasattr(back[1], "magnitude") if dict(m._units) else back[0] == "ok"
                if ok:
                    r = back[1]
                    rv = nominal(r) if hasattr(r, "magnitude") else r.nominal_value
                    rs = stddev(r) if hasattr(r, "magnitude") else r.std_dev
                    ru = dict(getattr(r, "_units", {}))
                    tol = 1e-3 if spec in (".3f", ".2uS", "S", ".3e") else 1e-9
                    # the value is printed to the digits its error justifies: a value much smaller than its error
                    # legitimately comes back rounded (by less than a tenth of the error); '.3f' prints 3 decimals
                    slack = 0.06 * before[1] + (5.1e-4 if spec == ".3f" else 0.0)
                    ok_v = close(rv, before[0], tol) or abs(rv - before[0]) <= slack
                    ok_s = close(rs, before[1], 0.1 if spec in (".3f", ".2uS", "S", ".3e") else 1e-9) or (spec == ".3f" and abs(rs - before[1]) <= 5.1e-4)
                    ok = ok_v and ok_s and ru == dict(m._units)
                if not ok:
                    acc.violation(["format", spec or "default", "rendering-does-not-parse-back-to-the-same-measurement", ""], case, repr(m), [s, repr(back[1])[:100]])
            else:
                # non-parseable formats still have to show value, error and unit
                want_bits = ["1234.5" if m is ms[0] else None]
                if m is ms[0] and ("1234.5" not in s or "3.0" not in s or ("meter" not in s and "\\m" not in s and " m" not in s)):
                    acc.violation(["format", spec, "value-error-or-unit-missing-from-the-rendering", ""], case, "1234.5, 3.0, meter", s)
            acc.outcome("format")
    # exponent notation under every flavour: (a +/- b) x 10^N in the flavour's markup, N read back from the markup
    import re
    SUPD = str.maketrans("⁰¹²³⁴⁵⁶⁷⁸⁹⁻⁺", "0123456789-+")
    ems = [Meas(4.0, 0.1, "second"), Meas(1234.5, 3.0, "meter"), Meas(2.0e-9, 1.0e-10, "meter"), Meas(45.0, 1.5, "meter"), Meas(-7.25, 0.5, "second"), Meas(0.5, 0.125, "meter")]
    for m in ems:
        for nspec, flav in itertools.product(("e", ".2e", ".3e", ".1ue"), ("", "D", "P", "H", "L", "~P", "~H", "C")):
            acc.ev()
            acc.nt(("fmt-exp", repr(m), nspec, flav))
            spec = nspec + flav
            o = call(lambda: format(m, spec))
            case = {"measurement": repr(m), "spec": spec}
            if o[0] != "ok":
                acc.violation(["format", spec, "raises", o[1]], case, "a string", o[1])
                continue
            s_ = o[1]
            t = s_.replace("&plusmn;", "+/-").replace("±", "+/-").replace("\\pm", "+/-").replace("&times;", "×").replace("\\times", "×").replace("\\left(", "(").replace("\\right)", ")")
            mm = re.search(r"\(?\s*(-?[0-9.]+)\s*\+/-\s*([0-9.]+)\s*\)?\s*(?:×\s*10\s*(?:<sup>([^<]*)</sup>|\^\{([^}]*)\}|([⁰¹²³⁴⁵⁶⁷⁸⁹⁻⁺]+))|[eE]([-+]?[0-9]+))", t)
            if not mm:
                mm2 = re.search(r"\(?\s*(-?[0-9.]+)(?:[eE]([-+]?[0-9]+))?\s*\+/-\s*([0-9.]+)(?:[eE]([-+]?[0-9]+))?", t)
                if not mm2:
                    acc.violation(["format", flav or "default", "exponent-rendering-unreadable", nspec], case, "(a +/- b) x 10^N", s_)
                    continue
                v = float(mm2.group(1)) * 10 ** int(mm2.group(2) or 0)
                e = float(mm2.group(3)) * 10 ** int(mm2.group(4) or 0)
                quantum = 10.0 ** (int(mm2.group(2) or 0) - (len(mm2.group(1).split(".")[1]) if "." in mm2.group(1) else 0))
            else:
                raw = next((g for g in mm.groups()[2:] if g is not None), None)
                try:
                    N = int((raw or "").translate(SUPD))
                except ValueError:
                    acc.violation(["format", flav or "default", "exponent-missing-or-not-a-number", nspec], case, "an integer exponent", s_)
                    continue
                v, e = float(mm.group(1)) * 10.0 ** N, float(mm.group(2)) * 10.0 ** N
                quantum = 10.0 ** (N - (len(mm.group(1).split(".")[1]) if "." in mm.group(1) else 0))
            nv, ne = m.magnitude.nominal_value, m.magnitude.std_dev
            # value and error are printed to the same last digit: each is right to within half a unit of it
            if abs(v - nv) > 0.51 * quantum or abs(e - ne) > 0.51 * quantum:
                acc.violation(["format", flav or "default", "exponent-rendering-denotes-another-measurement", nspec], case, [nv, ne], [s_, v, e])
    acc.sample({"clause": "format", "measurement": "(1234.5 +/- 3.0) meter", "specs": specs})


def shards(tier, seed):
    return [("constructors",), ("conversions",), ("arithmetic",), ("formats",), ("compact",), ("bare-uncertain",)] + [("notations", b, 8) for b in range(8)]


def run_shard(acc, shard, tier, seed):
    k = shard[0]
    if k == "constructors":
        run_constructors(acc)
    elif k == "conversions":
        run_conversions(acc)
    elif k == "arithmetic":
        run_arithmetic(acc)
    elif k == "formats":
        run_formats(acc)
    elif k == "compact":
        run_compact(acc)
    elif k == "bare-uncertain":
        run_bare_uncertain(acc)
    elif k == "notations":
        run_notations(acc, shard[1], shard[2])
    else:
        raise core.HarnessError(str(shard))


def replay(rec):
    site = rec["site"]
    acc = core.Acc(PROPERTY)
    if len(site) > 2 and site[2].startswith(("unit-less-uncertain", "dimensionless-with-uncertain")):
        run_bare_uncertain(acc)
        sites = {tuple(v["site"]) for v in acc.violations}
        return tuple(site) in sites, {"sites_seen": sorted(sites)[:20]}
    if len(site) > 1 and site[1] in ("to_compact", "compact-flag"):
        run_compact(acc)
        sites = {tuple(v["site"]) for v in acc.violations}
        return tuple(site) in sites, {"sites_seen": sorted(sites)[:20]}
    {"constructor": run_constructors, "conversion": run_conversions, "arithmetic": run_arithmetic, "format": run_formats}.get(site[0], lambda a: [run_notations(a, b, 8) for b in range(8)])(acc)
    sites = {tuple(v["site"]) for v in acc.violations}
    return tuple(site) in sites, {"sites_seen": sorted(sites)[:20]}


MANIFEST = {
    "category": "exploration",
    "technique": "bounded exhaustive enumeration of constructor forms, unit pairs, operand-kind cells, a generated notation grammar and format specs, against independently written first-order propagation formulas and a notation reader",
    "text": "Constructors: 5 values x 4 errors x 6 forms (Quantity pair incl. error in another unit, numbers + unit, ufloat + unit, plus_minus absolute/relative) must report value, error and rel back; negative errors "
    "rejected. Conversions: all ordered pairs of 9 units (4 lengths, kelvin, degC, degF and their deltas) x 3 values x 3 errors: nominal value as the plain quantity, standard deviation times the slope of the "
    "affine/linear map, relative error invariant for multiplicative pairs, refused where the plain quantity is refused. Compaction: 10 prefixed/unprefixed units x 7 values x 3 relative errors, as Measurement and as "
    "Quantity of a ufloat: to_compact() picks the prefix the plain nominal quantity gets, scales value and error alike, and '#'+spec formats as the compacted measurement under spec. Arithmetic: + - * / ** over (Measurement | Quantity | number) operand kinds in three unit "
    "spellings against written-out first-order formulas, plus 8 correlated expressions ((a+b)-a, (a*b)/a, a.to(u)-a, ...) whose uncertainty only comes out right if results stay correlated with their "
    "operands. Notations: every string of the generated uncertainty grammar (plain, parenthesised, (v +/- e)eN, exponents on both parts, ± sign, leading-zero exponents, concise v(e) and v(e)eN, zero and nan written as value or as error under every exponent form, with and "
    "without unit and spaces) must parse to the measurement it denotes. Formats: 13 measurements (incl. |value| << error, and exact zero errors at large and small scale) x 14 specs; plain ones parse back to within the digits printed.",
    "note": "Trusted: the `uncertainties` package as arithmetic engine (propagation formulas here are independent), the notation reader in this file. Random values over many decades are replaced by the fixed "
    "value/error alphabets; array-valued measurements are outside.",
    "ref": "DESIGN.md §4 C19",
}
MANIFEST["text"] += ' Bare uncertain numbers (ufloat, nominal 0 and non-0) against 6 operand kinds x 6 operators x both orders: refused against dimensional operands, propagated against dimensionless ones.'
MANIFEST["text"] += " Exponent notation: 6 measurements x 4 exponent specs x 8 flavours (plain, D, C, P, H, L, ~P, ~H): mantissa, error and exponent are decoded from each flavour's markup and must denote the measurement to half a unit of the last printed digit."
MANIFEST["text"] += ' 13 neutral-element expressions ((m + 0) - m, sum([a, b]) - (a + b), (m * 1) - m, ...) are among the correlated ones.'
