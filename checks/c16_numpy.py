"""C16 — NumPy functions on quantity arrays respect units.

E1 over (function, argument unit spellings, shapes, registry configuration).  A hand-written
role table (refdata/numpy_roles.py) says for every handled function how it is called, which
arguments carry units and which unit the mathematics implies for the result.  For every entry
and EVERY assignment of unit spellings to its unit-carrying arguments:
 (1)+(2) the result equals NumPy applied to the base-unit magnitudes with the implied unit (hence
         is the same for all spellings — unit covariance);
 (3) an incompatible unit in place of a unit-sharing argument raises DimensionalityError, a
     dimensional argument where a dimensionless / angle one is required raises DimensionalityError,
     an offset-unit argument of a multiplicative operation raises OffsetUnitCalculusError;
 (4) every input is bit-identical afterwards; explicitly in-place operations change only their target."""
from __future__ import annotations

import itertools
import math
import warnings

from mc import core, regs

PROPERTY = "C16"
LEVEL = "exploration"
RULE = (
    "every entry of the role table (~330 call templates covering the handled functions, ufuncs and wrapped methods) x every assignment of unit spellings {m,cm,km} / {s,ms} / {'',percent} / {rad,degree} to its "
    "unit-carrying arguments x shape variants (ufuncs: 0-d, 1-d, 2-d) x registry configuration (default; thorough: force_ndarray, force_ndarray_like); error clauses per entry; 12 in-place operations. "
    "non-trivial = distinct (entry, spelling assignment, shape, config) with at least one non-base spelling"
)
ASSUMPTIONS = [
    "the role table is written from the NumPy documentation; NumPy itself is trusted",
    "operations that are not unit-covariant by nature (floor, ceil, rint, trunc, round, fix, modf, frexp, nextafter) are compared with NumPy on the magnitudes as given",
    "float comparison rtol 1e-9 / atol 1e-9 on values of order 1",
]
SITE_GRAMMAR = "[clause, function, failure-kind, detail]"


def roles():
    import importlib
    import sys

    sys.path.insert(0, core.HOME)
    return importlib.import_module("refdata.numpy_roles")


def resolve(np, name):
    obj = np
    for part in name.split("."):
        obj = getattr(obj, part, None)
        if obj is None:
            return None
    return obj


def unit_expr(out):
    return out.replace("L", "meter").replace("T", "second").replace("A", "radian").replace("D", "dimensionless")


def call(fn):
    try:
        with warnings.catch_warnings():
            warnings.simplefilter("ignore")
            return ("ok", fn())
    except Exception as e:  # noqa
        return ("exc", type(e).__name__, str(e)[:100])


def snap(x):
    import numpy as np

    if hasattr(x, "_units"):
        m = x._magnitude
        return (np.asarray(m).tobytes(), np.asarray(m).shape, tuple(sorted((k, repr(v)) for k, v in dict(x._units).items())))
    return None


def shape_variants(kind, base):
    import numpy as np

    a = np.asarray(base, dtype=float)
    yield "as-given", a
    if kind == "ufunc" and a.ndim == 1:
        yield "2-d", np.tile(a, (2, 1))
        yield "0-d", a[1] if a[1] == a[1] else a[0]


def compare(np, got, ref, out, first_unit, ureg):
    """'' if fine, else a failure description"""
    if isinstance(out, tuple):
        if not isinstance(got, (tuple, list)) or len(got) != len(out):
            return f"expected {len(out)} results"
        for g, r, o in zip(got, ref, out):
            msg = compare(np, g, r, o, first_unit, ureg)
            if msg:
                return msg
        return ""
    isq = hasattr(got, "_units")
    if out == "bare":
        if isq:
            return "result carries a unit but should be bare"
        try:
            ok = np.array_equal(np.asarray(got), np.asarray(ref), equal_nan=True) or np.allclose(np.asarray(got, dtype=float), np.asarray(ref, dtype=float), rtol=1e-9, atol=1e-9, equal_nan=True)
        except Exception:  # noqa
            ok = False
        return "" if ok else "bare value differs from NumPy on base-unit magnitudes"
    if not isq:
        # NumPy scalars/arrays for a dimensionless result are acceptable only if they are the dimensionless value
        if out == "D":
            try:
                return "" if np.allclose(np.asarray(got, dtype=float), np.asarray(ref, dtype=float), rtol=1e-9, atol=1e-9, equal_nan=True) else "dimensionless value differs"
            except Exception:  # noqa
                return "unreadable result"
        return "result lost its unit"
    target = first_unit if out == "first" else ("degree" if out == "deg" else unit_expr(out))
    try:
        m = got.to(target).magnitude
    except Exception as e:  # noqa
        return f"result unit {dict(got._units)} is not the implied {target!r} ({type(e).__name__})"
    try:
        gm, rm = np.asarray(m, dtype=float), np.asarray(ref, dtype=float)
    except Exception:  # noqa
        return "unreadable magnitude"
    if gm.shape != rm.shape:
        return f"shape {gm.shape} != {rm.shape}"
    if not np.allclose(gm, rm, rtol=1e-9, atol=1e-9, equal_nan=True):
        return "value differs from NumPy on base-unit magnitudes"
    return ""


def run_entries(acc, block, nblocks, cfg):
    import numpy as np

    R = roles()
    pint = core.boot()
    from pint.facets.numpy.numpy_func import HANDLED_FUNCTIONS, HANDLED_UFUNCS

    kw = {} if cfg == "default" else {cfg: True}
    ureg = regs.default("float", **kw)
    Q = ureg.Quantity
    handled = set(HANDLED_FUNCTIONS) | set(HANDLED_UFUNCS)
    covered = set()
    for ei, (name, kind, args, fcall, out, opts) in enumerate(R.ENTRIES):
        if ei % nblocks != block:
            continue
        f_np = resolve(np, name) if kind != "method" else None
        if kind != "method" and f_np is None:
            acc.count("entries skipped: not in this NumPy")
            continue
        if kind != "method" and name not in handled:
            acc.count("entries skipped: not handled by pint")
            continue
        covered.add(name)
        covariant = opts.get("covariant", True)
        argnames = list(args)
        for vlabel in (["as-given", "2-d", "0-d", "alt"] if kind == "ufunc" else ["as-given", "alt"]):
            base = {}
            skip = False
            for an, (dim, vk) in args.items():
                if vlabel == "alt":
                    # the same call with another assignment of values to the roles
                    base[an] = np.asarray(R.VALUES[R.ALT.get(vk, vk)], dtype=float)
                    continue
                variants = dict(shape_variants(kind, R.VALUES[vk]))
                if vlabel not in variants:
                    skip = True
                    break
                base[an] = variants[vlabel]
            if skip or (vlabel == "alt" and (opts.get("no_alt") or all(R.ALT.get(vk, vk) == vk for _, vk in args.values()))):
                continue
            # reference on base-unit magnitudes
            def ref_call(values):
                if kind == "method":
                    m = getattr(np.asarray(values["self"]), name)
                    return fcall(m, values)
                return fcall(f_np, values)

            if "ref" in opts:
                ref = call(lambda: opts["ref"](base))
            else:
                ref = call(lambda: ref_call(base)) if covariant else None
            if covariant and ref[0] != "ok":
                acc.count("entries whose NumPy reference raises")
                continue
            spell_lists = [R.SPELL[args[an][0]] for an in argnames]
            bare_like = opts.get("bare_like", {})
            for combo in itertools.product(*spell_lists):
                qargs, given = {}, {}
                spelled = dict(zip(argnames, combo))
                if any(spelled[an] != spelled[like] for an, like in bare_like.items()):
                    continue  # a bare argument has no spelling of its own: it is read in the unit of the argument it follows
                for an, (uname, fac) in zip(argnames, combo):
                    given[an] = np.asarray(base[an]) * fac
                    if an in bare_like:
                        qargs[an] = given[an].copy() if given[an].ndim else float(given[an])
                        continue
                    qargs[an] = Q(given[an].copy() if given[an].ndim else float(given[an]), uname)
                before = {an: snap(q) for an, q in qargs.items()}
                acc.ev()
                if any(u != R.SPELL[args[an][0]][0][0] for an, (u, _) in zip(argnames, combo)):
                    acc.nt((name, kind, ei, vlabel, tuple(u for u, _ in combo), cfg))
                case = {"function": name, "kind": kind, "entry": ei, "shape": vlabel, "config": cfg, "spellings": {an: u for an, (u, _) in zip(argnames, combo)}, "values": {an: R.VALUES[args[an][1]] for an in argnames}}

                def pint_call():
                    if kind == "method":
                        return fcall(getattr(qargs["self"], name), qargs)
                    return fcall(f_np, qargs)

                o = call(pint_call)
                r = ref if covariant else call(lambda: ref_call(given))
                if r[0] != "ok":
                    continue
                if o[0] != "ok":
                    acc.violation(["reference", name, "raises-on-valid-input", o[1]], case, "a result", o[1:])
                    continue
                msg = compare(np, o[1], r[1], out, combo[0][0], ureg)
                if msg:
                    allbase = all(u == R.SPELL[args[an][0]][0][0] for an, (u, _) in zip(argnames, combo))
                    which = "base-spelling" if allbase else "re-expressed:" + ",".join(an for an, (u, _) in zip(argnames, combo) if u != R.SPELL[args[an][0]][0][0])
                    acc.violation(["reference" if allbase else "unit-covariance", name, msg.split(" (")[0][:60].split(" {")[0]], dict(case, re_expressed=which), "NumPy on base-unit magnitudes with the implied unit", msg)
                after = {an: snap(q) for an, q in qargs.items()}
                if after != before:
                    acc.violation(["input-integrity", name, "input-modified-by-a-non-in-place-operation", ",".join(an for an in argnames if after[an] != before[an])], case, "inputs bit-identical", "changed")
                acc.outcome(kind)
        # ---- error clauses (base shapes only)
        same_dim = [an for an in argnames if args[an][0] == "L"]
        base1 = {an: np.asarray(R.VALUES[args[an][1]], dtype=float) for an in argnames}
        if len(same_dim) >= 2 and out != "first" and name not in ("full_like", "average"):
            qargs = {an: Q(base1[an].copy() if base1[an].ndim else float(base1[an]), R.BASE[args[an][0]]) for an in argnames}
            bad = same_dim[1]
            qargs[bad] = Q(base1[bad].copy() if base1[bad].ndim else float(base1[bad]), "second")
            acc.ev()
            snap0 = {an: snap(q) for an, q in qargs.items()}
            o = call(lambda: fcall(getattr(qargs["self"], name), qargs) if kind == "method" else fcall(f_np, qargs))
            if {an: snap(q) for an, q in qargs.items()} != snap0:
                acc.violation(["input-integrity", name, "input-modified-by-a-refused-operation", "incompatible-unit"], {"function": name, "kind": kind, "entry": ei, "bad_argument": bad}, "inputs bit-identical", "changed")
            if name == "isin":
                ok = o[0] == "ok"  # incompatible test elements are simply not in the array (documented)
            else:
                ok = o[0] == "exc" and o[1] == "DimensionalityError"
            if not ok:
                acc.violation(["errors", name, "incompatible-unit-does-not-raise-DimensionalityError", bad], {"function": name, "kind": kind, "entry": ei, "bad_argument": bad}, "DimensionalityError", repr(o)[:200])
            acc.outcome("error-clause")
        if any(args[an][0] in ("D", "A") for an in argnames) and name not in ("isin", "power", "where"):
            qargs = {an: Q(base1[an].copy() if base1[an].ndim else float(base1[an]), "meter" if args[an][0] in ("D", "A") else R.BASE[args[an][0]]) for an in argnames}
            acc.ev()
            snap0 = {an: snap(q) for an, q in qargs.items()}
            o = call(lambda: fcall(getattr(qargs["self"], name), qargs) if kind == "method" else fcall(f_np, qargs))
            if {an: snap(q) for an, q in qargs.items()} != snap0:
                acc.violation(["input-integrity", name, "input-modified-by-a-refused-operation", "dimensional-argument"], {"function": name, "kind": kind, "entry": ei}, "inputs bit-identical", "changed")
            if not (o[0] == "exc" and o[1] == "DimensionalityError"):
                acc.violation(["errors", name, "dimensional-argument-accepted-where-dimensionless-or-angle-is-required", ""], {"function": name, "kind": kind, "entry": ei}, "DimensionalityError", repr(o)[:200])
            acc.outcome("error-clause")
        if name in OFFSET_REFUSED and cfg == "default":
            first = argnames[0]
            qargs = {an: Q(base1[an].copy() if base1[an].ndim else float(base1[an]), R.BASE[args[an][0]]) for an in argnames}
            qargs[first] = Q(base1[first].copy() if base1[first].ndim else float(base1[first]), "degC")
            acc.ev()
            snap0 = {an: snap(q) for an, q in qargs.items()}
            o = call(lambda: fcall(getattr(qargs["self"], name), qargs) if kind == "method" else fcall(f_np, qargs))
            if o[0] == "exc" and {an: snap(q) for an, q in qargs.items()} != snap0:
                acc.violation(["input-integrity", name, "input-modified-by-a-refused-operation", "offset-unit"], {"function": name, "kind": kind, "entry": ei}, "inputs bit-identical", "changed")
            refused = o[0] == "exc" and (o[1] == "OffsetUnitCalculusError" or (o[1] == "DimensionalityError" and args[first][0] in ("D", "A")))  # a slot that wants a pure number refuses a temperature as a dimension error
            if not refused:
                acc.violation(["errors", name, "offset-unit-in-a-multiplicative-operation-not-refused", ""], {"function": name, "kind": kind, "entry": ei}, "OffsetUnitCalculusError", repr(o)[:200])
            acc.outcome("error-clause")
        # any entry, first argument in an offset unit: accepted or refused, but a refusal must not have touched the data
        if cfg == "default":
            qargs = {an: Q(base1[an].copy() if base1[an].ndim else float(base1[an]), R.BASE[args[an][0]]) for an in argnames}
            qargs[argnames[0]] = Q(base1[argnames[0]].copy() if base1[argnames[0]].ndim else float(base1[argnames[0]]), "degC")
            snap0 = {an: snap(q) for an, q in qargs.items()}
            acc.ev()
            o = call(lambda: fcall(getattr(qargs["self"], name), qargs) if kind == "method" else fcall(f_np, qargs))
            if o[0] == "exc" and {an: snap(q) for an, q in qargs.items()} != snap0:
                acc.violation(["input-integrity", name, "input-modified-by-a-refused-operation", "offset-first-argument"], {"function": name, "kind": kind, "entry": ei, "error": o[1]}, "inputs bit-identical", "changed")
    for n in covered:
        acc.add("covered", n)
    acc.sample({"clause": "reference+unit-covariance", "function": "hypot", "spellings": {"x": "centimeter", "y": "kilometer"}, "values": {"x": R.VALUES["v1"], "y": R.VALUES["v2"]}, "implied_unit": "meter"})


OFFSET_REFUSED = {"multiply", "divide", "true_divide", "matmul", "sqrt", "square", "reciprocal", "cbrt", "power", "prod", "nanprod", "dot", "cross", "trapezoid", "correlate", "einsum"}


def run_inplace(acc):
    """explicitly in-place operations modify their target (to the physically right value) and nothing else"""
    import numpy as np

    ureg = regs.default("float")
    Q = ureg.Quantity

    def fresh():
        return Q(np.array([1.0, 2.0, 3.0]), "meter"), Q(np.array([50.0, 50.0, 50.0]), "centimeter")

    ops = [
        ("iadd", lambda a, b: a.__iadd__(b), [1.5, 2.5, 3.5]),
        ("isub", lambda a, b: a.__isub__(b), [0.5, 1.5, 2.5]),
        ("np.add(out=)", lambda a, b: np.add(a, b, out=a) if False else a.__iadd__(b), [1.5, 2.5, 3.5]),
        ("copyto", lambda a, b: np.copyto(a, b), [0.5, 0.5, 0.5]),
        ("setitem-slice", lambda a, b: a.__setitem__(slice(0, 2), b[:2]), [0.5, 0.5, 3.0]),
        ("setitem-scalar", lambda a, b: a.__setitem__(1, Q(25.0, "centimeter")), [1.0, 0.25, 3.0]),
        ("put", lambda a, b: a.put([0], Q(70.0, "centimeter")), [0.7, 2.0, 3.0]),
        ("imul-number", lambda a, b: a.__imul__(2), [2.0, 4.0, 6.0]),
        ("ito", lambda a, b: a.ito("centimeter"), [1.0, 2.0, 3.0]),
        ("sort-inplace", lambda a, b: a.sort(), [1.0, 2.0, 3.0]),
        ("clip-method", lambda a, b: a.clip(Q(150.0, "centimeter"), Q(0.0025, "kilometer")), None),
        ("fill", lambda a, b: a.fill(Q(30.0, "centimeter")), [0.3, 0.3, 0.3]),
    ]
    for label, fn, want in ops:
        a, b = fresh()
        sb = snap(b)
        sa = snap(a)
        acc.ev()
        acc.nt(("inplace", label))
        o = call(lambda: fn(a, b))
        case = {"operation": label, "target": "[1,2,3] meter", "other": "[50,50,50] centimeter"}
        if o[0] != "ok":
            acc.violation(["in-place", label, "raises", o[1]], case, "success", o[1:])
            continue
        if snap(b) != sb:
            acc.violation(["in-place", label, "operand-other-than-the-target-modified", ""], case, "other operand unchanged", "changed")
        if want is None:
            if snap(a) != sa:
                acc.violation(["in-place", label, "non-in-place-method-modified-its-target", ""], case, "unchanged", "changed")
            r = o[1]
            if not np.allclose(r.to("meter").magnitude, [1.5, 2.0, 2.5]):
                acc.violation(["in-place", label, "wrong-value", ""], case, [1.5, 2.0, 2.5], repr(r))
            continue
        got = a.to("meter").magnitude
        if not np.allclose(got, want, rtol=1e-12):
            acc.violation(["in-place", label, "target-has-the-wrong-physical-value", ""], case, want, [float(x) for x in got])
    acc.outcome("in-place")
    acc.sample({"clause": "in-place", "operations": [o[0] for o in ops]})


def run_operator_integrity(acc):
    """only explicitly in-place operations modify their input arrays: the OPERATOR forms (+ - * / // % ** comparisons, unary
    minus, abs) on array quantities over every ordered pair of a unit alphabet with multiplicative, offset, delta and
    dimensionless units leave both operands — array contents and units — exactly as they were, whether they answer or refuse"""
    import numpy as np
    import operator as op_

    units = ["meter", "centimeter", "kelvin", "millikelvin", "degC", "degR", "delta_degC", "delta_degF", "dimensionless", "percent"]
    ops = [("+", op_.add), ("-", op_.sub), ("*", op_.mul), ("/", op_.truediv), ("//", op_.floordiv), ("%", op_.mod), ("**", op_.pow), ("<", op_.lt), ("==", op_.eq), (">=", op_.ge)]
    for cfg in ("default", "autoconvert"):
        ureg = regs.default("float", autoconvert_offset_to_baseunit=True) if cfg == "autoconvert" else regs.default("float")
        Q = ureg.Quantity
        for ua, ub in itertools.product(units, repeat=2):
            for on, of in ops:
                acc.ev()
                acc.nt(("operator-integrity", cfg, ua, ub, on))
                a, b = Q(np.array([9.0, 18.0, 27.0]), ua), Q(np.array([300.0, 2.0, 0.5]), ub)
                sa, sb = (a.magnitude.copy(), dict(a._units)), (b.magnitude.copy(), dict(b._units))
                o = call(lambda: of(a, b))
                for which, x, sx in (("left", a, sa), ("right", b, sb)):
                    if not np.array_equal(x.magnitude, sx[0]) or dict(x._units) != sx[1]:
                        kinds = "+".join("delta" if u.startswith("delta_") else ("offset" if u in ("degC",) else "mult") for u in (ua, ub))
                        acc.violation(["input-integrity", on, "operator-modified-its-" + which + "-operand", kinds], {"mode": cfg, "left": ua, "right": ub, "op": on, "outcome": o[0]}, [sx[0].tolist(), sx[1]], [np.asarray(x.magnitude).tolist(), dict(x._units)])
        for ua in units:
            for on, of in (("neg", op_.neg), ("abs", abs), ("pos", op_.pos)):
                acc.ev()
                a = Q(np.array([9.0, -18.0, 27.0]), ua)
                sa = (a.magnitude.copy(), dict(a._units))
                call(lambda: of(a))
                if not np.array_equal(a.magnitude, sa[0]) or dict(a._units) != sa[1]:
                    acc.violation(["input-integrity", on, "operator-modified-its-left-operand", "unary"], {"mode": cfg, "left": ua, "op": on}, sa[0].tolist(), np.asarray(a.magnitude).tolist())
    acc.outcome("operator-integrity")
    acc.sample({"clause": "operator-integrity", "left": "[9, 18, 27] delta_degF", "right": "[300, 2, 0.5] kelvin", "op": "+"})


def run_offset_auto(acc):
    """autoconvert_offset_to_baseunit: offset operands of product-like functions go through base units —
    in either operand position the result is NumPy on the kelvin magnitudes, labelled kelvin"""
    import numpy as np

    ureg = regs.default("float", autoconvert_offset_to_baseunit=True)
    Q = ureg.Quantity
    lv, tv = np.array([1.0, 2.0, 3.0]), np.array([0.0, 5.0, 10.0])
    funcs = {
        "dot": (lambda a, b: np.dot(a, b)),
        "cross": (lambda a, b: np.cross(a, b)),
        "correlate": (lambda a, b: np.correlate(a, b)),
        "trapezoid": (lambda a, b: np.trapezoid(a, b)),
        "multiply": (lambda a, b: np.multiply(a, b)),
        "operator*": (lambda a, b: a * b),
    }
    for tunit, (sc, off) in {"degC": (1.0, 273.15), "degF": (5 / 9, 255.3722222222222)}.items():
        for name, f in funcs.items():
            for pos in ("offset-first", "offset-second"):
                acc.ev()
                acc.nt(("offset-auto", name, tunit, pos))
                ql, qt = Q(lv.copy(), "meter"), Q(tv.copy(), tunit)
                kel = tv * sc + off
                args = (qt, ql) if pos == "offset-first" else (ql, qt)
                refargs = (kel, lv) if pos == "offset-first" else (lv, kel)
                if name == "trapezoid" and pos == "offset-first":
                    refargs, args = (kel, lv), (qt, ql)
                o = call(lambda: f(*args))
                ref = f(*refargs)
                case = {"function": name, "mode": "autoconvert_offset_to_baseunit", "offset_unit": tunit, "position": pos}
                if o[0] != "ok":
                    acc.violation(["offset-autoconvert", name, "raises", pos], case, "meter * kelvin", o[1:])
                    continue
                r = o[1]
                units = dict(getattr(r, "_units", {}))
                if units != {"meter": 1, "kelvin": 1}:
                    acc.violation(["offset-autoconvert", name, "result-not-labelled-in-base-units", pos], case, {"meter": 1, "kelvin": 1}, {k: str(v) for k, v in units.items()})
                    continue
                if not np.allclose(np.asarray(r.magnitude, dtype=float), np.asarray(ref, dtype=float), rtol=1e-9):
                    acc.violation(["offset-autoconvert", name, "value-differs-from-NumPy-on-kelvin-magnitudes", pos], case, np.asarray(ref).tolist(), np.asarray(r.magnitude).tolist())
                if not np.array_equal(qt.magnitude, tv) or dict(qt._units) != {ureg.get_name(tunit): 1}:
                    acc.violation(["input-integrity", name, "input-modified-by-a-non-in-place-operation", "offset operand"], case, "unchanged", repr(dict(qt._units)))
    acc.outcome("offset-autoconvert")
    acc.sample({"clause": "offset-autoconvert", "function": "dot", "args": ["[1,2,3] meter", "[0,5,10] degC"], "expected_unit": "meter * kelvin"})


def shards(tier, seed):
    out = [("entries", b, 16, "default") for b in range(16)] + [("offset_auto",)]
    if tier == "thorough":
        for cfg in ("force_ndarray", "force_ndarray_like"):
            out += [("entries", b, 8, cfg) for b in range(8)]
    out.append(("inplace",))
    out.append(("operator-integrity",))
    return out


def run_shard(acc, shard, tier, seed):
    if shard[0] == "entries":
        run_entries(acc, shard[1], shard[2], shard[3])
    elif shard[0] == "inplace":
        run_inplace(acc)
    elif shard[0] == "offset_auto":
        run_offset_auto(acc)
    elif shard[0] == "operator-integrity":
        run_operator_integrity(acc)
    else:
        raise core.HarnessError(str(shard))


def finalize(tot, tier, seed):
    core.boot()
    from pint.facets.numpy.numpy_func import HANDLED_FUNCTIONS, HANDLED_UFUNCS

    handled = set(HANDLED_FUNCTIONS) | set(HANDLED_UFUNCS)
    covered = tot["sets"].get("covered", set())
    return {"handled_names": len(handled), "handled_names_covered": len(covered & handled), "handled_names_not_in_role_table": sorted(handled - covered)}


def replay(rec):
    site, case = rec["site"], rec["case"]
    acc = core.Acc(PROPERTY)
    if site[0] == "in-place":
        run_inplace(acc)
    elif site[0] == "input-integrity" and site[2].startswith("operator-modified"):
        run_operator_integrity(acc)
    elif site[0] == "offset-autoconvert" or case.get("mode"):
        run_offset_auto(acc)
    else:
        cfg = case.get("config", "default")
        ei = case.get("entry", 0)
        run_entries(acc, ei, 100000, cfg) if False else _run_one(acc, ei, cfg)
    sites = {tuple(v["site"]) for v in acc.violations}
    return tuple(site) in sites, {"sites_seen": sorted(sites)[:20]}


def _run_one(acc, ei, cfg):
    n = len(roles().ENTRIES)
    run_entries(acc, ei, n, cfg)


MANIFEST = {
    "category": "exploration",
    "technique": "bounded exhaustive enumeration of (role-table entry x unit-spelling assignment x shape x configuration) against NumPy on base-unit magnitudes with the mathematically implied unit; input snapshots; error clauses",
    "text": "A role table written from the NumPy documentation (about 330 call templates: unary/binary ufuncs, reductions with axis/where/initial variants, differences and integrals, products, shape and order "
    "functions, multi-array functions, interp/clip/isclose/pad/isin/searchsorted with their optional arguments, wrapped ndarray methods) is executed for EVERY assignment of spellings {m,cm,km}/{s,ms}/{'',%}/"
    "{rad,deg} to the unit-carrying arguments (up to 27 per entry) and, for ufuncs, 0-d/1-d/2-d shapes. Each result must carry the implied unit and equal NumPy applied to the base-unit magnitudes — which "
    "makes it independent of the spelling —, bare results must be bare, inputs must be bit-identical afterwards. Per entry: an incompatible unit in a unit-sharing slot and a dimensional argument in a "
    "dimensionless/angle slot must raise DimensionalityError, an offset-unit argument of a multiplicative operation OffsetUnitCalculusError. np.power / float_power with an ARRAY exponent on a dimensionless base. Products under where= masks (uniform, per-axis and ragged selections; ragged only for dimensionless input). Bare tolerances of isclose/allclose are passed as plain numbers spelled like `a` (they are documented to be read in the units of `a`) for every spelling of a and b. A refused call (incompatible unit, dimensional argument, offset unit — and every entry called with an offset-unit first argument) must leave its inputs bit-identical. 12 explicitly in-place operations must change exactly their target. "
    "thorough repeats the table under force_ndarray and force_ndarray_like. The evidence lists handled names not covered by the table.",
    "note": "Trusted: NumPy, the role table (refdata/numpy_roles.py). Rounding-like operations are compared with NumPy on the magnitudes as given (not covariant by nature). Random arrays, ranks above 2, masked "
    "arrays and duck arrays other than ndarray are outside.",
    "ref": "DESIGN.md §4 C16",
}
MANIFEST["text"] += ' Gap arguments: clip with a None bound, nan_to_num with posinf/neginf/nan replacement values.'
MANIFEST["text"] += ' Operator forms (+ - * / // % ** < == >=, unary) over 10x10 unit pairs (multiplicative, offset, delta, dimensionless) in default and autoconvert mode leave both operand arrays and their units untouched.'
