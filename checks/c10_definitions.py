"""C10 — definition files mean what they say, independent of order and loading path.

E1 over programs (definition texts):
 (A) the bundled default_en.txt / constants_en.txt: every name, alias, symbol, dimensionality,
     root factor, group/system membership, context header and default vs the independent reader R1;
 (B) a generated family of small definition files: every permutation of the free unit/prefix
     lines x layout variants x loading paths {list of lines, file, define() per statement,
     @import split, cold disk cache, warm disk cache} x {float, Decimal, Fraction}: the whole
     read-only observation vector must equal R1's reading of the text (absolute part) and the
     canonical loading's vector (differential part);
 (C) a catalogue of ill-formed definition texts: each must raise at load time or at the first
     use of the affected name — never yield an answer."""
from __future__ import annotations

import itertools
import os
import shutil
import tempfile
from decimal import Decimal
from fractions import Fraction

from mc import core, regs
from mc.ref import defs

PROPERTY = "C10"
LEVEL = "exploration"
RULE = (
    "bundled files: all defined spellings, prefixes, groups, systems, contexts, defaults vs R1; generated files: 3 base models x all permutations of the 5 (quick) / 6 (thorough) free lines x 4 layouts x 7 loading "
    "paths x 3 numeric types (each path/layout on a rotating subset of permutations so that every permutation is loaded and every (layout,path) pair meets every model); ill-formed catalogue: 36 shapes. "
    "non-trivial = distinct (model, permutation, layout, path, numeric type) loading"
)
ASSUMPTIONS = [
    "R1 (mc/ref/defs.py) is the independent reading of a definition text",
    "system base-unit selection and context conversions are compared differentially here (against the canonical loading); their absolute semantics are C14's and C11's subjects",
    "units added with define() after construction are not expected in compatible-unit listings here (C13 decides that)",
]
SITE_GRAMMAR = "[clause, what-differs, variant-kind, detail]"

NIT = {"float": float, "Fraction": Fraction, "Decimal": Decimal}

# ----------------------------------------------------------------------------- generated family

HEAD = ["kilo- = 1e3 = k-", "milli- = 1e-3 = m- = mil-"]
BASE = ["ua = [A] = a_ = alias_a", "ub = [B]", "un = [] = n_", "[C] = [A] / [B]"]


def models():
    """(free lines — permuted, fixed tail)"""
    tails = [
        "uo = 2 * ub; offset: 5 = o_",
        "ul = 1e-3 ua; logbase: 10; logfactor: 10 = l_",
        "@group G1",
        "    ug1 = 7 * ua = g1_",
        "    ug2 = ug1 / 2",
        "@end",
        "@group G2 using G1",
        "    ug3 = 3 * ub",
        "@end",
        "@group G0",
        "    ug0 = 31 * ub",
        "@end",
        "@group G4 using G0, G1",
        "    ug4 = 23 * ub",
        "@end",
        "@group G5 using G2, G0",
        "    ug5 = 29 * ub",
        "@end",
        "@alias uc = calias = c_alias2",
        "@alias ug3 = g3alias",
        "@system S1 using G2",
        "    uc",
        "    ug3 : ub",
        "@end",
        "@context(n=1) ctx = cx",
        "    [A] -> [B]: value * 3 / n",
        "    [B] -> [A]: value / 3 * n",
        "    ud = 11 * ua / ub",
        "@end",
        "@defaults",
        "    group = G0",
        "    system = S1",
        "@end",
    ]
    for f1, f2, e in (("2", "1 / 3", "-1"), ("0.0254", "1e3", "2"), ("7 / 2", "0.5", "1")):
        free = [
            "micro- = 1e-6 = u-",
            f"uc = {f1} * ua = c_",
            f"ud = {f2} * uc * ub ** {e} = _ = dalias",
            "ue = 0.0254 * ud ** 2",
            "uf = 1e3 * kiloua / milliub = f_",
            "uh = microuc * un = h_ = halias",
        ]
        yield free, tails


def layout(lines, kind):
    out = []
    for ln in lines:
        if kind == "plain":
            out.append(ln)
        elif kind == "spaces":
            ind = len(ln) - len(ln.lstrip())
            body = ln.strip()
            if body.startswith("@") or "->" in body:
                out.append(ln)
            else:
                out.append(" " * ind + body.replace(" = ", "   =  ").replace(" * ", "  *  "))
        elif kind == "comments":
            out.append(ln + "   # trailing comment")
            out.append("# a comment line = with * tokens")
            out.append("")
        elif kind == "tabs":
            body = ln.strip()
            ind = len(ln) - len(ln.lstrip())
            out.append(("\t" if ind else "") + body.replace(" = ", "\t=\t") if not body.startswith("@") and "->" not in body and ":" not in body else ln)
    return out


PROBE_UNITS = ["ua", "a_", "alias_a", "ub", "un", "n_", "uc", "c_", "ud", "dalias", "ue", "uf", "f_", "uh", "h_", "halias", "ug1", "g1_", "ug2", "ug3", "kiloua", "ka_", "milliub", "milub", "microuc", "uc_", "kiloucs", "uo", "o_", "delta_uo", "ul", "l_", "calias", "c_alias2", "kilocalias", "kcalias", "millic_alias2s", "g3alias", "microg3alias"]


def num(x):
    if isinstance(x, float):
        return repr(x)
    return f"{type(x).__name__}:{x}"


def val(x):
    """numeric value as exact Fraction where possible (for cross-type comparison)"""
    try:
        return Fraction(x) if not isinstance(x, float) else Fraction(repr(x))
    except Exception:  # noqa
        return None


def call(fn):
    try:
        return ["ok", fn()]
    except Exception as e:  # noqa
        return ["exc", type(e).__name__]


def observe(ureg, with_listing=True):
    """the read-only observation vector of a generated-family registry"""
    obs = {}
    for n in PROBE_UNITS:

        def one():
            f, u = ureg.get_root_units(n, check_nonmult=False)
            return {
                "name": ureg.get_name(n),
                "symbol": ureg.get_symbol(n),
                "dim": sorted((k, str(Fraction(v))) for k, v in dict(ureg.get_dimensionality(n)).items()),
                "factor": str(val(f)),
                "factor_type": type(f).__name__,
                "root": sorted((k, str(Fraction(v))) for k, v in dict(u._units).items()),
            }

        obs["unit:" + n] = call(one)
    obs["conv:uo->ub"] = call(lambda: str(val(ureg.Quantity(3, "uo").to("ub").magnitude)))
    obs["conv:ub->uo"] = call(lambda: str(val(ureg.Quantity(3, "ub").to("uo").magnitude)))
    obs["conv:ue->uf"] = call(lambda: str(val(ureg.convert(1, "ue", "ua**2/ub**2"))) if True else None)
    obs["conv:ul"] = call(lambda: round(float(ureg.Quantity(20.0, "ul").to("ua").magnitude), 9))
    for g in ("G1", "G2", "G0", "root", "G4", "G5"):
        obs["group:" + g] = call(lambda: sorted(ureg.get_group(g, False).members))
    obs["system:S1"] = call(lambda: sorted(ureg.get_system("S1", False).members))
    obs["default_system"] = call(lambda: ureg.default_system)
    for n in ("ua", "uf", "ug1", "ue"):
        obs["base:" + n] = call(lambda: [str(val(ureg.get_base_units(n)[0])), sorted((k, str(Fraction(v))) for k, v in dict(ureg.get_base_units(n)[1]._units).items())])
        obs["base-none:" + n] = call(lambda: [str(val(ureg.get_base_units(n, system=None)[0]))])
    obs["ctx:A->B"] = call(lambda: str(val(ureg.Quantity(2, "ua").to("ub", "ctx").magnitude)))
    obs["ctx:alias,n=2"] = call(lambda: str(val(ureg.Quantity(2, "ua").to("ub", "cx", n=2).magnitude)))
    obs["ctx:B->A"] = call(lambda: str(val(ureg.Quantity(2, "ub").to("ua", "ctx").magnitude)))

    def redef():
        with ureg.context("ctx"):
            return str(val(ureg.Quantity(1, "ud").to("ua/ub").magnitude))

    obs["ctx:redef"] = call(redef)
    obs["ctx:outside"] = call(lambda: ureg.Quantity(2, "ua").to("ub").magnitude)
    if with_listing:
        obs["compat:ua"] = call(lambda: sorted(next(iter(u._units)) for u in ureg.get_compatible_units("ua")))
        obs["compat:ua,G2"] = call(lambda: sorted(next(iter(u._units)) for u in ureg.get_compatible_units("ua", "G2")))
    return obs


def expected_from_R1(lines):
    """absolute expectations R1 can state: names, symbols, dims, exact factors, roots, group members"""
    M = defs.read(lines)
    exp = {}
    for n in PROBE_UNITS:
        try:
            p, u = M.resolve(n)
            r = M.root(n)
            name = (p + u)
            sym = (M.prefixes[p].symbol if p else "") + M.units[u].symbol
            exp["unit:" + n] = {"name": name, "symbol": sym, "dim": sorted((k, str(v)) for k, v in M.dim(n).items()), "factor": str(r.coef), "root": sorted((k, str(v)) for k, v in r.units.items())}
        except defs.DefError:
            exp["unit:" + n] = None
    for g in ("G1", "G2", "G0", "root", "G4", "G5"):
        exp["group:" + g] = sorted(M.group_members(g))
    exp["system:S1"] = sorted(M.system_members("S1"))
    exp["default_system"] = M.defaults.get("system")
    return exp


def load(path_kind, lines, nt, scratch):
    """build a registry from `lines` through one loading path"""
    pint = core.boot()
    kw = {}
    if nt != "float":
        kw["non_int_type"] = NIT[nt]
    if path_kind == "lines":
        return pint.UnitRegistry(list(lines), cache_folder=None, **kw)
    if path_kind == "file":
        p = os.path.join(scratch, "defs.txt")
        with open(p, "w", encoding="utf-8") as fh:
            fh.write("\n".join(lines) + "\n")
        return pint.UnitRegistry(p, cache_folder=None, **kw)
    if path_kind in ("import", "import-early"):
        # "import-early": a one-line main file that stays byte-identical across the whole family while the
        # imported file varies (and lives in another directory each time)
        k = max(3, len(lines) // 3) if path_kind == "import" else 1
        def inside_block(idx):
            depth = 0
            for ln in lines[:idx]:
                t = ln.strip()
                if t.startswith("@end"):
                    depth = 0
                elif t.startswith("@") and not t.startswith(("@alias", "@import")):
                    depth = 1
            return depth == 1

        while inside_block(k):  # never cut a block in two (layouts interleave unindented comment lines)
            k += 1
        p1, p2 = os.path.join(scratch, "main.txt"), os.path.join(scratch, "part2.txt")
        with open(p1, "w", encoding="utf-8") as fh:
            fh.write("\n".join(lines[:k]) + "\n@import part2.txt\n")
        with open(p2, "w", encoding="utf-8") as fh:
            fh.write("\n".join(lines[k:]) + "\n")
        return pint.UnitRegistry(p1, cache_folder=None, **kw)
    if path_kind in ("cold-cache", "warm-cache"):
        p = os.path.join(scratch, "defs.txt")
        with open(p, "w", encoding="utf-8") as fh:
            fh.write("\n".join(lines) + "\n")
        cf = os.path.join(scratch, "cache")
        r = pint.UnitRegistry(p, cache_folder=cf, **kw)
        if path_kind == "warm-cache":
            r = pint.UnitRegistry(p, cache_folder=cf, **kw)
        return r
    if path_kind == "cache-from-another-process":
        # the disk cache is written by ANOTHER interpreter (its own string-hash salt) and read here
        import subprocess
        import sys

        p = os.path.join(scratch, "defs.txt")
        with open(p, "w", encoding="utf-8") as fh:
            fh.write("\n".join(lines) + "\n")
        cf = os.path.join(scratch, "cache")
        child = "import sys; sys.path.insert(0, sys.argv[1]); import pint, decimal, fractions; nit = {'float': float, 'Decimal': decimal.Decimal, 'Fraction': fractions.Fraction}[sys.argv[4]]; pint.UnitRegistry(sys.argv[2], cache_folder=sys.argv[3], **({} if nit is float else {'non_int_type': nit}))"
        env = dict(os.environ)
        env["PYTHONHASHSEED"] = "12345"
        r = subprocess.run([sys.executable, "-W", "ignore", "-c", child, core.REPO, p, cf, nt], capture_output=True, text=True, env=env, timeout=300)
        if r.returncode != 0:
            raise core.HarnessError("child interpreter failed: " + r.stderr[-300:])
        return pint.UnitRegistry(p, cache_folder=cf, **kw)
    if path_kind == "same-main-file-elsewhere-cached":
        # two directories hold a byte-identical main file whose '@import part2.txt' means a DIFFERENT file in each;
        # both are loaded through one disk-cache folder (two checkouts sharing ~/.cache/pint): the second registry
        # must read ITS OWN part2
        k = 1
        da, db = os.path.join(scratch, "dir_a"), os.path.join(scratch, "dir_b")
        os.makedirs(da, exist_ok=True)
        os.makedirs(db, exist_ok=True)
        wrong = [ln.replace("7 * ua", "9 * ua").replace("3 * ub", "4 * ub").replace("offset: 5", "offset: 6") for ln in lines[k:]]
        for d, body in ((da, wrong), (db, lines[k:])):
            with open(os.path.join(d, "main.txt"), "w", encoding="utf-8") as fh:
                fh.write("\n".join(lines[:k]) + "\n@import part2.txt\n")
            with open(os.path.join(d, "part2.txt"), "w", encoding="utf-8") as fh:
                fh.write("\n".join(body) + "\n")
        cf = os.path.join(scratch, "cache")
        pint.UnitRegistry(os.path.join(da, "main.txt"), cache_folder=cf, **kw)
        return pint.UnitRegistry(os.path.join(db, "main.txt"), cache_folder=cf, **kw)
    if path_kind == "import-edited":
        # a main file importing a second one, loaded through the disk cache; then ONLY the imported file is edited
        # and the registry is built again from the same cache folder: the cache must notice
        k = 1
        p1, p2 = os.path.join(scratch, "main.txt"), os.path.join(scratch, "part2.txt")
        with open(p1, "w", encoding="utf-8") as fh:
            fh.write("\n".join(lines[:k]) + "\n@import part2.txt\n")
        wrong = [ln.replace("7 * ua", "9 * ua").replace("3 * ub", "4 * ub").replace("offset: 5", "offset: 6") for ln in lines[k:]]
        if wrong == list(lines[k:]):
            raise core.HarnessError("the edited import must differ")
        with open(p2, "w", encoding="utf-8") as fh:
            fh.write("\n".join(wrong) + "\n")
        cf = os.path.join(scratch, "cache")
        pint.UnitRegistry(p1, cache_folder=cf, **kw)
        with open(p2, "w", encoding="utf-8") as fh:
            fh.write("\n".join(lines[k:]) + "\n")
        st_ = os.stat(p2)
        os.utime(p2, (st_.st_atime + 5, st_.st_mtime + 5))
        return pint.UnitRegistry(p1, cache_folder=cf, **kw)
    if path_kind == "define":
        # one define() per statement (a block is one statement), on top of an empty registry
        r = pint.UnitRegistry(None, cache_folder=None, **kw)
        stmt = []
        for ln in lines:
            s = ln.strip()
            if not s or s.startswith("#"):
                continue
            if stmt:
                stmt.append(ln)
                if s.startswith("@end"):
                    r.define("\n".join(stmt))
                    stmt = []
                continue
            if s.startswith("@") and not s.startswith("@alias"):
                stmt = [ln]
                continue
            r.define(ln)
        r._after_init() if False else None
        return r
    raise core.HarnessError(path_kind)


LAYOUTS = ["plain", "spaces", "comments", "tabs"]
PATHS = ["lines", "file", "import", "cold-cache", "warm-cache", "define", "import-early", "import-edited", "cache-from-another-process", "same-main-file-elsewhere-cached"]


def diff_keys(a, b, skip=()):
    return [k for k in a if k not in skip and a.get(k) != b.get(k)]


def run_generated(acc, mi, nt, tier):
    free, tails = list(models())[mi]
    nfree = 5 if tier == "quick" else 6
    fixed_free = free[nfree:]
    scratch = tempfile.mkdtemp(prefix="c10_", dir=os.environ.get("VERIF_SCRATCH"))
    try:
        canon_lines = HEAD + BASE + free + tails
        canon = observe(load("lines", canon_lines, nt, scratch))
        exp = expected_from_R1(canon_lines)
        # absolute part: the canonical loading says what the text says
        check_absolute(acc, canon, exp, nt, {"model": mi, "nt": nt, "variant": "canonical"}, "canonical")
        combos = list(itertools.product(LAYOUTS, PATHS))
        for pi, perm in enumerate(itertools.permutations(free[:nfree])):
            lay, path = combos[pi % len(combos)]
            if path == "cache-from-another-process" and lay != "plain":
                path = "warm-cache"  # a child interpreter costs seconds: one layout is enough for a path that differs in the PROCESS only
            lines = HEAD[:1] + list(perm[:2]) + HEAD[1:] + BASE + list(perm[2:]) + fixed_free + tails
            text = layout(lines, lay)
            sub = os.path.join(scratch, f"p{pi}")
            os.makedirs(sub, exist_ok=True)
            acc.ev()
            acc.nt((mi, nt, pi, lay, path))
            case = {"model": mi, "nt": nt, "permutation": list(perm), "layout": lay, "path": path, "lines": text}
            o = call(lambda: load(path, text, nt, sub))
            if o[0] != "ok":
                acc.violation(["generated", "loading-raises", path, lay], case, "a registry", o[1])
                continue
            obs = observe(o[1], with_listing=(path != "define"))
            skip = ("compat:ua", "compat:ua,G2") if path == "define" else ()
            if path == "define":
                skip = skip + ("group:G0", "group:G4", "group:G5", "default_system") + tuple(f"{b}:{n}" for b in ("base", "base-none") for n in ("ua", "uf", "ug1", "ue"))  # _after_init work: default group / system are constructor-time
            d = diff_keys(canon, obs, skip)
            if d:
                k = d[0]
                acc.violation(["generated", "observation-differs-from-canonical-loading", path if path != "lines" or lay != "plain" else "permutation", k.split(":")[0]], dict(case, key=k), canon[k], obs.get(k))
            check_absolute(acc, obs, exp, nt, case, path)
            acc.outcome(path)
            shutil.rmtree(sub, ignore_errors=True)
    finally:
        shutil.rmtree(scratch, ignore_errors=True)
    acc.sample({"clause": "generated", "model": mi, "nt": nt, "canonical_lines": canon_lines[:12], "layouts": LAYOUTS, "paths": PATHS})


def check_absolute(acc, obs, exp, nt, case, variant):
    for k, e in exp.items():
        o = obs.get(k)
        if k.startswith("unit:"):
            if e is None:
                continue
            acc.ev()
            if o is None or o[0] != "ok":
                if k in ("unit:ul", "unit:l_"):
                    continue
                acc.violation(["generated", "unit-not-usable", variant, k[5:]], case, e, o)
                continue
            got = o[1]
            for field in ("name", "symbol", "dim", "root"):
                if got[field] != e[field]:
                    acc.violation(["generated", "differs-from-definition-text", variant, field], dict(case, unit=k[5:]), e[field], got[field])
            if nt == "Fraction":
                if got["factor"] != e["factor"]:
                    acc.violation(["generated", "differs-from-definition-text", variant, "factor"], dict(case, unit=k[5:]), e["factor"], got["factor"])
                if got["factor_type"] not in ("int", "Fraction"):
                    acc.violation(["generated", "numeric-literal-not-in-registry-type", variant, nt], dict(case, unit=k[5:]), "int or Fraction", got["factor_type"])
            else:
                ef, gf = float(Fraction(e["factor"])), float(Fraction(got["factor"]))
                if abs(ef - gf) > 1e-12 * abs(ef):
                    acc.violation(["generated", "differs-from-definition-text", variant, "factor"], dict(case, unit=k[5:]), e["factor"], got["factor"])
                if nt == "Decimal" and got["factor_type"] not in ("int", "Decimal"):
                    acc.violation(["generated", "numeric-literal-not-in-registry-type", variant, nt], dict(case, unit=k[5:]), "int or Decimal", got["factor_type"])
        elif k.startswith("group:") or k.startswith("system:"):
            if variant == "define" and k in ("group:G0", "group:G4", "group:G5"):  # they use the default group, which is filled at construction time
                continue
            acc.ev()
            if o != ["ok", e]:
                acc.violation(["generated", "differs-from-definition-text", variant, k.split(":")[0] + "-members"], dict(case, key=k), e, o)
        elif k == "default_system":
            if variant != "define" and o != ["ok", e]:
                acc.violation(["generated", "differs-from-definition-text", variant, "default-system"], case, e, o)


# ----------------------------------------------------------------------------- bundled files


def run_bundled(acc, nt):
    M = defs.default_model(core.REPO)
    ureg = regs.default(nt)
    st = M.spelling_table()
    acc.dim("bundled spellings", len(st))
    # every spelling denotes the unit it is written next to
    for s, canon in st.items():
        acc.ev()
        acc.nt(("bundled", nt, s))
        ud = M.units[canon]
        o = call(lambda: ureg._units[s])
        if o[0] != "ok" or o[1].name != canon:
            acc.violation(["bundled", "spelling-denotes-another-unit", "name", ""], {"nt": nt, "spelling": s}, canon, o[1].name if o[0] == "ok" else o)
            continue
        d = o[1]
        if d.symbol != ud.symbol:
            acc.violation(["bundled", "differs-from-definition-text", "symbol", ""], {"nt": nt, "unit": canon}, ud.symbol, d.symbol)
        if set(d.aliases) != set(ud.aliases):
            acc.violation(["bundled", "differs-from-definition-text", "aliases", ""], {"nt": nt, "unit": canon}, sorted(ud.aliases), sorted(d.aliases))
        kind = "log" if getattr(d.converter, "is_logarithmic", False) else ("offset" if not d.converter.is_multiplicative else "scale")
        want_kind = ud.kind if not (ud.kind == "offset" and ud.is_multiplicative) else "scale"
        if kind != want_kind:
            acc.violation(["bundled", "differs-from-definition-text", "converter-kind", ""], {"nt": nt, "unit": canon}, want_kind, kind)
        if want_kind == "offset":
            off = Fraction(d.converter.offset) if nt != "float" else Fraction(repr(d.converter.offset))
            if (nt == "Fraction" and off != ud.modifiers["offset"]) or abs(float(off) - float(ud.modifiers["offset"])) > 1e-12 * abs(float(ud.modifiers["offset"])):
                acc.violation(["bundled", "differs-from-definition-text", "offset", ""], {"nt": nt, "unit": canon}, str(ud.modifiers["offset"]), str(off))
    # the registry defines nothing the text does not (except lazily registered prefixed names)
    extra = [k for k in ureg._units if k not in st and not M.readings(k)]
    if extra:
        acc.violation(["bundled", "registry-defines-spellings-not-in-the-text", "", ""], {"nt": nt}, [], extra[:10])
    for pn, pd in M.prefixes.items():
        acc.ev()
        o = call(lambda: ureg._prefixes[pn])
        if o[0] != "ok":
            acc.violation(["bundled", "prefix-missing", "", ""], {"nt": nt, "prefix": pn}, pn, o)
            continue
        d = o[1]
        v = Fraction(d.value) if not isinstance(d.value, float) else Fraction(repr(d.value))
        if d.symbol != pd.symbol or set(d.aliases) != set(pd.aliases) or abs(float(v) - float(pd.value.coef)) > 1e-12 * float(pd.value.coef) or (nt == "Fraction" and v != pd.value.coef):
            acc.violation(["bundled", "differs-from-definition-text", "prefix", ""], {"nt": nt, "prefix": pn}, [pd.symbol, sorted(pd.aliases), str(pd.value.coef)], [d.symbol, sorted(d.aliases), str(v)])
        if nt != "float" and isinstance(d.value, float):
            acc.violation(["bundled", "numeric-literal-not-in-registry-type", "prefix", nt], {"nt": nt, "prefix": pn}, nt, "float")
        for sp in pd.spellings():
            if ureg._prefixes.get(sp) is not d:
                acc.violation(["bundled", "differs-from-definition-text", "prefix-spelling", ""], {"nt": nt, "prefix": pn, "spelling": sp}, pn, repr(ureg._prefixes.get(sp)))
    for g in list(M.groups) + [M.defaults["group"], "root"]:
        acc.ev()
        o = call(lambda: sorted(ureg.get_group(g, False).members))
        want = sorted(M.group_members(g))
        if o != ["ok", want]:
            got = set(o[1]) if o[0] == "ok" else set()
            acc.violation(["bundled", "differs-from-definition-text", "group-members", g], {"nt": nt, "group": g}, {"missing": sorted(set(want) - got)[:8], "extra": sorted(got - set(want))[:8]}, o[0])
    for s_ in M.systems:
        acc.ev()
        o = call(lambda: sorted(ureg.get_system(s_, False).members))
        want = sorted(M.system_members(s_))
        if o != ["ok", want]:
            got = set(o[1]) if o[0] == "ok" else set()
            acc.violation(["bundled", "differs-from-definition-text", "system-members", s_], {"nt": nt, "system": s_}, {"missing": sorted(set(want) - got)[:8], "extra": sorted(got - set(want))[:8]}, o[0])
    for c, cd in M.contexts.items():
        acc.ev()
        o = call(lambda: ureg._contexts[c])
        if o[0] != "ok":
            acc.violation(["bundled", "context-missing", "", c], {"nt": nt, "context": c}, c, o)
            continue
        ctx = o[1]
        if sorted(ctx.aliases) != sorted(cd["aliases"]) or sorted(ctx.defaults) != sorted(cd["defaults"]):
            acc.violation(["bundled", "differs-from-definition-text", "context-header", c], {"nt": nt, "context": c}, [cd["aliases"], sorted(cd["defaults"])], [list(ctx.aliases), sorted(ctx.defaults)])
        for al in cd["aliases"]:
            if ureg._contexts.get(al) is not ctx:
                acc.violation(["bundled", "differs-from-definition-text", "context-alias", c], {"nt": nt, "context": c, "alias": al}, c, repr(ureg._contexts.get(al)))
        nrules = sum(2 if bi else 1 for _, _, bi, _ in cd["rules"])
        if len(ctx.funcs) != nrules:
            acc.violation(["bundled", "differs-from-definition-text", "context-rule-count", c], {"nt": nt, "context": c}, nrules, len(ctx.funcs))
        if len(ctx.redefinitions) != len(cd["redefs"]):
            acc.violation(["bundled", "differs-from-definition-text", "context-redefinitions", c], {"nt": nt, "context": c}, len(cd["redefs"]), len(ctx.redefinitions))
    if ureg.default_system != M.defaults.get("system"):
        acc.violation(["bundled", "differs-from-definition-text", "default-system", ""], {"nt": nt}, M.defaults.get("system"), ureg.default_system)
    acc.sample({"clause": "bundled", "nt": nt, "spelling": "fahrenheit", "denotes": st["fahrenheit"], "checks": ["name", "symbol", "aliases", "converter kind", "offset"]})


# ----------------------------------------------------------------------------- ill-formed catalogue

GOOD = ["kilo- = 1e3 = k-", "ua = [A] = a_", "ub = [B]", "uc = 2 * ua"]
ILL = [
    ("invalid-unit-name-digit", ["1abc = 2 * ua"], "1abc"),
    ("invalid-unit-name-operator", ["a+b = 2 * ua"], "a+b"),
    ("invalid-unit-name-space", ["a b = 2 * ua"], "a b"),
    ("invalid-alias", ["ux = 2 * ua = x_ = bad alias"], "ux"),
    ("mixed-dimension-and-unit", ["ux = 2 * ua * [B]"], "ux"),
    ("derived-dimension-references-unit", ["[X] = [A] * ua", "ux = [X]"], "ux"),
    ("base-unit-with-scale", ["ux = 2 * [X]"], "ux"),
    ("cycle-1", ["ux = 2 * ux"], "ux"),
    ("cycle-2", ["ux = 2 * uy", "uy = 3 * ux"], "ux"),
    ("cycle-3", ["ux = 2 * uy", "uy = 3 * uz", "uz = 5 * ux"], "uz"),
    ("non-numeric-offset", ["ux = ua; offset: abc"], "ux"),
    ("unknown-modifier", ["ux = ua; foo: 3"], "ux"),
    ("non-numeric-logbase", ["ux = ua; logbase: x; logfactor: 10"], "ux"),
    ("unknown-directive", ["@foo bar", "ux = 2 * ua"], "ux"),
    ("unterminated-group", ["@group G", "    ux = 2 * ua"], "ux"),
    ("unterminated-context", ["@context c", "    [A] -> [B]: value"], "ua"),
    ("unterminated-system", ["@system S", "    ua"], "ua"),
    ("end-without-block", ["@end", "ux = 2 * ua"], "ux"),
    ("empty-value", ["ux = = x_"], "ux"),
    ("no-value", ["ux ="], "ux"),
    ("alias-of-unknown-unit", ["@alias nosuch = x_"], "x_"),
    ("reference-to-undefined-unit", ["ux = 2 * nosuch"], "ux"),
    ("non-numeric-prefix", ["zeta- = abc"], "zetaua"),
    ("prefix-with-units", ["zeta- = 2 * ua"], "zetaua"),
    ("context-rule-unknown-dimension-syntax", ["@context c", "    [A] => [B]: value", "@end"], None),
    ("context-redefines-unknown-unit", ["@context c", "    nosuch = 3 * ua", "@end"], "ctx:c"),
    ("context-defines-base-unit", ["@context c", "    ux = [X]", "@end"], "ctx:c"),
    ("context-bad-default", ["@context(n=) c", "    [A] -> [B]: value * n", "@end"], "ctx:c"),
    ("group-using-unknown", ["@group G using Nosuch", "    ux = 2 * ua", "@end"], "grp:G"),
    ("system-unknown-unit", ["@system S", "    nosuch", "@end"], "sys:S"),
    ("system-rule-unknown-old", ["@system S", "    uc : nosuch", "@end"], "sys:S"),
    ("defaults-unknown-system", ["@defaults", "    system = Nosuch", "@end"], "default"),
    ("unbalanced-parenthesis", ["ux = 2 * (ua"], "ux"),
    ("dangling-operator", ["ux = 2 * "], "ux"),
    ("number-as-name", ["3 = 2 * ua"], "3"),
]


def run_illformed(acc):
    pint = core.boot()
    for name, bad, probe in ILL:
        for pos in ("end", "middle"):
            lines = GOOD + bad if pos == "end" else GOOD[:2] + bad + GOOD[2:]
            for nt in ("float", "Fraction"):
                acc.ev()
                acc.nt(("ill", name, pos, nt))
                kw = {} if nt == "float" else {"non_int_type": Fraction}
                case = {"shape": name, "lines": lines, "nt": nt}
                o = call(lambda: pint.UnitRegistry(list(lines), cache_folder=None, **kw))
                if o[0] == "exc":
                    acc.outcome("raises-at-load")
                    continue
                ureg = o[1]
                # first use of the affected name
                if probe is None:
                    uses = [lambda: ureg.get_dimensionality("[X]"), lambda: ureg.Quantity(1, "ux").to_root_units()]
                elif probe.startswith("ctx:"):
                    uses = [lambda: ureg.Quantity(1, "ua").to("ub", probe[4:])]
                elif probe.startswith("grp:"):
                    uses = [lambda: ureg.get_group(probe[4:], False).members]
                elif probe.startswith("sys:"):
                    uses = [lambda: ureg.get_base_units("uc", system=probe[4:]), lambda: ureg.get_system(probe[4:], False).members]
                elif probe == "default":
                    uses = [lambda: ureg.Quantity(1, "uc").to_base_units()]
                else:
                    uses = [lambda: ureg.get_root_units(probe), lambda: ureg.Quantity(1, probe).to_root_units(), lambda: ureg.get_dimensionality(probe)]
                outs = [call(u) for u in uses]
                if all(x[0] == "ok" for x in outs):
                    acc.violation(["ill-formed", "silently-given-a-meaning", name, ""], case, "an error at load time or at first use", [repr(x[1])[:80] for x in outs])
                    acc.outcome("accepted")
                else:
                    acc.outcome("raises-at-first-use")
    acc.sample({"clause": "ill-formed", "shape": "cycle-2", "lines": GOOD + ["ux = 2 * uy", "uy = 3 * ux"]})


# ----------------------------------------------------------------------------- dispatch


def run_system_rules(acc):
    """a @system block means: its listed units become base units, a rule `new : old` putting `new` in the place of root
    unit `old`. Every rule form — `new` alone and `new : old` with new = 5 * old**e * other**f, e in {1, 2, 3, -1, -2},
    f in {0, 1, -1, 2} — loaded from lines and from a file (cold and warm disk cache), float and Fraction: base-unit answers
    use only the system's base units and preserve the physical value (oracle shared with C14)"""
    from checks.c14_systems_groups import check_base
    import tempfile
    pint = core.boot()
    for e, f, form in itertools.product((1, 2, 3, -1, -2), (0, 1, -1, 2), ("new : old", "new")):
        if form == "new" and f != 0:
            continue  # without a rule the unit to replace is inferred, which needs a single root unit
        expr = f"5 * ua ** {e}" + (f" * ub ** {f}" if f else "")
        lines = ["ua = [A]", "ub = [B]", "uc = [C]", f"nu = {expr}", "other = 3 * ua * uc", "@system S", "    nu : ua" if form == "new : old" else "    nu", "@end"]
        try:
            M = defs.read(lines)
        except defs.DefError:
            continue
        exact = {}
        # (thirds are not binary fractions: with e = 3 a float registry accumulates exponents like -1.6666666666666665 and
        # then refuses the conversion — the recorded float-exponent design limit, not this clause's subject)
        for nt in (("Fraction", "float") if e != 3 else ("Fraction",)):
            for path_kind in ("lines", "file", "file-warm-cache"):
                scratch = tempfile.mkdtemp(prefix="c10sys_", dir=os.environ.get("VERIF_SCRATCH") or None)
                try:
                    kw = {} if nt == "float" else {"non_int_type": NIT[nt]}
                    if path_kind == "lines":
                        ureg = pint.UnitRegistry(list(lines), cache_folder=None, **kw)
                    else:
                        pth = os.path.join(scratch, "defs.txt")
                        with open(pth, "w", encoding="utf-8") as fh:
                            fh.write("\n".join(lines) + "\n")
                        cf = os.path.join(scratch, "cache") if path_kind == "file-warm-cache" else None
                        ureg = pint.UnitRegistry(pth, cache_folder=cf, **kw)
                        if cf:
                            ureg = pint.UnitRegistry(pth, cache_folder=cf, **kw)
                    for units in ({"nu": 1}, {"ua": 1}, {"ub": 1}, {"other": 1}, {"ua": 1, "ub": -1}, {"nu": 2, "uc": -1}, {"other": 1, "nu": -1}):
                        acc.nt(("system-rule", e, f, form, nt, path_kind, tuple(units.items())))
                        extra = {"definition": f"nu = {expr}", "rule": form, "path": path_kind, "nt": nt}
                        if nt == "Fraction":
                            n0 = len(acc.violations)
                            r = check_base(acc, M, ureg, units, "S", "system-rule")
                            for v in acc.violations[n0:]:
                                v["case"].update(extra)
                            exact[(path_kind, tuple(units.items()))] = r
                        else:
                            # the float registry gives the same answer up to rounding
                            r = exact.get((path_kind, tuple(units.items())))
                            acc.ev()
                            o = call(lambda: ureg.get_base_units(ureg.UnitsContainer(units), system="S"))
                            if r is None:
                                continue
                            ok = o[0] == "ok" and {k: Fraction(v).limit_denominator(1000) for k, v in dict(o[1][1]._units).items()} == r[1] and abs(float(o[1][0]) - float(r[0])) <= 1e-12 * abs(float(r[0]))
                            if not ok:
                                acc.violation(["system-rule", "get_base_units", "float-registry-differs-from-the-exact-registry", "S"], dict(extra, units={k: str(v) for k, v in units.items()}), [str(r[0]), {k: str(v) for k, v in r[1].items()}], repr(o)[:200])
                finally:
                    shutil.rmtree(scratch, ignore_errors=True)
    acc.outcome("system-rules")
    acc.sample({"clause": "system-rule", "definition": "nu = 5 * ua ** 2 * ub ** -1", "rule": "nu : ua", "probe": "get_base_units(ua, system='S')"})


def run_dimension_orders(acc):
    """derived dimensions may be written in any order — a dimension referred to before its own line is still the
    dimension its line says: all permutations of four derived-dimension lines (a chain [C] <- [D] <- [E] and [F] using two of
    them) among the unit lines, from lines and from a file, float and Fraction: get_dimensionality of every dimension and of
    a unit of each, and Quantity.check, agree with the independent reader and do not depend on the order"""
    import tempfile
    pint = core.boot()
    units = ["ua = [A]", "ub = [B]", "uc = ua / ub", "ud = ua / ub ** 2", "ue = ua ** 2 / ub ** 2", "uf = ua ** 3 / ub ** 3"]
    dims_ = ["[C] = [A] / [B]", "[D] = [C] / [B]", "[E] = [D] * [A]", "[F] = [C] * [E]"]
    want = {"[C]": {"[A]": 1, "[B]": -1}, "[D]": {"[A]": 1, "[B]": -2}, "[E]": {"[A]": 2, "[B]": -2}, "[F]": {"[A]": 3, "[B]": -3}}
    unit_of = {"[C]": "uc", "[D]": "ud", "[E]": "ue", "[F]": "uf"}
    for perm in itertools.permutations(dims_):
        for pos in (0, 2, len(units)):
            lines = units[:pos] + list(perm) + units[pos:]
            for nt in ("float", "Fraction"):
                for path_kind in ("lines", "file"):
                    acc.ev()
                    acc.nt(("dimension-order", perm, pos, nt, path_kind))
                    case = {"lines": lines, "nt": nt, "path": path_kind}
                    kw = {} if nt == "float" else {"non_int_type": NIT[nt]}
                    scratch = None
                    try:
                        if path_kind == "lines":
                            o = call(lambda: pint.UnitRegistry(list(lines), cache_folder=None, **kw))
                        else:
                            scratch = tempfile.mkdtemp(prefix="c10dim_", dir=os.environ.get("VERIF_SCRATCH") or None)
                            pth = os.path.join(scratch, "defs.txt")
                            with open(pth, "w", encoding="utf-8") as fh:
                                fh.write("\n".join(lines) + "\n")
                            o = call(lambda: pint.UnitRegistry(pth, cache_folder=None, **kw))
                    finally:
                        if scratch:
                            shutil.rmtree(scratch, ignore_errors=True)
                    if o[0] != "ok":
                        acc.violation(["dimension-order", "loading-raises", "derived-dimensions-in-this-order", nt], case, "a registry", o[1])
                        continue
                    ureg = o[1]
                    for d, w in want.items():
                        g1 = call(lambda: {k: Fraction(v) for k, v in dict(ureg.get_dimensionality(d)).items()})
                        g2 = call(lambda: {k: Fraction(v) for k, v in dict(ureg.get_dimensionality(unit_of[d])).items()})
                        g3 = call(lambda: ureg.Quantity(1, unit_of[d]).check(d))
                        if tuple(g1) != ("ok", w) or tuple(g2) != ("ok", w) or tuple(g3) != ("ok", True):
                            first = [ln.split("=")[0].strip() for ln in perm].index(d)
                            acc.violation(["dimension-order", "get_dimensionality", "derived-dimension-means-something-else-in-this-order", "referred-to-before-its-line" if any(d in ln.split("=")[1] for ln in perm[:first]) else "defined-first"], dict(case, dimension=d), w and {k: str(v) for k, v in w.items()}, repr([g1, g2, g3])[:200])
                            break
    acc.outcome("dimension-orders")
    acc.sample({"clause": "dimension-order", "lines": ["[D] = [C] / [B]", "[C] = [A] / [B]"], "expected": "[D] = [A] / [B]**2"})


def shards(tier, seed):
    out = [("bundled", nt) for nt in ("float", "Fraction", "Decimal")]
    for mi in range(3):
        for nt in ("float", "Fraction", "Decimal"):
            out.append(("generated", mi, nt))
    out.append(("illformed",))
    out.append(("system-rules",))
    out.append(("dimension-orders",))
    return out


def run_shard(acc, shard, tier, seed):
    k = shard[0]
    if k == "bundled":
        run_bundled(acc, shard[1])
    elif k == "generated":
        run_generated(acc, shard[1], shard[2], tier)
    elif k == "illformed":
        run_illformed(acc)
    elif k == "system-rules":
        run_system_rules(acc)
    elif k == "dimension-orders":
        run_dimension_orders(acc)
    else:
        raise core.HarnessError(str(shard))


def replay(rec):
    site, case = rec["site"], rec["case"]
    acc = core.Acc(PROPERTY)
    if site[0] == "bundled":
        run_bundled(acc, case.get("nt", "float"))
    elif site[0] == "system-rule":
        run_system_rules(acc)
    elif site[0] == "dimension-order":
        run_dimension_orders(acc)
    elif site[0] == "generated":
        run_generated(acc, case.get("model", 0), case.get("nt", "float"), rec.get("tier", "quick"))
    else:
        run_illformed(acc)
    sites = {tuple(v["site"]) for v in acc.violations}
    return tuple(site) in sites, {"sites_seen": sorted(sites)[:20]}


MANIFEST = {
    "category": "exploration",
    "technique": "bounded exhaustive enumeration of definition texts (all permutations of the free lines x layouts x loading paths x numeric types) with an independent reader as absolute oracle and the canonical loading as differential oracle; catalogue of ill-formed texts",
    "text": "The bundled files are compared entry by entry with R1 (every spelling -> unit, symbol, aliases, converter kind and offset, every prefix spelling and value, transitive group and system membership, "
    "context names/aliases/defaults/rule counts, defaults). Three generated 34-line definition files (prefixes, base/derived units in a DAG with rational factors, placeholder symbol, aliases on the unit line and on @alias lines — probed bare, prefixed by name and by symbol, and pluralised —, an offset and a log "
    "unit, four groups with 'using' (incl. two that use two groups at once, the default group first and last), a system with both rule forms, a context with defaults/rules/redefinition, defaults) are loaded in EVERY permutation of 5 (6 thorough) free unit/prefix lines, cycling through 4 "
    "layouts x 10 loading paths (a byte-identical main file in another directory loaded through the same disk cache, lines, file, @import split, cold and warm disk cache, one define() per statement, an imported file edited between two cached loads, a disk cache written by another interpreter process with another hash salt) in float, Decimal and Fraction: a 67-key read-only observation vector must equal R1's reading "
    "(names, symbols, dimensionality, exact factors, roots, memberships) and the canonical loading's vector (conversions, system base units, context conversions, listings). 36 ill-formed shapes x 2 positions x 2 "
    "types must raise at load or first use.",
    "note": "Trusted: R1. System base-unit choice and context arithmetic are only compared across loadings here (absolute semantics: C14, C11). define()-after-construction listings are C13's subject and are not "
    "compared on the define path. Permutations move unit/prefix lines only (blocks stay in place).",
    "ref": "DESIGN.md §4 C10",
}
MANIFEST["text"] += " System rule forms: `new` and `new : old` with new = 5 * old**e * other**f (e in {1,2,3,-1,-2}, f in {0,1,-1,2}) from lines, file and warm disk cache, Fraction and float: base-unit answers use only the system's base units and preserve the physical value."
MANIFEST["text"] += ' Dimension-line orders: all 24 orders of four chained derived-dimension lines at 3 positions among the unit lines, from lines and file, float and Fraction.'
