"""C11 — context conversions apply the declared rules along a shortest chain.

E1 over programs (context rule graphs) and configurations (stacks, activation forms):
 * all 794 rule sets with <= 4 directed rules over 4 dimensionalities, every (src, dst) unit pair,
   each rule multiplying by its own prime so that the converted value identifies the chain applied;
 * all ordered stacks of 2 (quick) / 3 (thorough) contexts drawn from the 79 contexts with <= 2
   rules (13 with <= 1 for triples), primes per (context, edge), every activation form;
 * parameters: call keyword > enclosing context > declared default, with prime-valued parameters;
 * redefinitions and their transitive effect, exactly inside the block;
 * every rule of every bundled context, evaluated independently from the rule text with R1
   monomials and compared for several unit pairs.
Oracle R5: all shortest chains by BFS over the union graph, each edge from the most recent context."""
from __future__ import annotations

import collections
import itertools
from fractions import Fraction

from mc import core, regs
from mc.ref import defs

PROPERTY = "C11"
LEVEL = "exploration"
RULE = (
    "single contexts: all 794 rule graphs with <=4 of the 12 directed edges over 4 dimensionalities x 16 (src,dst) dimension pairs x 2 units per dimension; stacks: all ordered pairs of the 79 graphs with <=2 "
    "rules (thorough: + all ordered triples of the 13 with <=1 rule) x 12 pairs x 4 activation forms; parameters: 3 sources x 4 forms; activation histories: all sequences of <=3 (4) activations over 21 events (4 contexts declared in text or built programmatically, rule endpoints written as a derived dimension, 3 activation forms, with / without a per-activation parameter, nestings); redefinitions: 3 units x inside/outside/nested; bundled contexts: every "
    "rule x <=3x3 unit pairs x parameter values. non-trivial = distinct (rule set(s), src, dst, form) with src dimension != dst dimension"
)
ASSUMPTIONS = [
    "each generated rule multiplies by a distinct prime, so by unique factorisation the converted value names the chain that was applied",
    "R5: any shortest chain is acceptable where several exist; which enclosing context supplies a parameter when several differ is not asserted",
    "bundled rule equations are evaluated independently with R1 monomial arithmetic (float tolerance 1e-12 because of the sqrt rules)",
]
SITE_GRAMMAR = "[clause, activation-form-or-api, failure-kind, detail]"

DIMS = ["A", "B", "C", "D"]
EDGES = [(a, b) for a in DIMS for b in DIMS if a != b]
PRIMES = [3, 5, 7, 11, 13, 17, 19, 23, 29, 31, 37, 41, 43, 47, 53, 59, 61, 67, 71, 73, 79, 83, 89, 97, 103, 107, 109, 113, 127, 131, 137, 139, 149, 151, 157, 163, 167, 173, 179, 181, 191, 193, 197, 199, 211, 223, 227, 229, 233, 239, 241, 251, 257, 263, 269, 271, 277, 281, 283, 293, 307, 311, 313, 317, 331, 337, 347, 349, 353, 359, 367, 373, 379, 383, 389, 397, 401, 409, 419, 421, 431, 433, 439, 443, 449, 457, 461, 463, 467, 479, 487, 491, 499, 503, 509, 521, 523, 541, 547, 557, 563, 569, 571, 577, 587, 593, 599, 601, 607, 613, 617, 619, 631, 641, 643, 647, 653, 659, 661, 673, 677, 683, 691, 701, 709, 719, 727, 733, 739, 743, 751, 757, 761, 769, 773, 787, 797, 809, 811, 821, 823, 827, 829, 839, 853, 857, 859, 863, 877, 881, 883, 887, 907, 911, 919, 929, 937, 941, 947, 953, 967, 971, 977, 983, 991, 997]

BASE_LINES = [
    "ua = [A]", "ub = [B]", "uc = [C]", "ud = [D]",
    "ka = 10 * ua", "kb = 100 * ub", "kc = 1000 * uc", "kd = 7 * ud",
]
UNITS = {"A": ["ua", "ka"], "B": ["ub", "kb"], "C": ["uc", "kc"], "D": ["ud", "kd"]}
UFAC = {"ua": 1, "ka": 10, "ub": 1, "kb": 100, "uc": 1, "kc": 1000, "ud": 1, "kd": 7}


def graphs(maxrules):
    out = [()]
    for k in range(1, maxrules + 1):
        out.extend(itertools.combinations(EDGES, k))
    return out


def ctx_text(name, rules, alias=None, param=None):
    """rules: {(src,dst): prime}"""
    head = "@context" + (f"({param[0]}={param[1]})" if param else "") + f" {name}" + (f" = {alias}" if alias else "")
    lines = [head]
    for (a, b), p in rules.items():
        eq = f"value * {p} * u{b.lower()} / u{a.lower()}" + (f" * {param[0]}" if param else "")
        lines.append(f"    [{a}] -> [{b}]: {eq}")
    lines.append("@end")
    return lines


def shortest_chains(stack, src, dst):
    """stack: list of rule dicts, LAST = most recently enabled. Returns list of products (ints), [] if unreachable.
    src == dst -> [1]."""
    if src == dst:
        return [1]
    edge = {}
    for rules in stack:  # later contexts overwrite: most recent wins
        for e, p in rules.items():
            edge[e] = p
    adj = collections.defaultdict(list)
    for (a, b) in edge:
        adj[a].append(b)
    dist = {src: 0}
    order = collections.deque([src])
    while order:
        x = order.popleft()
        for y in adj[x]:
            if y not in dist:
                dist[y] = dist[x] + 1
                order.append(y)
    if dst not in dist:
        return []
    # all shortest paths
    prods = []

    def walk(x, prod):
        if x == dst:
            prods.append(prod)
            return
        for y in adj[x]:
            if dist.get(y) == dist[x] + 1 and dist[y] <= dist[dst]:
                walk(y, prod * edge[(x, y)])

    walk(src, 1)
    return prods


def call(fn):
    try:
        return ("ok", fn())
    except Exception as e:  # noqa
        return ("exc", type(e).__name__)


def expect_value(prods, su, du, x=1, extra=1):
    return [Fraction(x) * p * extra * Fraction(UFAC[su], UFAC[du]) for p in prods]


# ----------------------------------------------------------------------------- single contexts


def run_single(acc, block, nblocks, tier):
    gs = graphs(4)
    acc.dim("rule graphs (<=4 rules)", len(gs))
    eprime = {e: PRIMES[i] for i, e in enumerate(EDGES)}
    mine = [(i, g) for i, g in enumerate(gs) if i % nblocks == block]
    lines = list(BASE_LINES)
    for i, g in mine:
        lines += ctx_text(f"g{i}", {e: eprime[e] for e in g}, alias=f"g{i}x")
    ureg = regs.tiny(lines, non_int_type="Fraction")
    Q = ureg.Quantity
    for i, g in mine:
        rules = {e: eprime[e] for e in g}
        for a in DIMS:
            for b in DIMS:
                prods = shortest_chains([rules], a, b)
                for su in UNITS[a]:
                    for du in UNITS[b][: (2 if a != b else 1)]:
                        acc.ev()
                        if a != b:
                            acc.nt(("single", i, su, du))
                        name = f"g{i}" if (i + len(su)) % 2 else f"g{i}x"  # by name and by alias
                        o = call(lambda: Q(2, su).to(du, name).magnitude)
                        case = {"rules": [list(e) for e in g], "src": su, "dst": du, "context": name}
                        check(acc, "single-context", "to(target, ctx)", o, prods, su, du, 2, case)
                        # inside a with-block; predicates agree
                        if a != b and su == UNITS[a][0] and du == UNITS[b][0]:
                            def blk():
                                with ureg.context(name):
                                    return (ureg.convert(2, su, du), Q(2, su).is_compatible_with(du), ureg.Unit(su).is_compatible_with(du))
                            o2 = call(blk)
                            if prods:
                                if o2[0] != "ok" or o2[1][0] not in expect_value(prods, su, du, 2) or o2[1][1] is not True or o2[1][2] is not True:
                                    acc.violation(["single-context", "with-block", "differs-from-shortest-chain", "reachable"], case, [str(v) for v in expect_value(prods, su, du, 2)], repr(o2))
                            elif o2 != ("exc", "DimensionalityError"):
                                acc.violation(["single-context", "with-block", "unreachable-target-does-not-raise-DimensionalityError", ""], case, "DimensionalityError", repr(o2))
                            o3 = call(lambda: Q(2, su).is_compatible_with(du, name))
                            if o3 != ("ok", bool(prods)):
                                acc.violation(["single-context", "is_compatible_with(ctx)", "disagrees-with-reachability", ""], case, bool(prods), repr(o3))
                            # outside any context the conversion is refused again
                            o4 = call(lambda: Q(2, su).to(du))
                            if o4 != ("exc", "DimensionalityError"):
                                acc.violation(["single-context", "after-block", "context-conversion-available-outside", ""], case, "DimensionalityError", repr(o4))
        acc.outcome(f"rules={len(g)}")
    acc.sample({"clause": "single-context", "rules": [["A", "B"], ["B", "C"]], "src": "ua", "dst": "kc", "expected": "2 * 3 * 17 / 1000 (primes of A->B and B->C)"})


def check(acc, clause, form, o, prods, su, du, x, case, extra=1):
    if not prods:
        if o != ("exc", "DimensionalityError"):
            acc.violation([clause, form, "unreachable-target-does-not-raise-DimensionalityError", ""], case, "DimensionalityError", repr(o))
        acc.outcome("unreachable")
        return
    want = expect_value(prods, su, du, x, extra)
    if o[0] != "ok":
        acc.violation([clause, form, "reachable-target-raises", ""], case, [str(v) for v in want], repr(o))
    elif o[1] not in want:
        # classify: a longer chain? a stale/less recent rule?
        acc.violation([clause, form, "differs-from-shortest-chain", "same-dimension" if prods == [1] else "cross-dimension"], case, [str(v) for v in want], str(o[1]))
    acc.outcome("same-dimension" if prods == [1] else "chain")


# ----------------------------------------------------------------------------- stacks

FORMS = ["to(target, c1, c2)", "with ctx(c1, c2)", "nested with", "enable_contexts x2"]


def build_pool(maxrules):
    gs = [g for g in graphs(maxrules) if g]
    lines = list(BASE_LINES)
    pool = []
    k = 0
    for i, g in enumerate(gs):
        rules = {}
        for e in g:
            rules[e] = PRIMES[k % len(PRIMES)]
            k += 1
        pool.append(rules)
        lines += ctx_text(f"c{i}", rules)
    return lines, pool


def activate(ureg, names, form, fn):
    if form.startswith("to("):
        return fn(names)
    if form.startswith("with ctx("):
        with ureg.context(*names):
            return fn(())
    if form == "nested with":
        def rec(rest):
            if not rest:
                return fn(())
            with ureg.context(rest[0]):
                return rec(rest[1:])
        return rec(list(names))
    if form.startswith("enable_contexts"):
        try:
            for n in names:
                ureg.enable_contexts(n)
            return fn(())
        finally:
            ureg.disable_contexts(len(names))
    raise core.HarnessError(form)


def run_stacks(acc, depth, maxrules, block, nblocks):
    lines, pool = build_pool(maxrules)
    # unique primes are needed to tell contexts apart
    nprimes = sum(len(r) for r in pool)
    if nprimes > len(PRIMES):
        raise core.HarnessError("not enough primes")
    ureg = regs.tiny(lines, non_int_type="Fraction")
    Q = ureg.Quantity
    n = len(pool)
    acc.dim(f"context pool (<= {maxrules} rules)", n)
    for si, stack in enumerate(itertools.product(range(n), repeat=depth)):
        if si % nblocks != block:
            continue
        if len(set(stack)) != depth:
            continue
        names = [f"c{i}" for i in stack]
        rstack = [pool[i] for i in stack]
        for a, b in EDGES:
            prods = shortest_chains(rstack, a, b)
            single = [shortest_chains([r], a, b) for r in rstack]
            if not prods and not any(single):
                continue
            su, du = UNITS[a][0], UNITS[b][1]
            for form in FORMS:
                acc.ev()
                acc.nt(("stack", stack, a, b, form))
                o = call(lambda: activate(ureg, names, form, lambda extra: Q(1, su).to(du, *extra).magnitude))
                case = {"stack (last = most recent)": [[list(e) + [p] for e, p in r.items()] for r in rstack], "src": su, "dst": du, "form": form}
                check(acc, "context-stack", form, o, prods, su, du, 1, case)
        # the stack leaves nothing behind
        if ureg._active_ctx.contexts:
            acc.violation(["context-stack", "after", "contexts-left-active", ""], {"stack": names}, [], len(ureg._active_ctx.contexts))
            ureg.disable_contexts()
    acc.sample({"clause": "context-stack", "stack": [[["A", "B", 3]], [["A", "B", 5], ["B", "C", 7]]], "src": "ua", "dst": "kc", "forms": FORMS})


# ----------------------------------------------------------------------------- parameters


def run_params(acc):
    lines = list(BASE_LINES)
    lines += ctx_text("p1", {("A", "B"): 3}, alias="p1x", param=("n", 101))
    lines += ctx_text("p2", {("B", "C"): 5}, param=("n", 211))
    lines += ctx_text("q0", {("C", "D"): 7})
    ureg = regs.tiny(lines, non_int_type="Fraction")
    Q = ureg.Quantity
    cases = []
    # (description, thunk, expected)
    cases.append(("declared default", lambda: Q(1, "ua").to("ub", "p1").magnitude, 3 * 101))
    cases.append(("declared default via alias", lambda: Q(1, "ua").to("ub", "p1x").magnitude, 3 * 101))
    cases.append(("call keyword", lambda: Q(1, "ua").to("ub", "p1", n=103).magnitude, 3 * 103))

    def with_kw():
        with ureg.context("p1", n=107):
            return Q(1, "ua").to("ub").magnitude

    cases.append(("with-block keyword", with_kw, 3 * 107))

    def nested_inherit():
        with ureg.context("p1", n=107):
            with ureg.context("p2"):
                return Q(1, "ub").to("uc").magnitude

    cases.append(("enclosing context supplies n", nested_inherit, 5 * 107))

    def nested_override():
        with ureg.context("p1", n=107):
            with ureg.context("p2", n=109):
                return (Q(1, "ub").to("uc").magnitude, Q(1, "ua").to("ub").magnitude)

    cases.append(("call keyword beats enclosing; outer keeps its own", nested_override, (5 * 109, 3 * 107)))

    def chain_two():
        with ureg.context("p1", n=107):
            with ureg.context("p2", n=109):
                return Q(1, "ua").to("uc").magnitude

    cases.append(("chain through both parameterised contexts", chain_two, 3 * 107 * 5 * 109))

    def enable_form():
        ureg.enable_contexts("p1", n=113)
        try:
            return Q(1, "ua").to("ub").magnitude
        finally:
            ureg.disable_contexts()

    cases.append(("enable_contexts keyword", enable_form, 3 * 113))

    def deco():
        @ureg.with_context("p1", n=127)
        def f(q):
            return q.to("ub").magnitude

        return f(Q(1, "ua"))

    cases.append(("with_context decorator keyword", deco, 3 * 127))

    def obj_form():
        ctx = ureg._contexts["p1"]
        return Q(1, "ua").to("ub", ctx, n=131).magnitude

    cases.append(("context object + keyword", obj_form, 3 * 131))

    def reenter():
        a = Q(1, "ua").to("ub", "p1", n=137).magnitude
        b = Q(1, "ua").to("ub", "p1").magnitude
        return (a, b)

    cases.append(("re-entry without keyword falls back to the declared default", reenter, (3 * 137, 3 * 101)))
    for desc, fn, want in cases:
        acc.ev()
        acc.nt(("param", desc))
        o = call(fn)
        if o != ("ok", want):
            acc.violation(["parameters", desc, "wrong-parameter-value-used", ""], {"contexts": ["p1(n=101): A->B *3*n", "p2(n=211): B->C *5*n"]}, str(want), repr(o))
        if ureg._active_ctx.contexts:
            ureg.disable_contexts()
    acc.outcome("parameters")
    acc.sample({"clause": "parameters", "cases": [c[0] for c in cases]})


# ----------------------------------------------------------------------------- activation histories of parameterised contexts

PH_LINES = BASE_LINES + ["[E] = [A] / [B]", "ue = ua / ub", "ke = 10 * ue", "kz = 10 * ue", "kzz = 2 * kz"] + [
    "@context(n=101) t1 = t1x",
    "    [E] -> [C]: value * 3 * n * uc / ue",
    "    kz = 30 * ue",
    "@end",
    "@context t0",
    "    [E] -> [A]: value * 11 * ua / ue",
    "@end",
]
# context -> (target unit, prime, declared default of n or None)
PH_CTX = {"t1": ("uc", 3, 101), "t0": ("ua", 11, None), "g1": ("ud", 5, 211), "g0": ("ub", 7, None)}
# what 1 kz is worth in ue while the context is active (t1 and g1 redefine kz; kzz = 2 kz follows transitively)
PH_KZ = {"t1": 30, "t0": 10, "g1": 50, "g0": 10}
PH_K = 103


def ph_registry():
    """two contexts declared in the text and two built programmatically; every rule starts at a DERIVED dimension
    written by name ([E] = [A]/[B]), so the registry has to rewrite the endpoints to base dimensions when it first
    activates the context"""
    pint = core.boot()
    ureg = regs.tiny(PH_LINES, non_int_type="Fraction")
    g1 = pint.Context("g1", defaults={"n": 211})
    g1.add_transformation("[E]", "[D]", lambda ureg, x, n, **kw: x * 5 * n * ureg.Quantity(1, "ud/ue"))
    g1.redefine("kz = 50 * ue")
    ureg.add_context(g1)
    g0 = pint.Context("g0")
    g0.add_transformation("[E]", "[B]", lambda ureg, x, **kw: x * 7 * ureg.Quantity(1, "ub/ue"))
    ureg.add_context(g0)
    return ureg


def ph_events():
    ev = []
    for c, (tgt, p, dflt) in PH_CTX.items():
        ev.append(("to", c, None))
        ev.append(("with", c, None))
        ev.append(("enable", c, None))
        if dflt is not None:
            ev.append(("to", c, PH_K))
            ev.append(("with", c, PH_K))
            ev.append(("enable", c, PH_K))
    # an enclosing parameterised context supplies n to an inner one that is entered without it
    ev.append(("nested", "t1", "g1"))
    ev.append(("nested", "g1", "t1"))
    ev.append(("nested", "g1", "g0"))
    return ev


def ph_apply(ureg, ev):
    """-> (observed, expected): [rule conversion of 1 ue, 1 kz in ue, 1 kzz in ue] with the event's context active"""
    Q = ureg.Quantity
    form, c, k = ev
    if form == "nested":
        outer, inner = c, k
        tgt, p, dflt = PH_CTX[inner]
        want = p * (107 if dflt is not None else 1)
        kz = PH_KZ[inner] if PH_KZ[inner] != 10 else PH_KZ[outer]  # the innermost redefinition wins, else the outer one still holds
        with ureg.context(outer, n=107):
            with ureg.context(inner):
                return [Q(1, "ue").to(tgt).magnitude, Q(1, "kz").to("ue").magnitude, Q(1, "kzz").to("ue").magnitude], [want, kz, 2 * kz]
    tgt, p, dflt = PH_CTX[c]
    want = [p * ((k if k is not None else dflt) if dflt is not None else 1), PH_KZ[c], 2 * PH_KZ[c]]
    kw = {} if k is None else {"n": k}
    if form == "to":
        return [Q(1, "ue").to(tgt, c, **kw).magnitude, Q(1, "kz").to("ue", c, **kw).magnitude, Q(1, "kzz").to("ue", c, **kw).magnitude], want
    if form == "with":
        with ureg.context(c, **kw):
            return [Q(1, "ke").to(tgt).magnitude / 10, Q(1, "kz").to("ue").magnitude, Q(1, "kzz").to("ue").magnitude], want
    ureg.enable_contexts(c, **kw)
    try:
        return [Q(1, "ue").to(tgt).magnitude, Q(1, "kz").to("ue").magnitude, Q(1, "kzz").to("ue").magnitude], want
    finally:
        ureg.disable_contexts()


def run_param_histories(acc, depth, first):
    """every sequence of <= depth activations (with and without a per-activation parameter, in the three
    activation forms, plus nestings) on a fresh registry: each activation must convert with ITS parameter value,
    whatever was activated before and however"""
    evs = ph_events()
    acc.dim("activation events", len(evs))
    for n in range(1, depth + 1):
        for rest in itertools.product(evs, repeat=n - 1):
            hist = (first,) + rest
            ureg = ph_registry()
            for i, ev in enumerate(hist):
                acc.ev()
                o = call(lambda: ph_apply(ureg, ev))
                if ureg._active_ctx.contexts:
                    ureg.disable_contexts()
                if o[0] != "ok" or o[1][0] != o[1][1]:
                    kind = "raises" if o[0] != "ok" else ("wrong-parameter-value-or-rule-used" if o[1][0][0] != o[1][1][0] else "redefinition-not-in-force")
                    acc.violation(["activation-history", ev[0], kind, "first-activation" if i == 0 else "after-" + hist[i - 1][0] + ("(n=)" if hist[i - 1][2] not in (None,) and hist[i - 1][0] != "nested" else "")],
                                  {"history": [list(e) for e in hist], "step": i}, o[1][1] if o[0] == "ok" else "a number", repr(o[1][0] if o[0] == "ok" else o[1]))
                    break
            acc.nt(("ph", hist))
            # afterwards nothing is active and plain conversions across dimensions are refused again
            acc.ev()
            o = call(lambda: ureg.Quantity(1, "ue").to("uc"))
            if o[0] != "exc" or o[1] != "DimensionalityError":
                acc.violation(["activation-history", "outside", "conversion-allowed-with-no-context-active", ""], {"history": [list(e) for e in hist]}, "DimensionalityError", repr(o))
            o = call(lambda: [ureg.Quantity(1, "kz").to("ue").magnitude, ureg.Quantity(1, "kzz").to("ue").magnitude])
            if o != ("ok", [10, 20]):
                acc.violation(["activation-history", "outside", "redefinition-still-in-force-with-no-context-active", ""], {"history": [list(e) for e in hist]}, [10, 20], repr(o))
    acc.outcome("activation-histories")
    acc.sample({"clause": "activation-history", "history": [["to", "g1", 103], ["with", "g1", None]], "expected": [5 * 103, 5 * 211]})


# ----------------------------------------------------------------------------- a context object edited between activations


def run_mutation(acc):
    """a Context is a live object: a redefinition or a rule added to it AFTER it was activated (and left) is in force at
    the next activation, in every activation form and whatever form was used before — as it is in a registry that sees
    the edited context for the first time"""
    pint = core.boot()
    forms = ("to", "with", "enable")

    def build():
        ureg = regs.tiny(PH_LINES, non_int_type="Fraction")
        c = pint.Context("m1")
        c.add_transformation("[E]", "[D]", lambda ureg, x, **kw: x * 5 * ureg.Quantity(1, "ud/ue"))
        c.redefine("kz = 40 * ue")
        ureg.add_context(c)
        return ureg, c

    def observe(ureg, form):
        Q = ureg.Quantity
        if form == "to":
            return [call(lambda: Q(1, "kz").to("ue", "m1").magnitude), call(lambda: Q(1, "kzz").to("ue", "m1").magnitude), call(lambda: Q(1, "ue").to("ud", "m1").magnitude), call(lambda: Q(1, "ue").to("ub", "m1").magnitude)]
        if form == "with":
            with ureg.context("m1"):
                return [call(lambda: Q(1, "kz").to("ue").magnitude), call(lambda: Q(1, "kzz").to("ue").magnitude), call(lambda: Q(1, "ue").to("ud").magnitude), call(lambda: Q(1, "ue").to("ub").magnitude)]
        ureg.enable_contexts("m1")
        try:
            return [call(lambda: Q(1, "kz").to("ue").magnitude), call(lambda: Q(1, "kzz").to("ue").magnitude), call(lambda: Q(1, "ue").to("ud").magnitude), call(lambda: Q(1, "ue").to("ub").magnitude)]
        finally:
            ureg.disable_contexts()

    edits = {
        "redefine kz again": (lambda c: c.redefine("kz = 70 * ue"), {0: 70, 1: 140}),
        "add a rule": (lambda c: c.add_transformation("[E]", "[B]", lambda ureg, x, **kw: x * 13 * ureg.Quantity(1, "ub/ue")), {3: 13}),
        "redefine another unit": (lambda c: c.redefine("kzz = 3 * kz"), {1: None}),
    }
    base = [("ok", 40), ("ok", 80), ("ok", 5), ("exc", "DimensionalityError")]
    for f1, f2 in itertools.product(forms, repeat=2):
        for order in itertools.permutations(edits):
            ureg, c = build()
            want = list(base)
            hist = [f"activate ({f1})"]
            o = observe(ureg, f1)
            acc.ev()
            if o != want:
                acc.violation(["context-edited", f1, "first-activation-wrong", ""], {"history": hist}, want, o)
                continue
            for ename in order:
                fn, eff = edits[ename]
                fn(c)
                hist.append(ename)
                for k, v in eff.items():
                    want[k] = ("ok", v)
                # kzz = 2 kz unless redefined to 3 kz
                kzv = want[0][1]
                want[1] = ("ok", (3 if "redefine another unit" in hist else 2) * kzv)
                acc.ev()
                acc.nt(("mutation", f1, f2, order, len(hist)))
                hist.append(f"activate ({f2})")
                o = observe(ureg, f2)
                if o != want:
                    acc.violation(["context-edited", f2, "edit-of-the-context-object-not-in-force-at-the-next-activation", ename], {"history": list(hist)}, [list(w) for w in want], [list(x) for x in o])
                    break
    acc.outcome("context-edited")
    acc.sample({"clause": "context-edited", "history": ["activate (to)", "redefine kz again", "activate (with)"], "expected": "1 kz == 70 ue inside the context"})


# ----------------------------------------------------------------------------- redefinitions


def run_redefs(acc):
    lines = list(BASE_LINES) + [
        "inch = 2 * ua", "foot = 12 * inch", "mile = 5280 * foot", "speedy = mile / ub", "degx = 2 * ua; offset: 5",
        "@context r4", "    degx = 7 * ua; offset: 3", "@end",
        "@context r1", "    foot = 10 * inch", "@end",
        "@context r2", "    inch = 3 * ua", "@end",
        "@context r3 = r3x", "    [A] -> [B]: value * 3 * ub / ua", "    foot = 11 * inch", "@end",
    ]
    ureg = regs.tiny(lines, non_int_type="Fraction")
    Q = ureg.Quantity

    def probes():
        return {
            "foot->ua": Q(1, "foot").to("ua").magnitude,
            "mile->ua": Q(1, "mile").to("ua").magnitude,
            "mile->inch": Q(1, "mile").to("inch").magnitude,
            "speedy->ua/ub": Q(1, "speedy").to("ua/ub").magnitude,
            "root(mile)": ureg.get_root_units("mile")[0],
            "kilofoot->ua": Q(1, "kilofoot").to("ua").magnitude if False else Q(1, "foot").to_root_units().magnitude,
            # an offset unit redefined by a context takes its delta counterpart along
            "degx->ua": Q(1, "degx").to("ua").magnitude,
            "delta_degx->ua": Q(1, "delta_degx").to("ua").magnitude,
            "degx-difference->ua": (Q(30, "degx") - Q(20, "degx")).to("ua").magnitude,
        }

    def expect(foot_in, inch_ua, dx=(2, 5)):
        f = foot_in * inch_ua
        return {"foot->ua": f, "mile->ua": 5280 * f, "mile->inch": 5280 * foot_in, "speedy->ua/ub": 5280 * f, "root(mile)": 5280 * f, "kilofoot->ua": f,
                "degx->ua": dx[0] + dx[1], "delta_degx->ua": dx[0], "degx-difference->ua": 10 * dx[0]}

    outside = expect(12, 2)
    plan = [
        ("outside", [], outside),
        ("r1", ["r1"], expect(10, 2)),
        ("r2", ["r2"], expect(12, 3)),
        ("r1+r2", ["r1", "r2"], expect(10, 3)),
        ("r2+r1", ["r2", "r1"], expect(10, 3)),
        ("r3 (rule + redefinition)", ["r3"], expect(11, 2)),
        ("r1 then r3: most recent wins", ["r1", "r3"], expect(11, 2)),
        ("r3 then r1: most recent wins", ["r3", "r1"], expect(10, 2)),
        ("r4 (offset unit)", ["r4"], expect(12, 2, (7, 3))),
        ("r4 + r1", ["r4", "r1"], expect(10, 2, (7, 3))),
        ("r2 + r4", ["r2", "r4"], expect(12, 3, (7, 3))),
    ]
    for rep in range(2):  # second round re-uses the cached overlays
        for desc, names, want in plan:
            for form in ("with ctx(c1, c2)", "nested with", "enable_contexts x2"):
                acc.ev()
                acc.nt(("redef", desc, form, rep))
                o = call(lambda: activate(ureg, names, form, lambda extra: probes())) if names else call(probes)
                case = {"contexts": names, "form": form, "round": rep}
                if o[0] != "ok":
                    acc.violation(["redefinition", form, "raises", desc], case, {k: str(v) for k, v in want.items()}, repr(o))
                    continue
                bad = {k: (str(want[k]), str(o[1][k])) for k in want if o[1][k] != want[k]}
                if bad:
                    acc.violation(["redefinition", form, "redefinition-not-applied-transitively-or-wrong-precedence", desc], case, {k: v[0] for k, v in bad.items()}, {k: v[1] for k, v in bad.items()})
                # after leaving: exactly the outside values again
                o2 = call(probes)
                bad2 = {k: str(o2[1][k]) for k in outside if o2[0] == "ok" and o2[1][k] != outside[k]} if o2[0] == "ok" else {"raises": repr(o2)}
                if bad2:
                    acc.violation(["redefinition", form, "redefinition-visible-after-the-block", desc], case, {k: str(v) for k, v in outside.items()}, bad2)
    acc.outcome("redefinitions")
    acc.sample({"clause": "redefinition", "contexts": ["r1: foot = 10 inch", "r2: inch = 3 ua"], "probes": ["foot->ua", "mile->ua", "speedy->ua/ub"]})


# ----------------------------------------------------------------------------- partial unwinding of mixed stacks

UW_LINES = list(BASE_LINES) + [
    "inch = 2 * ua", "foot = 12 * inch",
    "@context n1", "    foot = 10 * inch", "@end",          # redefinition only: no rule at all
    "@context n2", "    inch = 3 * ua", "@end",             # redefinition only
    "@context s3", "    [A] -> [B]: value * 3 * ub / ua", "@end",
    "@context s5", "    [A] -> [B]: value * 5 * ub / ua", "    [B] -> [C]: value * 7 * uc / ub", "@end",
]
UW_CTX = {"n1": {}, "n2": {}, "s3": {("A", "B"): 3}, "s5": {("A", "B"): 5, ("B", "C"): 7}}
UW_EVENTS = [("en", c) for c in UW_CTX] + [("dis", 1), ("dis", 2)] + [("call", c) for c in UW_CTX] + [("icall", "n1"), ("icall", "s5")]  # icall: the in-place form q.ito(unit, ctx)


def uw_model(stack):
    """rule factors in force for a stack (oldest first): the most recently enabled context owning a rule wins"""
    rules = {}
    for c in stack:
        rules.update(UW_CTX[c])
    foot = (10 if "n1" in stack else 12) * (3 if "n2" in stack else 2)
    want = {"ua->ub": rules.get(("A", "B")), "ub->uc": rules.get(("B", "C")), "foot->ua": foot}
    want["ua->uc"] = rules[("A", "B")] * rules[("B", "C")] if ("A", "B") in rules and ("B", "C") in rules else None
    return want


def uw_probe(ureg, *ctx, inplace=False):
    Q = ureg.Quantity
    out = {}
    # a listing asked first, inside the same activation: a question, it changes no later conversion
    call(lambda: (Q(1, "ua").compatible_units(), ureg.get_compatible_units("ub"), Q(1, "ua").is_compatible_with("uc")))
    for name, (a, b) in {"ua->ub": ("ua", "ub"), "ub->uc": ("ub", "uc"), "ua->uc": ("ua", "uc"), "foot->ua": ("foot", "ua")}.items():
        o = call((lambda: (lambda q: (q.ito(b, *ctx), q.magnitude)[1])(Q(1, a))) if inplace else (lambda: Q(1, a).to(b, *ctx).magnitude))
        out[name] = o[1] if o[0] == "ok" else (None if o[1] == "DimensionalityError" else o[1])
    return out


def run_unwind(acc, depth, first):
    """every history of enable / disable(1|2) / per-call activation over two rule-less (redefinition only) and two rule-carrying
    contexts, replayed on a fresh registry: after every event, rules and redefinitions in force are those of the model stack"""
    def rec(hist, stack_hist):
        ureg = regs.tiny(UW_LINES, non_int_type="Fraction")
        stack, ok = [], True
        for i, ev in enumerate(hist):
            if ev[0] == "en":
                if ev[1] in stack:
                    return False
                ureg.enable_contexts(ev[1])
                stack.append(ev[1])
            elif ev[0] == "dis":
                if ev[1] > len(stack):
                    return False
                ureg.disable_contexts(ev[1])
                del stack[len(stack) - ev[1]:]
            else:
                if ev[1] in stack:
                    return False
                if i < len(hist) - 1:
                    uw_probe(ureg, ev[1], inplace=(ev[0] == "icall"))  # some of these conversions fail: the per-call context is left either way
                if i == len(hist) - 1:
                    acc.ev()
                    got, want = uw_probe(ureg, ev[1], inplace=(ev[0] == "icall")), uw_model(stack + [ev[1]])
                    bad = {k: (str(want[k]), str(got[k])) for k in want if got[k] != want[k]}
                    if bad:
                        acc.violation(["context-stack", "partial-unwind", "per-call-context-on-a-stack-does-not-follow-the-model", ev[1][0] + "-on-" + "".join(c[0] for c in stack)], {"history": [list(e) for e in hist]}, {k: v[0] for k, v in bad.items()}, {k: v[1] for k, v in bad.items()})
        acc.ev()
        acc.nt(("unwind", hist))
        got, want = uw_probe(ureg), uw_model(stack)
        bad = {k: (str(want[k]), str(got[k])) for k in want if got[k] != want[k]}
        if bad:
            kind = "".join(e[0][0] + (e[1][0] if isinstance(e[1], str) else str(e[1])) for e in hist)
            acc.violation(["context-stack", "partial-unwind", "rules-or-redefinitions-in-force-differ-from-the-enabled-stack", "ruleless-involved" if any(e[1] in ("n1", "n2") for e in hist) else "rules-only"], {"history": [list(e) for e in hist], "kind": kind, "stack": list(stack)}, {k: v[0] for k, v in bad.items()}, {k: v[1] for k, v in bad.items()})
        return True

    def walk(hist):
        if not rec(hist, None):
            return
        if len(hist) < depth:
            for ev in UW_EVENTS:
                walk(hist + (ev,))
    walk((tuple(first),))
    acc.outcome("unwind")
    acc.sample({"clause": "partial-unwind", "history": [["en", "s3"], ["en", "n1"], ["dis", 1]], "expected": {"ua->ub": 3, "foot->ua": 24}})


# ----------------------------------------------------------------------------- bundled contexts


def base_unit_for_dim(M):
    out = {}
    for n in M.order:
        if M.is_base(n):
            for d in M.base_dim_of_unit(n):
                out[d] = n
    return out


def units_of_dim(M, dimvec, limit=3):
    """a few unit containers (as dicts) having this dimension vector"""
    key = dict(dimvec)
    named = [n for n in M.order if M.units[n].is_multiplicative and M.rational_unit(n) and M.dim(n) == key and not n.startswith("delta_")]
    out = [{n: 1} for n in named[:limit]]
    bu = base_unit_for_dim(M)
    comp = {bu[d]: e for d, e in key.items()}
    if comp not in out:
        out.append(comp)
    return out[: limit + 1]


def run_bundled(acc):
    M = defs.default_model(core.REPO)
    ureg = regs.default("float")
    Q = ureg.Quantity
    params = {"spectroscopy": [{}, {"n": 2}], "chemistry": [{"mw": "18 g/mol", "volume": "2 l", "solvent_mass": "3 kg"}]}
    for cname, cd in M.contexts.items():
        for (src, dst, bidir, eq) in cd["rules"]:
            pairs = [(src, dst)] + ([(dst, src)] if bidir else [])
            for s_, d_ in pairs:
                sdim = M.dim_expand(defs.parse_expr(s_)).units
                ddim = M.dim_expand(defs.parse_expr(d_)).units
                for kw in params.get(cname, [{}]):
                    # independent evaluation of the equation text with monomials
                    env_params = dict(cd["defaults"])
                    env_params.update({k: v for k, v in kw.items()})
                    for su in units_of_dim(M, sdim, 2):
                        x = Fraction(3)
                        try:
                            want = eval_rule(M, eq, x, su, env_params)
                        except (defs.DefError, ZeroDivisionError):
                            continue
                        for du in units_of_dim(M, ddim, 2):
                            acc.ev()
                            acc.nt(("bundled", cname, s_, d_, tuple(su), tuple(du), tuple(sorted(kw))))
                            duf = M.root_of_units(du)
                            want_in_du = want / duf
                            case = {"context": cname, "rule": f"{s_} -> {d_}: {eq}", "src": su, "dst": du, "params": kw}
                            if want_in_du.units:
                                continue  # parameter-dependent dimensions (chemistry with dimensionless defaults)
                            pk = {k: (ureg(v) if isinstance(v, str) else v) for k, v in kw.items()}
                            o = call(lambda: Q(3.0, ureg.UnitsContainer(su)).to(ureg.UnitsContainer(du), cname, **pk).magnitude)
                            w = float(want_in_du.dec(30))
                            if o[0] != "ok" or abs(o[1] - w) > 1e-10 * abs(w):
                                acc.violation(["bundled-context", cname, "differs-from-rule-equation", f"{s_}->{d_}"], case, w, repr(o))
                            acc.outcome(cname)
    acc.sample({"clause": "bundled-context", "context": "spectroscopy", "rule": "[length] <-> [frequency]: speed_of_light / n / value", "src": {"meter": 1}, "dst": {"hertz": 1}})


def eval_rule(M, eq, x, su, params):
    """value = x * su (monomial in root units); names in eq are units/constants or parameters"""
    m = defs.parse_expr(eq)
    out = defs.Mono(m.coef, None, m.rad, m.frac_step)
    value = defs.Mono(x) * M.root_of_units(su)
    for name, e in m.units.items():
        if name == "value":
            term = value
        elif name in params:
            pv = params[name]
            term = param_mono(M, pv)
        else:
            term = M.root(name)
        out = out * (term ** e)
    return out


def param_mono(M, pv):
    if isinstance(pv, (int, float, Fraction)):
        return defs.Mono(Fraction(pv))
    s = str(pv)
    try:
        return defs.Mono(Fraction(s))
    except ValueError:
        pass
    m = defs.parse_expr(s)
    out = defs.Mono(m.coef)
    for name, e in m.units.items():
        out = out * (M.root(name) ** e)
    return out


# ----------------------------------------------------------------------------- dispatch


def shards(tier, seed):
    out = [("single", b, 16) for b in range(16)]
    for b in range(16):
        out.append(("stacks", 2, 2, b, 16))
    if tier == "thorough":
        for b in range(8):
            out.append(("stacks", 3, 1, b, 8))
    out += [("params",), ("redefs",), ("bundled",), ("mutation",)]
    for ev in UW_EVENTS:
        if ev[0] != "dis":
            out.append(("unwind", 4 if tier == "quick" else 5, list(ev)))
    for ev in ph_events():
        out.append(("param-hist", 3 if tier == "quick" else 4, list(ev)))
    return out


def run_shard(acc, shard, tier, seed):
    k = shard[0]
    if k == "single":
        run_single(acc, shard[1], shard[2], tier)
    elif k == "stacks":
        run_stacks(acc, shard[1], shard[2], shard[3], shard[4])
    elif k == "params":
        run_params(acc)
    elif k == "param-hist":
        run_param_histories(acc, shard[1], tuple(shard[2]))
    elif k == "unwind":
        run_unwind(acc, shard[1], tuple(shard[2]))
    elif k == "mutation":
        run_mutation(acc)
    elif k == "redefs":
        run_redefs(acc)
    elif k == "bundled":
        run_bundled(acc)
    else:
        raise core.HarnessError(str(shard))


def replay(rec):
    site = rec["site"]
    acc = core.Acc(PROPERTY)
    if site[0] == "single-context":
        for b in range(16):
            run_single(acc, b, 16, rec.get("tier", "quick"))
    elif site[0] == "context-stack" and site[1] == "partial-unwind":
        h = rec["case"]["history"]
        run_unwind(acc, len(h), tuple(h[0]))
    elif site[0] == "context-stack":
        for b in range(16):
            run_stacks(acc, 2, 2, b, 16)
        if rec.get("tier") == "thorough" and tuple(site) not in {tuple(v["site"]) for v in acc.violations}:
            for b in range(8):
                run_stacks(acc, 3, 1, b, 8)
    elif site[0] == "context-edited":
        run_mutation(acc)
    elif site[0] == "parameters":
        run_params(acc)
    elif site[0] == "activation-history":
        h = rec["case"]["history"]
        run_param_histories(acc, len(h), tuple(h[0]))
    elif site[0] == "redefinition":
        run_redefs(acc)
    else:
        run_bundled(acc)
    sites = {tuple(v["site"]) for v in acc.violations}
    return tuple(site) in sites, {"sites_seen": sorted(sites)[:20]}


MANIFEST = {
    "category": "exploration",
    "technique": "bounded exhaustive enumeration of context rule graphs, context stacks and activation forms against a BFS shortest-chain reference model, with prime-labelled rules so the converted value identifies the chain applied",
    "text": "All 794 rule sets with at most 4 of the 12 directed rules over 4 dimensionalities are declared as contexts in a generated registry and every (source, target) unit pair is converted (by name and by alias, "
    "per-call and in a with-block, with the compatibility predicates): the exact result must be the prime product of SOME shortest chain, same-dimension conversions must be unchanged, unreachable targets must raise "
    "DimensionalityError, and nothing may remain available outside. All ordered pairs of the 79 contexts with <=2 rules (thorough: all ordered triples of the 13 with <=1) are stacked through 4 activation forms with "
    "per-(context, edge) primes, deciding 'most recent wins'. Parameter resolution (call keyword > enclosing context > declared default) is checked with prime-valued parameters through every form including the "
    "decorator and context objects, and over ALL activation histories up to depth 3 (4) of 21 events on a registry whose four contexts (two declared in text, two built with Context()/add_context) start their rules at a derived dimension written by name: each activation, in each form, with or without its own parameter value, after every possible earlier activation, must convert with its own parameter, have its unit redefinition (and the units defined from it) in force, and leave nothing active or redefined; a Context object edited between activations (a redefinition changed, another added, a rule added; every order x 3x3 activation forms): the edit is in force at the next activation; redefinitions with transitive dependents inside/outside/nested and on re-entry; every rule of the 7 bundled contexts is re-evaluated from its equation text with R1 monomials.",
    "note": "Trusted: the 40-line BFS reference and unique factorisation; R1 for bundled constants. Not asserted: which of several equally short chains is taken; which enclosing context supplies a parameter "
    "when several differ; compatible-unit listings under a context. Graphs with more than 4 rules or more than 4 dimensionalities are outside the bound.",
    "ref": "DESIGN.md §4 C11",
}
MANIFEST["text"] += ' Partial unwinding: every history of <= 4 (5 thorough) events over enable / disable(1|2) / per-call activation of two rule-less (redefinition only) and two rule-carrying contexts on a fresh registry: after every history 4 probes (and the per-call conversion itself) equal the stack model (most recent rule owner wins, redefinitions of enabled contexts only).'
MANIFEST["text"] += ' The in-place per-call form q.ito(unit, ctx) and failing per-call conversions are among the unwind events.'
MANIFEST["text"] += ' The redefinition clause includes an offset unit redefined by a context (alone and stacked), with delta and difference probes.'
MANIFEST["text"] += ' Compatible-unit listings are asked before the probe conversions inside each activation.'
