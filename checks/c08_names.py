"""C08 — unit names resolve deterministically: exact names first, then prefix+unit+plural.

Model checking (E2) + exhaustive inputs (E1), oracle R4 (name-resolution model built by R1).
 * inputs: every string p+u+s (all prefix spellings x all unit spellings x {'', 's'}), case
   variants, one-character near-misses — through get_name / get_symbol / parse_unit_name /
   parse_units / `in` / getattr;
 * collision pairs: every defined spelling that ALSO has a prefixed reading, looked up before
   and after the long form of that reading was looked up (lazy registration must not shadow it);
 * histories: BFS over lookup/define events on the real registry; in every reached state every
   string of the alphabet is resolved on its own replayed copy and must get the answer a fresh
   registry with the same definitions gives."""
from __future__ import annotations

import copy
import itertools
from fractions import Fraction

from mc import core, regs, explore
from mc.ref import defs

PROPERTY = "C08"
LEVEL = "model_checking"
RULE = (
    "inputs: all (72 prefix spellings + '') x all unit spellings x {'', 's'} in the Fraction registry, lower/upper/title variants of every spelling in a case-insensitive registry, 3 one-character edits "
    "of every spelling; collision pairs: every defined spelling with an additional prefixed reading x {long form first, short form first}; histories: BFS to depth 3/4 (generated registry) and 2/3 "
    "(default registry) over lookup/define events, whole-alphabet probe vector in every state, each probe on its own replayed copy. non-trivial = distinct string (inputs) / distinct state fingerprint (histories)"
)
ASSUMPTIONS = [
    "R4 (mc/ref/defs.py: readings/resolve) is the reference: exact spelling, else prefix+unit(+s) over defined spellings, one-letter stems not de-pluralised",
    "where several non-equivalent readings exist the implementation may pick any of them (result must be one of the readings)",
    "state fingerprint = canonical serialisation of the registry __dict__ minus static machinery (classes, parser, formatter)",
]
SITE_GRAMMAR = "[clause, api, failure-kind, string-class]"

TINY_N = """
kilo- = 1e3 = k-
milli- = 1e-3 = m-
mega- = 1e6 = M-
micro- = 1e-6 = u-
meter = [length] = m = metre
second = [time] = s = sec
gram = [mass] = g
inch = 0.0254 * meter = in
minute = 60 * second = min
gauss = 1e-4 * gram / second = G = Gs_unit
glass = 7 * meter = gls
ks = 11 * second = kstuff
pascal = gram / meter / second ** 2 = Pa
year = 31557600 * second = a
degC = second; offset: 5 = celsius
""".strip().splitlines()

ALPHA_T = ["Meter", "meter", "megameter", "kilomegameter", "ms", "min", "mins", "kilometers", "ks", "kilosecond", "Ma", "megayear", "glass", "glas", "xyzzy", "kilodegC", "inchs", "ins", "kilometros", "hectometer"]
# the last two give a reading to strings that had none until then (kilometros, hectometer) WITHOUT defining a unit:
# a lookup that failed before them must succeed after them
DEFINES_T = ["ms = 3 * meter", "kilofoo = 5 * meter = kf", "megameter = 9 * second", "@alias meter = metro", "hecto- = 100 = h-"]
ALPHA_D = ["Meter", "megameter", "kilomegameter", "ms", "min", "mins", "kilometers", "Gs", "Pa", "petayear", "dB", "decibyte", "xyzzy", "cm", "centimeter"]
DEFINES_D = ["ms = 3 * meter", "megameter = 9 * second"]


def call(fn):
    try:
        return ["ok", fn()]
    except Exception as e:  # noqa
        return ["exc", type(e).__name__]


def observe(reg, x):
    """the full answer of the registry for one string (JSON-native)"""

    def roots():
        f, u = reg.get_root_units(x)
        return [str(f), sorted((k, str(v)) for k, v in dict(u._units).items())]

    return {
        "get_name": call(lambda: reg.get_name(x)),
        "get_symbol": call(lambda: reg.get_symbol(x)),
        "parse_unit_name": call(lambda: [list(t) for t in reg.parse_unit_name(x)]),
        "in": call(lambda: x in reg),
        "parse_units": call(lambda: sorted((k, str(v)) for k, v in dict(reg.parse_units(x)._units).items())),
        "roots": call(roots),
    }


def str_class(M, s):
    st = M.spelling_table()
    if s in st:
        return "defined-spelling"
    r = M.readings(s)
    if r:
        return "prefixed-reading"
    # double prefix?
    pt = M.prefix_table()
    for p in pt:
        if s.startswith(p) and M.readings(s[len(p) :]) and s[len(p) :] not in st:
            return "double-prefix"
    return "undefined"


# ----------------------------------------------------------------------------- inputs vs R4


def expect(M, s, case_sensitive=True):
    """('exact', canon) | ('readings', [(p,u)...]) | ('undefined',)"""
    st = M.spelling_table()
    if s in st:
        return ("exact", st[s])
    r = M.readings(s, case_sensitive)
    if not r:
        return ("undefined",)
    return ("readings", r)


def check_string(acc, M, reg, s, cfg, clause="input", case_sensitive=True):
    exp = expect(M, s, case_sensitive)
    o = observe(reg, s)
    case = {"registry": cfg, "string": s}
    cls = {"exact": "defined-spelling", "readings": "prefixed-reading", "undefined": "undefined"}[exp[0]]
    acc.ev(6)
    acc.outcome(cls)
    if exp[0] == "undefined":
        for api in ("get_name", "get_symbol", "parse_units", "roots"):
            if o[api][0] != "exc":
                acc.violation([clause, api, "undefined-string-accepted", cls], case, "UndefinedUnitError", o[api])
            elif o[api][1] not in ("UndefinedUnitError",) and api in ("get_name", "get_symbol"):
                acc.violation([clause, api, "wrong-error-for-undefined-string", cls], case, "UndefinedUnitError", o[api])
        if o["in"] != ["ok", False]:
            acc.violation([clause, "in", "undefined-string-accepted", cls], case, False, o["in"])
        if o["parse_unit_name"] != ["ok", []]:
            acc.violation([clause, "parse_unit_name", "undefined-string-accepted", cls], case, [], o["parse_unit_name"])
        return
    if exp[0] == "exact":
        cands = [("", exp[1])]
    else:
        cands = exp[1]
    # prefixed non-multiplicative units cannot exist
    usable = [(p, u) for p, u in cands if not (p and not M.units[u].is_multiplicative)]
    want_names = {p + u for p, u in usable}
    want_syms = {(M.prefixes[p].symbol if p else "") + M.units[u].symbol for p, u in cands}
    if not usable:
        if o["get_name"][0] != "exc":
            acc.violation([clause, "get_name", "prefixed-offset-unit-accepted", cls], case, "an error", o["get_name"])
        # ... and `in` does not call a string a unit that every lookup refuses
        if o["in"] == ["ok", True]:
            acc.violation([clause, "in", "string-contained-although-every-lookup-refuses-it", cls], case, "False or the lookup's error", o["in"])
        return
    if len(cands) > 1 and len(usable) != len(cands):
        return  # mixed: implementation may legitimately pick the unusable reading first and raise
    if o["get_name"][0] != "ok" or o["get_name"][1] not in want_names:
        acc.violation([clause, "get_name", "canonical-name-is-not-a-reading-of-the-string", cls], case, sorted(want_names), o["get_name"])
        return
    # the plural 's' is the OPTIONAL last resort of the rule: a reading that accounts for the whole string without it
    # comes before any reading that needs it (amps = atto + mps, not amp + s)
    if exp[0] == "readings" and case_sensitive:
        st_, pt_ = M.spelling_table(), M.prefix_table()
        whole = {(pn, st_[s[len(ps):]]) for ps, pn in [("", "")] + list(pt_.items()) if s.startswith(ps) and s[len(ps):] in st_}
        whole_names = {p_ + u_ for p_, u_ in whole if (p_, u_) in usable}
        if whole_names and len(want_names) > len(whole_names) and o["get_name"][1] not in whole_names and o["get_name"][1] in want_names:
            acc.violation([clause, "get_name", "plural-reading-preferred-over-a-reading-of-the-whole-string", cls], case, sorted(whole_names), o["get_name"])
            return
    if o["get_symbol"][0] != "ok" or o["get_symbol"][1] not in want_syms:
        acc.violation([clause, "get_symbol", "symbol-is-not-that-of-the-definition", cls], case, sorted(want_syms), o["get_symbol"])
    # name and symbol must belong to the SAME reading
    picked = [(p, u) for p, u in cands if p + u == o["get_name"][1]]
    if o["get_symbol"][0] == "ok" and picked and o["get_symbol"][1] not in {(M.prefixes[p].symbol if p else "") + M.units[u].symbol for p, u in picked} and exp[0] == "exact":
        acc.violation([clause, "get_symbol", "symbol-of-a-different-reading-than-get_name", cls], case, "same reading", [o["get_name"], o["get_symbol"]])
    if o["in"] != ["ok", True]:
        acc.violation([clause, "in", "accepted-string-not-contained", cls], case, True, o["in"])
    if o["parse_units"][0] != "ok" or o["parse_units"][1] != [[o["get_name"][1], "1"]] and o["parse_units"][1] != [(o["get_name"][1], "1")]:
        acc.violation([clause, "parse_units", "differs-from-get_name", cls], case, o["get_name"], o["parse_units"])
    # parse_unit_name lists exactly the readings (order free)
    if o["parse_unit_name"][0] == "ok":
        got = {(t[0], t[1]) for t in o["parse_unit_name"][1]}
        want = set(cands) if exp[0] != "exact" else None
        if want is not None and got != want:
            acc.violation([clause, "parse_unit_name", "candidate-set-differs-from-readings", cls], case, sorted(want), sorted(got))
    # factor = prefix x unit, once
    if picked and o["roots"][0] == "ok":
        p, u = picked[0]
        m = M.root(u)
        if p:
            m = m * M.prefixes[p].value
        f = o["roots"][1][0]
        gu = {k: Fraction(v) for k, v in o["roots"][1][1]}
        if gu != m.units or (m.rational and Fraction(f) != m.coef):
            acc.violation([clause, "get_root_units", "factor-is-not-prefix-times-unit-once", cls], case, [str(m.coef), {k: str(v) for k, v in m.units.items()}], o["roots"])


def run_inputs(acc, block, nblocks):
    M = defs.default_model(core.REPO)
    reg = regs.default("Fraction", fresh=True)
    st, pt = M.spelling_table(), M.prefix_table()
    spell = [s for s in st if s.isidentifier()]
    acc.dim("unit spellings (identifiers)", len(spell))
    acc.dim("prefix spellings", len(pt))
    for i, u in enumerate(spell):
        if i % nblocks != block:
            continue
        for p in [""] + list(pt):
            for suf in ("", "s"):
                s = p + u + suf
                acc.nt(("input", s))
                check_string(acc, M, reg, s, "Fraction")
    # getattr agrees with get_name for every spelling of this block
    for i, u in enumerate(spell):
        if i % nblocks != block:
            continue
        acc.ev()
        o = call(lambda: sorted(dict(getattr(reg, u)._units)))
        if o != ["ok", [st[u]]]:
            acc.violation(["input", "getattr", "attribute-access-differs-from-definition", "defined-spelling"], {"string": u}, [st[u]], o)
    acc.sample({"clause": "input", "strings": ["kilo" + spell[block], "µ" + spell[block] + "s", spell[block] + "s"]})


def edits(s):
    out = []
    if len(s) > 2:
        out.append(s[:1] + s[2:])
        out.append(s[:-1])
    out.append(s + "x")
    out.append("q" + s)
    return out


def run_nearmiss(acc, block, nblocks):
    M = defs.default_model(core.REPO)
    reg = regs.default("Fraction", fresh=True)
    st = M.spelling_table()
    spell = [s for s in st if s.isidentifier()]
    for i, u in enumerate(spell):
        if i % nblocks != block:
            continue
        for s in edits(u):
            if not s.isidentifier():
                continue
            acc.nt(("nearmiss", s))
            check_string(acc, M, reg, s, "Fraction", clause="near-miss")
    acc.sample({"clause": "near-miss", "strings": edits(spell[block])})


def run_case(acc, block, nblocks):
    M = defs.default_model(core.REPO)
    ci = regs.default("Fraction", fresh=True, case_sensitive=False)
    cs = regs.default("Fraction", fresh=True)
    st = M.spelling_table()
    spell = [s for s in st if s.isidentifier()]
    for i, u in enumerate(spell):
        if i % nblocks != block:
            continue
        for v in {u.lower(), u.upper(), u.title(), u.swapcase()}:
            if not v.isidentifier():
                continue
            acc.ev(2)
            acc.nt(("case", v))
            # case-insensitive registry: accepted iff some defined spelling / reading matches ignoring case
            rd = M.readings(v, case_sensitive=False)
            o = call(lambda: ci.get_name(v))
            case = {"registry": "case_sensitive=False", "string": v}
            if v in st:
                pass
            elif not rd:
                if o[0] != "exc":
                    acc.violation(["case", "get_name", "undefined-string-accepted", "case-insensitive"], case, "UndefinedUnitError", o)
            else:
                names = {p + un for p, un in rd}
                usable = {p + un for p, un in rd if not (p and not M.units[un].is_multiplicative)}
                if usable == names and (o[0] != "ok" or o[1] not in names):
                    acc.violation(["case", "get_name", "case-variant-not-resolved-to-a-reading", "case-insensitive"], case, sorted(names), o)
            # case-sensitive registry must NOT accept a variant that has no case-sensitive reading
            exp = expect(M, v, True)
            o2 = call(lambda: cs.get_name(v))
            if exp[0] == "undefined" and o2[0] != "exc":
                acc.violation(["case", "get_name", "case-variant-accepted-without-being-requested", "case-sensitive"], {"registry": "case_sensitive=True", "string": v}, "UndefinedUnitError", o2)
            # per-call override
            o3 = call(lambda: cs.get_name(v, case_sensitive=False))
            if rd and v not in st:
                names = {p + un for p, un in rd}
                usable = {p + un for p, un in rd if not (p and not M.units[un].is_multiplicative)}
                if usable == names and (o3[0] != "ok" or o3[1] not in names):
                    acc.violation(["case", "get_name(case_sensitive=False)", "case-variant-not-resolved-to-a-reading", "per-call"], {"string": v}, sorted(names), o3)
                o4 = call(lambda: sorted(dict(cs.parse_units(v, case_sensitive=False)._units)))
                if usable == names and (o4[0] != "ok" or len(o4[1]) != 1 or o4[1][0] not in names):
                    acc.violation(["case", "parse_units(case_sensitive=False)", "case-variant-not-resolved-to-a-reading", "per-call"], {"string": v}, sorted(names), o4)
            # ... and a per-call request must not outlive the call: the default lookups refuse the variant as before
            if exp[0] == "undefined":
                acc.ev(4)
                for api, fn in (
                    ("get_name", lambda: cs.get_name(v)),
                    ("parse_units", lambda: sorted(dict(cs.parse_units(v)._units))),
                    ("in", lambda: (v in cs) or None),
                    ("Quantity(str)", lambda: cs.Quantity(1, v) and None),
                    ("getattr", lambda: getattr(cs, v) and None),
                ):
                    o5 = call(fn)
                    if o5 != ["ok", None] and o5[0] != "exc":
                        acc.violation(["case", api, "case-variant-accepted-after-a-per-call-request", "case-sensitive"], {"registry": "case_sensitive=True", "string": v, "history": [["get_name", v, "case_sensitive=False"], ["parse_units", v, "case_sensitive=False"]]}, "UndefinedUnitError", o5)
    acc.sample({"clause": "case", "strings": [spell[block].upper(), spell[block].title()]})


# ----------------------------------------------------------------------------- collision pairs


def collision_pairs(M):
    st = M.spelling_table()
    out = []
    for s, canon in st.items():
        if not s.isidentifier():
            continue
        for p, u in M.readings(s):
            if p and M.units[u].is_multiplicative and (p + u) not in st:
                out.append((s, canon, p, u))
    return out


def run_collisions(acc, block, nblocks):
    M = defs.default_model(core.REPO)
    pairs = collision_pairs(M)
    acc.dim("defined spellings that also have a prefixed reading", len(pairs))
    pristine = regs.default("Fraction", fresh=True)
    for i, (s, canon, p, u) in enumerate(pairs):
        if i % nblocks != block:
            continue
        long_ = p + u
        psym = M.prefixes[p].symbol + M.units[u].symbol
        for order in ("long-first", "short-first", "symbol-form-first"):
            reg = copy.deepcopy(pristine)
            acc.ev()
            acc.nt(("collision", s, long_, order))
            hist = []
            if order == "long-first":
                hist = [("get_name", long_), ("get_symbol", long_), ("parse_units", long_)]
            elif order == "symbol-form-first":
                hist = [("parse_units", long_), ("get_root_units", long_), ("parse_units", psym)]
            for api, x in hist:
                call(lambda: getattr(reg, api)(x))
            o = observe(reg, s)
            o_long = observe(reg, long_)
            case = {"history": [list(h) for h in hist], "probe": s, "long_form": long_}
            if o["get_name"] != ["ok", canon]:
                acc.violation(["collision", "get_name", "defined-spelling-shadowed-after-lazy-registration", "defined-spelling"], case, canon, o["get_name"])
            if o["get_symbol"] != ["ok", M.units[canon].symbol]:
                acc.violation(["collision", "get_symbol", "defined-spelling-shadowed-after-lazy-registration", "defined-spelling"], case, M.units[canon].symbol, o["get_symbol"])
            if o["parse_units"] != ["ok", [(canon, "1")]] and o["parse_units"] != ["ok", [[canon, "1"]]]:
                acc.violation(["collision", "parse_units", "defined-spelling-shadowed-after-lazy-registration", "defined-spelling"], case, canon, o["parse_units"])
            if o_long["get_name"] != ["ok", long_] or o_long["get_symbol"] != ["ok", psym]:
                acc.violation(["collision", "get_name", "long-form-misresolved", "prefixed-reading"], case, [long_, psym], [o_long["get_name"], o_long["get_symbol"]])
    acc.sample({"clause": "collision", "pair": list(pairs[block][:1]) + [pairs[block][2] + pairs[block][3]]})


# ----------------------------------------------------------------------------- delta reading of offset units in compound expressions


def run_delta(acc):
    """an offset unit standing alone with exponent 1 is itself; in every other unit expression it is read as its delta
    counterpart unless that is disabled (per call or with default_as_delta=False): every non-multiplicative unit of the
    bundled registry x 11 expression shapes x 3 settings, in registries built with either default"""
    M = defs.default_model(core.REPO)
    st = M.spelling_table()
    offs = sorted({st[s_] for s_ in st if M.units[st[s_]].kind == "offset" and not M.units[st[s_]].is_multiplicative})  # an offset of 0 (degR, kelvin) is an ordinary unit
    for dad in (True, False):
        reg = regs.default("Fraction", fresh=True, default_as_delta=dad)
        for cu in offs:
            for sp in [cu, M.units[cu].symbol] + [a for a in M.units[cu].aliases if a.isidentifier()][:2]:
                if not sp or not sp.isidentifier():
                    continue
                shapes = [
                    (sp, {cu: 1}, True), (f"{sp}**2", {cu: 2}, False), (f"1/{sp}", {cu: -1}, False), (f"{sp}**-2", {cu: -2}, False), (f"{sp}**-1", {cu: -1}, False),
                    (f"{sp}/meter", {cu: 1, "meter": -1}, False), (f"meter*{sp}", {cu: 1, "meter": 1}, False), (f"meter/{sp}", {cu: -1, "meter": 1}, False), (f"{sp}*{sp}", {cu: 2}, False),
                    (f"{sp}**1", {cu: 1}, True), (f"meter**2/{sp}**2/second", {cu: -2, "meter": 2, "second": -1}, False),
                ]
                for expr, plain, alone in shapes:
                    for ad in (None, True, False):
                        eff = dad if ad is None else ad
                        want = plain if (alone or not eff) else {("delta_" + k if k == cu else k): v for k, v in plain.items()}
                        acc.ev()
                        acc.nt(("delta", dad, expr, ad))
                        o = call(lambda: sorted((k, str(v)) for k, v in dict((reg.parse_units(expr) if ad is None else reg.parse_units(expr, as_delta=ad))._units).items()))
                        exp_ = sorted((k, str(v)) for k, v in want.items())
                        if o[0] != "ok" or [list(x) for x in o[1]] != [list(x) for x in exp_]:
                            acc.violation(["delta-reading", "parse_units", "offset-unit-in-an-expression-not-read-as-documented", "alone" if alone else "compound"], {"default_as_delta": dad, "as_delta": ad, "string": expr}, exp_, o)
    acc.outcome("delta-reading")
    acc.sample({"clause": "delta-reading", "strings": ["degC", "1/degC", "degC**-2", "degC/meter"], "as_delta": [None, True, False]})


# ----------------------------------------------------------------------------- histories (E2)


class NameDriver(explore.Driver):
    def __init__(self, which):
        self.which = which
        if which == "T":
            self.lines = TINY_N
            self.alpha, self.defines = ALPHA_T, DEFINES_T
            self.pristine = None
        else:
            self.alpha, self.defines = ALPHA_D, DEFINES_D
            self.pristine = regs.default("Fraction", fresh=True, on_redefinition="ignore")
        self._fresh_cache = {}

    def fresh(self):
        regs.clear_process_caches()
        if self.which == "T":
            return regs.tiny(self.lines, non_int_type="Fraction", on_redefinition="ignore")
        return copy.deepcopy(self.pristine)

    full_events = True

    def events(self):
        ev = []
        for x in self.alpha:
            ev.append(["get_name", x])
        for x in self.alpha[:7]:
            ev.append(["parse_units", x])
            if self.full_events:
                ev.append(["get_symbol", x])
        for d in self.defines:
            ev.append(["define", d])
        ev.append(["parse_units_ci", "Meter"])
        ev.append(["get_name_ci", "KILOMETERS"])
        return [tuple(e) for e in ev]

    def apply(self, reg, ev):
        kind, x = ev
        if kind == "define":
            return call(lambda: reg.define(x))[:1]
        if kind == "get_name":
            return call(lambda: reg.get_name(x))
        if kind == "get_symbol":
            return call(lambda: reg.get_symbol(x))
        if kind == "parse_units":
            return call(lambda: sorted((k, str(v)) for k, v in dict(reg.parse_units(x)._units).items()))
        if kind == "parse_units_ci":
            return call(lambda: sorted((k, str(v)) for k, v in dict(reg.parse_units(x, case_sensitive=False)._units).items()))
        if kind == "get_name_ci":
            return call(lambda: reg.get_name(x, case_sensitive=False))
        raise core.HarnessError(ev)

    def fp(self, reg, hist):
        d = vars(reg)
        return explore.fingerprint({k: d[k] for k in ("_units", "_units_casei", "_prefixes", "_cache", "_dimensions", "_base_units_cache") if k in d})

    def model_for(self, hist):
        """R1 model of the declarative state: the file plus the history's define events"""
        defs_ = tuple(ev[1] for ev in hist if ev[0] == "define")
        if defs_ not in self._fresh_cache:
            if self.which == "T":
                M = defs.read(list(self.lines))
            else:
                M = copy.deepcopy(defs.default_model(core.REPO))
            for d in defs_:
                defs.read([d], model=M)
            # fresh registry brought to the same declarative state, probed once per string on its own copy
            exp = {}
            if self.which == "T":
                for x in self.alpha:
                    reg = self.fresh()
                    for d in defs_:
                        reg.define(d)
                    exp[x] = observe(reg, x)
            else:
                # bundled registry (80 ms per copy): the whole probe sequence on ONE fresh copy, in alphabet order
                reg = self.fresh()
                for d in defs_:
                    reg.define(d)
                for x in self.alpha:
                    exp[x] = observe(reg, x)
            self._fresh_cache[defs_] = (M, exp)
        return self._fresh_cache[defs_]

    def oracle(self, acc, reg, hist, outs):
        M, exp = self.model_for(hist)
        for x in self.alpha:
            if self.which == "T":
                # every probe on its own replayed copy: probing perturbs the lazily grown tables
                r2, _ = explore.run_history(self, hist)
            else:
                # same probe sequence, same order, on the replayed registry itself (it is discarded afterwards):
                # history h + probes P is compared with P alone on a fresh registry
                r2 = reg
            o = observe(r2, x)
            acc.ev()
            if o != exp[x]:
                cls = str_class(M, x)
                diff = [k for k in o if o[k] != exp[x][k]]
                acc.violation(["history", diff[0], "answer-differs-from-fresh-registry-with-same-definitions", cls], {"registry": self.which, "history": [list(e) for e in hist], "probe": x}, exp[x][diff[0]], o[diff[0]])
        acc.sample({"clause": "history", "registry": self.which, "history": [list(e) for e in hist], "probes": self.alpha[:4]}, limit=2)


def run_history_shard(acc, which, depth, first, tier):
    drv = NameDriver(which)
    drv.full_events = tier != "quick"
    roots = [(first,)] if first is not None else [()]
    if tier == "quick":
        explore.explore(drv, acc, depth, roots=roots, oracle_on="new")
    else:
        # one level less with the oracle on EVERY transition (no reliance on the fingerprint), then the full depth
        # with the oracle once per distinct state
        explore.explore(drv, acc, max(depth - 1, 0), roots=roots, oracle_on="all")
        explore.explore(drv, acc, depth, roots=roots, oracle_on="new")
    acc.dim(f"event alphabet [{which}]", len(drv.events()))
    acc.dim(f"probe alphabet [{which}]", len(drv.alpha))


def shards(tier, seed):
    out = []
    for b in range(16):
        out.append(("inputs", b, 16))
    for b in range(4):
        out.append(("nearmiss", b, 4))
        out.append(("case", b, 4))
        out.append(("collisions", b, 4))
    out.append(("delta",))
    dT = 3 if tier == "quick" else 4
    dD = 2 if tier == "quick" else 3
    for which, d in (("T", dT), ("D", dD)):
        drv = NameDriver.__new__(NameDriver)
        drv.alpha, drv.defines = (ALPHA_T, DEFINES_T) if which == "T" else (ALPHA_D, DEFINES_D)
        drv.full_events = tier != "quick"
        out.append(("hist", which, 0, None))
        for ev in drv.events():
            out.append(("hist", which, d, list(ev)))
    return out


def run_shard(acc, shard, tier, seed):
    k = shard[0]
    if k == "inputs":
        run_inputs(acc, shard[1], shard[2])
    elif k == "nearmiss":
        run_nearmiss(acc, shard[1], shard[2])
    elif k == "case":
        run_case(acc, shard[1], shard[2])
    elif k == "collisions":
        run_collisions(acc, shard[1], shard[2])
    elif k == "delta":
        run_delta(acc)
    elif k == "hist":
        run_history_shard(acc, shard[1], shard[2], tuple(shard[3]) if shard[3] else None, tier)
    else:
        raise core.HarnessError(str(shard))


def replay(rec):
    site, case = rec["site"], rec["case"]
    acc = core.Acc(PROPERTY)
    M = defs.default_model(core.REPO)
    if site[0] == "history":
        drv = NameDriver(case["registry"])
        hist = tuple(tuple(e) for e in case["history"])
        reg, outs = explore.run_history(drv, hist)
        drv.oracle(acc, reg, hist, outs)
    elif site[0] == "delta-reading":
        run_delta(acc)
    elif site[0] == "collision":
        for b in range(4):
            run_collisions(acc, b, 4)
    elif site[0] == "case":
        for b in range(4):
            run_case(acc, b, 4)
    else:
        reg = regs.default("Fraction", fresh=True)
        check_string(acc, M, reg, case["string"], "Fraction", clause=site[0])
    sites = {tuple(v["site"]) for v in acc.violations}
    return tuple(site) in sites, {"sites_seen": sorted(sites)[:20]}


MANIFEST = {
    "category": "model_checking",
    "technique": "explicit-state BFS over lookup/define histories on the real registry with fingerprint dedup and a fresh-registry differential oracle, plus exhaustive enumeration of prefix x spelling x plural strings against a name-resolution reference model",
    "text": "States are event histories replayed on a fresh real registry (generated 16-line registry with deliberately colliding spellings: depth 3/4 over 32 events; bundled registry: depth 2/3 over 28 events); "
    "in every reached state each string of the probe alphabet is resolved on its own replayed copy through 6 entry points and must equal the answer of a fresh registry holding the same definitions. "
    "The event alphabet includes per-call case-insensitive lookups (parse_units / get_name with case_sensitive=False) and the probe alphabet a case variant, so a per-call request that outlives its call is a state difference. "
    "Every non-multiplicative unit x 11 expression shapes x as_delta {default, True, False} x default_as_delta {True, False}: alone with exponent 1 it is itself, anywhere else its delta counterpart unless disabled. Independently, all 138k prefix+spelling+plural strings, case variants under case-insensitive lookup (registry-wide and per call, followed by the default lookups through get_name / parse_units / in / Quantity(str) / getattr), and one-character near-misses are resolved and compared with the R4 reading set (exact spelling "
    "first; else prefix x unit exactly once; undefined -> UndefinedUnitError; prefixed offset units refused; canonical name and symbol from the definition), and every defined spelling that also has a prefixed "
    "reading (the places where lazy registration could shadow a definition) is probed after the long form was looked up.",
    "note": "Trusted: R4/R1 reading model; the fingerprint covers _units, _units_casei, _prefixes, _cache, _dimensions, _base_units_cache. Where several non-equivalent readings exist any of them is accepted. "
    "Histories longer than the depth bound and strings outside the probe alphabets are not explored.",
    "ref": "DESIGN.md §4 C08",
}
MANIFEST["text"] += ' A reading of the whole string (name, symbol, alias, prefixed) is preferred over a plural reading.'
MANIFEST["text"] += ' The in operator never accepts a string that every lookup refuses (prefixed offset / logarithmic units).'
MANIFEST['text'] += ' The generated-registry histories include an @alias line and a new prefix that give a reading to strings that had none (a lookup that failed before them must succeed after them).'
