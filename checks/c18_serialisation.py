"""C18 — copy, pickle and tuple serialisation preserve objects; registries stay isolated.

E1: every (object kind x unit x magnitude type x pickle protocol 0-5 | copy | deepcopy | tuple) round
trip in-process; the same pickles loaded in a FRESH interpreter whose application registry has never
seen the prefixed units; every exception class of pint.errors x argument alphabets x protocols;
every operator between objects of different registries for four kinds of registry pairs.
E2: BFS over histories of a registry A and its deep copy B (define / context / default system /
lazy registration / queries on either side, the copy being taken at any point): each side must
answer like a fresh registry that saw only its own events.  The lazily built default registry is
compared with an explicitly built one in a fresh interpreter."""
from __future__ import annotations

import copy
import itertools
import json
import os
import pickle
import subprocess
import sys
from decimal import Decimal
from fractions import Fraction

from mc import core, regs, explore

PROPERTY = "C18"
LEVEL = "model_checking"
RULE = (
    "round trips: {Quantity, Unit, Measurement, UnitsContainer, ParserHelper} x 10 unit expressions (incl. prefixed units never registered before) x 6 magnitude types x {pickle protocols 0-5, copy, deepcopy, "
    "to_tuple/from_tuple}; the same pickles loaded in a fresh interpreter; 11 exception classes x argument alphabets x protocols + copy; 14 operators x 4 registry-pair kinds x both operand orders x {Quantity, "
    "Unit} operands; histories: BFS to depth 3 (quick) / 4 (thorough) over 13 events on a registry and its deep copy; lazy vs explicit default registry on 12 probes. non-trivial = distinct case / state fingerprint"
)
ASSUMPTIONS = [
    "in-process round trips set the application registry to the registry under test (pint attaches unpickled objects to the application registry by design)",
    "uncertain magnitudes are compared by nominal value and standard deviation (uncertainties' own == is identity-based)",
    "fresh-interpreter loads run the tree under test via VERIF_REPO",
]
SITE_GRAMMAR = "[clause, object-kind-or-operator, failure-kind, detail]"

UNITS = ["meter", "kilometer", "microfortnight", "kilometer / hour", "degC", "delta_degC / meter", "percent", "", "newton * meter ** 2 / second ** 3", "megaparsec ** -1 * kilometer / second", "meter ** 0.1 / second ** 0.3", "meter ** 0.3333333333333333 * second ** -1.2345678"]
PROTOCOLS = [0, 1, 2, 3, 4, 5]


def call(fn):
    try:
        return ("ok", fn())
    except Exception as e:  # noqa
        return ("exc", f"{type(e).__name__}: {str(e)[:80]}")


def magnitudes():
    import numpy as np
    from uncertainties import ufloat

    return {"int": 3, "float": 2.5, "Fraction": Fraction(1, 3), "Decimal": Decimal("1.50"), "ndarray": np.array([1.0, 2.5]), "ndarray0d": np.array(2.5), "ndarray2d": np.array([[1.0, 2.5], [0.5, 4.0]]), "ufloat": ufloat(1.5, 0.1)}


def mag_equal(a, b):
    import numpy as np

    if hasattr(a, "nominal_value") or hasattr(b, "nominal_value"):
        return hasattr(a, "nominal_value") and hasattr(b, "nominal_value") and a.nominal_value == b.nominal_value and a.std_dev == b.std_dev
    if isinstance(a, np.ndarray) or isinstance(b, np.ndarray):
        return isinstance(a, np.ndarray) and isinstance(b, np.ndarray) and a.dtype == b.dtype and np.array_equal(a, b)
    return type(a) is type(b) and a == b


def q_equal(a, b):
    return type(a) is type(b) and dict(a._units) == dict(b._units) and mag_equal(a._magnitude, b._magnitude)


def show(x):
    if hasattr(x, "_units"):
        return {"type": type(x).__name__, "magnitude": repr(getattr(x, "_magnitude", None)), "units": {k: str(v) for k, v in dict(x._units).items()}}
    return repr(x)[:120]


# ----------------------------------------------------------------------------- in-process round trips


def run_roundtrips(acc, nt):
    pint = core.boot()
    from pint.util import ParserHelper, UnitsContainer

    ureg = regs.default(nt, fresh=True)
    pint.set_application_registry(ureg)
    try:
        mags = magnitudes()
        for ustr in UNITS:
            # a fresh registry per unit would be too slow; lazily registered names accumulate, which is part of the point
            u = ureg.Unit(ustr)
            objs = {"Unit": u, "UnitsContainer": u._units}
            for mk, m in mags.items():
                if nt != "float" and mk in ("ndarray",):
                    pass
                objs[f"Quantity[{mk}]"] = ureg.Quantity(copy.deepcopy(m), u)
            objs["Measurement"] = ureg.Measurement(2.0, 0.5, u)
            try:
                objs["ParserHelper"] = ParserHelper.from_string(ustr.replace("degC", "degree_Celsius") or "", float)
            except Exception:  # noqa
                pass
            for kind, obj in objs.items():
                ways = [(f"pickle-{p}", (lambda p: lambda o: pickle.loads(pickle.dumps(o, p)))(p)) for p in PROTOCOLS] + [("copy", copy.copy), ("deepcopy", copy.deepcopy)]
                if kind.startswith("Quantity"):
                    ways.append(("tuple", lambda o: type(o).from_tuple(o.to_tuple())))
                    ways.append(("Quantity(q)", lambda o: ureg.Quantity(o)))
                for wname, fn in ways:
                    acc.ev()
                    acc.nt((nt, kind, ustr, wname))
                    case = {"registry": nt, "object": kind, "units": ustr, "way": wname}
                    o = call(lambda: fn(obj))
                    if o[0] != "ok":
                        acc.violation(["round-trip", kind.split("[")[0], "raises", wname.split("-")[0]], case, "an equal object", o[1])
                        continue
                    r = o[1]
                    if kind in ("UnitsContainer", "ParserHelper"):
                        ok = type(r) is type(obj) and dict(r) == dict(obj) and r == obj and hash(r) == hash(obj) and getattr(r, "scale", None) == getattr(obj, "scale", None) and r._non_int_type is obj._non_int_type
                    elif kind == "Unit":
                        ok = dict(r._units) == dict(obj._units) and r == obj and r._REGISTRY is ureg
                    elif kind == "Measurement":
                        ok = dict(r._units) == dict(obj._units) and r.value.magnitude == obj.value.magnitude and r.error.magnitude == obj.error.magnitude and r._REGISTRY is ureg and type(r).__name__ == "Measurement"
                    else:
                        ok = q_equal(r, obj) and r._REGISTRY is ureg
                    if not ok:
                        acc.violation(["round-trip", kind.split("[")[0], "result-differs-from-the-original", wname.split("-")[0]], case, show(obj), show(r))
                    # a copy is a snapshot: in-place work on either object leaves the other one equal to what it was
                    if wname in ("copy", "deepcopy", "Quantity(q)") and kind.startswith("Quantity[ndarray"):
                        import numpy as np

                        def imul(q):
                            q *= 3

                        def buf(q):
                            q._magnitude[...] = 99.0

                        def ito(q):
                            q.ito_root_units()

                        def iadd(q):
                            q += q

                        for mname, mut in (("*=", imul), ("buffer-write", buf), ("ito_root_units", ito), ("+=", iadd)):
                            for direction in ("source-mutated", "copy-mutated"):
                                acc.ev()
                                src = ureg.Quantity(copy.deepcopy(mags[kind[9:-1]]), u)
                                dup = fn(src)
                                target, other = (src, dup) if direction == "source-mutated" else (dup, src)
                                snap = (np.array(other._magnitude, copy=True), dict(other._units))
                                if call(lambda: mut(target))[0] != "ok":
                                    continue  # e.g. += on an offset unit: refused, nothing to compare
                                if not (np.array_equal(other._magnitude, snap[0]) and dict(other._units) == snap[1]):
                                    acc.violation(["round-trip", "Quantity", wname + "-shares-state-with-the-original", kind[9:-1]], dict(case, mutation=mname, direction=direction), show(ureg.Quantity(snap[0], u)), show(other))
            acc.outcome("units:" + (ustr or "dimensionless"))
    finally:
        pint.set_application_registry(pint.UnitRegistry.__new__(pint.UnitRegistry) if False else regs.default("float"))
    acc.sample({"clause": "round-trip", "object": "Quantity[Fraction]", "units": "microfortnight", "ways": ["pickle-0..5", "copy", "deepcopy", "tuple"]})


# ----------------------------------------------------------------------------- fresh interpreter

CHILD = r"""
import sys, pickle, json
sys.path.insert(0, sys.argv[1])
import pint
out = []
blobs = pickle.load(open(sys.argv[2], 'rb'))
for key, blob in blobs:
    try:
        o = pickle.loads(blob)
        units = {k: str(v) for k, v in dict(getattr(o, '_units', o)).items()}
        m = getattr(o, '_magnitude', None)
        if hasattr(m, 'nominal_value'):
            mr = ['ufloat', m.nominal_value, m.std_dev]
        elif hasattr(m, 'tolist'):
            mr = ['ndarray', m.tolist()]
        else:
            mr = [type(m).__name__, str(m)]
        same_reg = getattr(o, '_REGISTRY', pint.application_registry.get()) is pint.application_registry.get()
        usable = None
        try:
            usable = str((1 * pint.Unit(getattr(o, '_units', o))).to_root_units().magnitude) if key[0] != 'skip' else None
        except Exception as e:
            usable = 'EXC ' + type(e).__name__
        # ... and equal, as a key too, to the same thing built here from its spelling
        eq = []
        try:
            fresh = pint.Unit(key[1])
            mine = o if type(o).__name__ == 'UnitsContainer' else (o if type(o).__name__ == 'Unit' else o.units)
            ref = fresh._units if type(o).__name__ == 'UnitsContainer' else fresh
            if not (mine == ref): eq.append('loaded == built-here is False')
            if not (ref == mine): eq.append('built-here == loaded is False')
            if mine != ref: eq.append('loaded != built-here is True')
            if hash(mine) != hash(ref): eq.append('hash differs')
            if ref not in {mine: 1}: eq.append('not found as a dict key')
            if type(o).__name__ == 'Quantity' and type(m) is int:
                if hash(o) != hash(pint.Quantity(m, fresh)): eq.append('quantity hash differs')
        except Exception as e:
            eq.append('EXC ' + type(e).__name__ + ': ' + str(e)[:60])
        out.append([key, 'ok', type(o).__name__, mr, units, same_reg, usable, eq])
    except Exception as e:
        out.append([key, 'exc', type(e).__name__ + ': ' + str(e)[:80]])
json.dump(out, open(sys.argv[3], 'w'))
"""


def run_fresh(acc):
    pint = core.boot()
    ureg = regs.default("float", fresh=True)
    mags = magnitudes()
    blobs, expect = [], {}
    for ustr in UNITS:
        u = ureg.Unit(ustr)
        for p in PROTOCOLS:
            items = {"Unit": u, "Measurement": ureg.Measurement(2.0, 0.5, u)}
            for mk, m in mags.items():
                items[f"Quantity[{mk}]"] = ureg.Quantity(copy.deepcopy(m), u)
            for kind, obj in items.items():
                key = [kind, ustr, p, "new"]
                blobs.append((key, pickle.dumps(obj, p)))
                expect[json.dumps(key)] = obj
            # the same objects after ordinary use here (compared, hashed, used as keys, converted): whatever they memoised
            # in THIS interpreter must not travel
            used = {"Unit": ureg.Unit(ustr), "UnitsContainer": ureg.Unit(ustr)._units, "Quantity[int]": ureg.Quantity(3, ustr), "Measurement": ureg.Measurement(2.0, 0.5, ustr)}
            for kind, obj in used.items():
                uobj = obj if kind == "UnitsContainer" else (obj if kind == "Unit" else obj.units)
                call(lambda: (uobj == ureg.Unit(ustr), hash(uobj), {uobj: 1}, obj == obj))
                if kind.startswith("Quantity") or kind == "Measurement":
                    call(lambda: obj.to_root_units())
                key = [kind, ustr, p, "used"]
                blobs.append((key, pickle.dumps(obj, p)))
                expect[json.dumps(key)] = obj
    scratch = os.environ.get("VERIF_SCRATCH") or "/dev/shm"
    fin, fout, fpy = (os.path.join(scratch, f"c18_{os.getpid()}_{n}") for n in ("in.pkl", "out.json", "child.py"))
    with open(fin, "wb") as fh:
        pickle.dump(blobs, fh)
    with open(fpy, "w") as fh:
        fh.write(CHILD)
    env = dict(os.environ)
    env["PYTHONHASHSEED"] = str((int(os.environ.get("PYTHONHASHSEED", "0") or 0) + 4242) % 4294967295 or 1)  # a salt other than this interpreter's
    r = subprocess.run([sys.executable, "-W", "ignore", fpy, core.REPO, fin, fout], capture_output=True, text=True, env=env, timeout=600)
    if r.returncode != 0:
        acc.violation(["fresh-interpreter", "unpickle", "child-process-failed", ""], {"stderr": r.stderr[-400:]}, "exit 0", r.returncode)
        return
    res = json.load(open(fout))
    for f in (fin, fout, fpy):
        try:
            os.remove(f)
        except OSError:
            pass
    for row in res:
        key = row[0]
        obj = expect[json.dumps(key)]
        acc.ev()
        acc.nt(("fresh", tuple(key)))
        case = {"object": key[0], "units": key[1], "protocol": key[2], "before-pickling": key[3]}
        if row[1] != "ok":
            acc.violation(["fresh-interpreter", key[0].split("[")[0], "unpickling-raises", "prefixed" if ("kilo" in key[1] or "micro" in key[1] or "mega" in key[1]) else "plain"], case, "an equal object attached to the application registry", row[2])
            continue
        _, _, tname, mr, units, same_reg, usable, eqs = row
        if eqs:
            acc.violation(["fresh-interpreter", key[0].split("[")[0], "loaded-object-not-equal-to-the-same-thing-built-in-that-interpreter", key[3]], case, "equal, same hash, found as a key", eqs)
        want_units = {k: str(v) for k, v in dict(getattr(obj, "_units", obj)).items()}
        if units != want_units:
            acc.violation(["fresh-interpreter", key[0].split("[")[0], "units-differ", ""], case, want_units, units)
        if not same_reg:
            acc.violation(["fresh-interpreter", key[0].split("[")[0], "not-attached-to-the-application-registry", ""], case, True, same_reg)
        if usable is not None and str(usable).startswith("EXC") and "degC" not in key[1] and "delta" not in key[1]:
            acc.violation(["fresh-interpreter", key[0].split("[")[0], "prefixed-unit-not-registered-before-use", ""], case, "usable units", usable)
        m = getattr(obj, "_magnitude", None)
        if key[0].startswith("Quantity") or key[0] == "Measurement":
            if hasattr(m, "nominal_value"):
                ok = mr[0] == "ufloat" and mr[1] == m.nominal_value and mr[2] == m.std_dev
            elif hasattr(m, "tolist"):
                ok = mr[0] == "ndarray" and mr[1] == m.tolist()
            else:
                ok = mr == [type(m).__name__, str(m)]
            if not ok:
                acc.violation(["fresh-interpreter", key[0].split("[")[0], "magnitude-differs", ""], case, repr(m), mr)
    acc.outcome("fresh-interpreter")
    acc.sample({"clause": "fresh-interpreter", "object": "Quantity[Decimal]", "units": "microfortnight", "protocol": 2})


# ----------------------------------------------------------------------------- exceptions


def exception_instances(ureg):
    pint = core.boot()
    import pint.errors as E

    uc1, uc2 = ureg.UnitsContainer({"meter": 1}), ureg.UnitsContainer({"second": -2})
    out = []

    def add(label, fn):
        try:
            out.append((label, fn()))
        except Exception as e:  # noqa
            out.append((label, e))

    add("DefinitionError", lambda: E.DefinitionError("name", int, "a message"))
    add("DefinitionSyntaxError", lambda: E.DefinitionSyntaxError("bad syntax"))
    add("RedefinitionError", lambda: E.RedefinitionError("meter", type(uc1)))
    add("UndefinedUnitError(str)", lambda: E.UndefinedUnitError("xyzzy"))
    add("UndefinedUnitError(list)", lambda: E.UndefinedUnitError(["xyzzy", "plugh"]))
    add("UndefinedUnitError(tuple)", lambda: E.UndefinedUnitError(("xyzzy",)))
    add("DimensionalityError(2)", lambda: E.DimensionalityError("meter", "second"))
    add("DimensionalityError(4)", lambda: E.DimensionalityError(uc1, uc2, "[length]", "1/[time]**2"))
    add("DimensionalityError(5)", lambda: E.DimensionalityError(uc1, uc2, "[length]", "1/[time]**2", " extra"))
    add("OffsetUnitCalculusError(1)", lambda: E.OffsetUnitCalculusError(uc1))
    add("OffsetUnitCalculusError(2)", lambda: E.OffsetUnitCalculusError(uc1, uc2))
    add("LogarithmicUnitCalculusError(1)", lambda: E.LogarithmicUnitCalculusError(uc1))
    add("LogarithmicUnitCalculusError(2)", lambda: E.LogarithmicUnitCalculusError(uc1, uc2))
    add("UnitStrippedWarning", lambda: E.UnitStrippedWarning("stripped"))
    add("UndefinedBehavior", lambda: E.UndefinedBehavior("undefined"))
    add("PintError", lambda: E.PintError("plain"))
    add("PintTypeError", lambda: E.PintTypeError("plain type"))
    # every class x every argument tuple over an alphabet that contains the falsy look-alikes of each position
    empty = type(uc1)({})
    anyv = {"str": "meter", "empty-str": "", "container": uc1, "empty-container": empty, "zero": 0, "None": None}
    table = [
        ("DimensionalityError", E.DimensionalityError, [anyv, anyv, {"dim": "[length]", "empty-str": ""}, {"dim": "[time]", "empty-str": ""}, {"extra": " extra", "empty-str": ""}], 2),
        ("OffsetUnitCalculusError", E.OffsetUnitCalculusError, [anyv, anyv], 1),
        ("LogarithmicUnitCalculusError", E.LogarithmicUnitCalculusError, [anyv, anyv], 1),
        ("DefinitionError", E.DefinitionError, [{"str": "name", "empty-str": ""}, {"type": int, "type2": type(uc1)}, {"str": "a message", "empty-str": ""}], 3),
        ("RedefinitionError", E.RedefinitionError, [{"str": "meter", "empty-str": ""}, {"type": int, "type2": type(uc1)}], 2),
        ("UndefinedUnitError", E.UndefinedUnitError, [{"str": "xyzzy", "empty-str": "", "empty-tuple": (), "list": ["a", "b"], "set1": {"a"}}], 1),
        ("DefinitionSyntaxError", E.DefinitionSyntaxError, [{"str": "bad", "empty-str": ""}], 1),
        ("UnitStrippedWarning", E.UnitStrippedWarning, [{"str": "stripped", "empty-str": ""}], 1),
        ("UndefinedBehavior", E.UndefinedBehavior, [{"str": "undefined", "empty-str": ""}], 1),
    ]
    import itertools as _it

    for cname, cls, positions, min_args in table:
        for nargs in range(min_args, len(positions) + 1):
            for combo in _it.product(*[list(p.items()) for p in positions[:nargs]]):
                add(f"{cname}({','.join(k for k, _ in combo)})", (lambda cls, combo: lambda: cls(*[v for _, v in combo]))(cls, combo))
    # exceptions as actually raised by the library
    add("raised:OffsetUnitCalculusError(q*number)", lambda: _raised(lambda: ureg.Quantity(10, "degC") * 2))
    add("raised:OffsetUnitCalculusError(number/q)", lambda: _raised(lambda: 2 / ureg.Quantity(10, "degC")))
    add("raised:OffsetUnitCalculusError(q*dimensionless)", lambda: _raised(lambda: ureg.Quantity(10, "degC") * ureg.Quantity(2, "")))
    add("raised:OffsetUnitCalculusError(q**2)", lambda: _raised(lambda: ureg.Quantity(10, "degC") ** 2))
    add("raised:LogarithmicUnitCalculusError", lambda: _raised(lambda: ureg.Quantity(10, "dB") * ureg.Quantity(10, "dBm")))
    add("raised:OffsetUnitCalculusError(add)", lambda: _raised(lambda: ureg.Quantity(10, "degC") + ureg.Quantity(10, "degC")))
    add("raised:DimensionalityError", lambda: _raised(lambda: ureg.Quantity(1, "meter").to("second")))
    add("raised:UndefinedUnitError", lambda: _raised(lambda: ureg.parse_units("xyzzy")))
    add("raised:OffsetUnitCalculusError", lambda: _raised(lambda: ureg.Quantity(1, "degC") * ureg.Quantity(1, "degC")))
    add("raised:DefinitionSyntaxError", lambda: _raised(lambda: ureg.define("a b c d = = =")))
    return out


def _raised(fn):
    try:
        fn()
    except Exception as e:  # noqa
        return e
    raise core.HarnessError("expected an exception")


def run_exceptions(acc):
    ureg = regs.default("float")
    for label, e in exception_instances(ureg):
        if isinstance(e, core.HarnessError):
            continue
        ways = [(f"pickle-{p}", (lambda p: lambda o: pickle.loads(pickle.dumps(o, p)))(p)) for p in PROTOCOLS] + [("copy", copy.copy), ("deepcopy", copy.deepcopy)]
        for wname, fn in ways:
            acc.ev()
            acc.nt(("exc", label, wname))
            case = {"exception": label, "way": wname}
            o = call(lambda: fn(e))
            if o[0] != "ok":
                acc.violation(["exception", label.split("(")[0].replace("raised:", ""), "round-trip-raises", wname.split("-")[0]], case, "an equal exception", o[1])
                continue
            r = o[1]
            d1 = {k: repr(v) for k, v in vars(e).items()}
            d2 = {k: repr(v) for k, v in vars(r).items()}
            s1, s2 = call(lambda: str(e)), call(lambda: str(r))
            if type(r) is not type(e) or d1 != d2 or s1 != s2:
                acc.violation(["exception", label.split("(")[0], "type-fields-or-message-differ", wname.split("-")[0]], case, [type(e).__name__, d1, s1], [type(r).__name__, d2, s2])
        acc.outcome("exception")
    acc.sample({"clause": "exception", "exception": "DimensionalityError(5)", "ways": ["pickle-0..5", "copy", "deepcopy"]})


# ----------------------------------------------------------------------------- cross-registry operations

import operator as _op

OPS = {"+": _op.add, "-": _op.sub, "*": _op.mul, "/": _op.truediv, "//": _op.floordiv, "%": _op.mod, "divmod": divmod, "**": _op.pow, "<": _op.lt, "<=": _op.le, ">": _op.gt, ">=": _op.ge,
       "+=": _op.iadd, "*=": _op.imul}


def run_cross(acc):
    pint = core.boot()
    import numpy as np

    def pairs():
        a = regs.tiny()
        yield "fresh/fresh", a, regs.tiny()
        a2 = regs.tiny()
        yield "source/deepcopy", a2, copy.deepcopy(a2)
        a3 = regs.tiny()
        yield "deepcopy/source", copy.deepcopy(a3), a3
        d = regs.default("float")
        yield "application/explicit", pint.get_application_registry().get() if hasattr(pint.get_application_registry(), "get") else pint.get_application_registry(), d if d is not pint.get_application_registry().get() else regs.default("float", fresh=True)

    for pname, A, B in pairs():
        for mk in ("scalar", "array"):
            for opn, fn in OPS.items():
                for left_kind, right_kind in (("Q", "Q"), ("Q", "U"), ("U", "Q"), ("U", "U")):
                    if (left_kind == "U" or right_kind == "U") and opn not in ("*", "/", "<", ">", "<=", ">="):
                        continue
                    if opn == "**" and right_kind == "Q":
                        pass

                    def mk_obj(reg, kind, dimless=False):
                        val = np.array([2.0, 3.0]) if mk == "array" else 2.0
                        if kind == "U":
                            return reg.Unit("meter")
                        return reg.Quantity(val, "" if dimless else "meter")

                    x = mk_obj(A, left_kind, dimless=(opn == "**"))
                    y = mk_obj(B, right_kind, dimless=(opn == "**"))
                    # the second operand may also have been BUILT from pieces of the first one (its Unit, its unit
                    # container): it still belongs to registry B
                    variants = [("built-from-a-string", y)]
                    if right_kind == "Q" and left_kind == "Q":
                        val = np.array([2.0, 3.0]) if mk == "array" else 2.0
                        variants.append(("built-from-the-other-registry's-Unit", B.Quantity(val, x.units)))
                        variants.append(("built-from-the-other-registry's-container", B.Quantity(val, x._units)))
                    for vname, yv in variants:
                        acc.ev()
                        acc.nt(("cross", pname, mk, opn, left_kind, right_kind, vname))
                        o = call(lambda: fn(x, yv))
                        case = {"registries": pname, "magnitude": mk, "operator": opn, "operands": [left_kind, right_kind], "second_operand": vname}
                        if not (o[0] == "exc" and o[1].startswith("ValueError")):
                            acc.violation(["isolation", opn, "objects-of-different-registries-combine-or-raise-something-else", pname], case, "ValueError", o[1] if o[0] == "exc" else show(o[1]))
                        acc.outcome("refused" if o[0] == "exc" else "combined")
    acc.sample({"clause": "isolation", "registries": "source/deepcopy", "operator": "+", "operands": ["Q", "Q"]})


# ----------------------------------------------------------------------------- histories: a registry and its deep copy

HLINES = """
kilo- = 1e3 = k-
ua = [A]
ub = [B]
inch = 2 * ua
foot = 12 * inch
@context R
    foot = 10 * inch
@end
@group G1
    yard = 3 * foot
@end
@system fsys using G1
    foot : ua
@end
@defaults
    group = G0
    system = fsys
@end
""".strip().splitlines()

HEV = [("fork",), ("A", "define", "foo = 3 * inch"), ("B", "define", "bar = 5 * inch"), ("B", "define", "foo = 7 * inch"), ("B", "define", "yard = 5 * foot"), ("A", "define", "yard = 4 * foot"), ("A", "enable", "R"), ("B", "enable", "R"), ("A", "disable"), ("A", "system", None), ("B", "system", None),
       ("A", "lookup", "kilofoot"), ("B", "lookup", "kilofoot"), ("A", "q"), ("B", "q")]


def hprobe(reg):
    def f(x):
        return str(Fraction(x))

    out = {}
    out["foot->ua"] = call(lambda: f(reg.convert(1, "foot", "ua")))
    out["foo"] = call(lambda: f(reg.convert(1, "foo", "ua")))
    out["bar"] = call(lambda: f(reg.convert(1, "bar", "ua")))
    out["kilofoot"] = call(lambda: f(reg.convert(1, "kilofoot", "ua")))
    out["base(foot)"] = call(lambda: [f(reg.get_base_units("yard")[0]), sorted(dict(reg.get_base_units("yard")[1]._units))])
    out["system"] = reg.default_system
    out["stack"] = [c.name for c in reg._active_ctx.contexts]
    out["has_kilofoot"] = "kilofoot" in reg._units
    out["classes-own"] = reg.Quantity(1, "ua")._REGISTRY is reg and reg.Unit("ua")._REGISTRY is reg
    return out


class Pair:
    def __init__(self):
        regs.clear_process_caches()
        self.A = regs.tiny(HLINES, non_int_type="Fraction")
        self.B = None
        self.evA, self.evB = [], []


class ForkDriver(explore.Driver):
    def __init__(self):
        self._ref = {}

    def fresh(self):
        return Pair()

    def events(self):
        return list(HEV)

    def enabled(self, hist):
        forked = any(e[0] == "fork" for e in hist)
        return [e for e in HEV if (e[0] == "fork" and not forked) or e[0] == "A" or (e[0] == "B" and forked)]

    def _do(self, reg, ev):
        k = ev[1]
        if k == "define":
            return call(lambda: reg.define(ev[2]))[:1]
        if k == "enable":
            return call(lambda: reg.enable_contexts(ev[2]))[:1]
        if k == "disable":
            return call(lambda: reg.disable_contexts())[:1]
        if k == "system":
            def s():
                reg.default_system = ev[2]
            return call(s)[:1]
        if k == "lookup":
            return call(lambda: reg.get_name(ev[2]))
        if k == "q":
            return call(lambda: [str(reg.convert(1, "foot", "ua")), str(reg.get_base_units("yard")[0])])
        raise core.HarnessError(ev)

    def apply(self, s, ev):
        if ev[0] == "fork":
            s.B = copy.deepcopy(s.A)
            s.evB = list(s.evA)
            return ["ok"]
        if ev[0] == "A":
            s.evA.append(ev)
            return list(self._do(s.A, ev))
        s.evB.append(ev)
        return list(self._do(s.B, ev))

    def fp(self, s, hist):
        def part(reg):
            d = vars(reg)
            return {k: d[k] for k in ("_units", "_cache", "_caches", "_context_units", "_base_units_cache", "_active_ctx", "_default_system_name") if k in d}

        return explore.fingerprint(part(s.A), part(s.B) if s.B is not None else None)

    def reference(self, events):
        key = tuple(events)
        if key not in self._ref:
            regs.clear_process_caches()
            r = regs.tiny(HLINES, non_int_type="Fraction")
            for ev in events:
                self._do(r, ev)
            self._ref[key] = hprobe(r)
        return self._ref[key]

    def oracle(self, acc, s, hist, outs):
        case = {"history": [list(e) for e in hist]}
        for side, reg, evs in (("source", s.A, s.evA), ("copy", s.B, s.evB)):
            if reg is None:
                continue
            acc.ev()
            want = self.reference(evs)
            got = hprobe(reg)
            bad = [k for k in want if got[k] != want[k]]
            if bad:
                acc.violation(["deepcopy-independence", side, "differs-from-a-registry-that-saw-only-its-own-events", bad[0]], dict(case, own_events=[list(e) for e in evs]), want[bad[0]], got[bad[0]])
        if s.B is not None:
            # no object of one is shared with the other
            shared = [k for k in ("_units", "_cache", "_active_ctx", "_groups", "_systems", "_contexts", "_base_units_cache") if getattr(s.A, k, None) is getattr(s.B, k, 1)]
            if shared:
                acc.violation(["deepcopy-independence", "copy", "shares-mutable-state-with-its-source", shared[0]], case, "independent objects", shared)
        acc.sample({"history": [list(e) for e in hist], "probes": ["foot->ua", "foo", "bar", "kilofoot", "base(foot)", "system", "stack"]}, limit=2)


# ----------------------------------------------------------------------------- lazy default registry

LAZY_CHILD = r"""
import sys, json
sys.path.insert(0, sys.argv[1])
import pint
mode = sys.argv[2]
if mode == 'lazy':
    Q, U, reg = pint.Quantity, pint.Unit, pint.application_registry
else:
    reg = pint.UnitRegistry(on_redefinition='raise')
    Q, U = reg.Quantity, reg.Unit
def c(fn):
    try: return ['ok', fn()]
    except Exception as e: return ['exc', type(e).__name__]
out = {
 'conv': c(lambda: repr(Q(1, 'inch').to('cm').magnitude)),
 'parse': c(lambda: str(Q('2.5 km/h').to_base_units())),
 'unit': c(lambda: str(U('kilometer/hour'))),
 'fmt': c(lambda: format(Q(3, 'km/s'), '~P')),
 'base': c(lambda: repr(reg.get_base_units('inch')[0])),
 'compat': c(lambda: len(reg.get_compatible_units('meter'))),
 'system': c(lambda: reg.default_system),
 'ctx': c(lambda: repr(Q(500, 'nm').to('THz', 'sp').magnitude)),
 'offset': c(lambda: repr(Q(25, 'degC').to('degF').magnitude)),
 'contains': c(lambda: 'parsec' in reg),
 'undefined': c(lambda: reg.parse_units('xyzzy')),
 'pickle': c(lambda: repr(__import__('pickle').loads(__import__('pickle').dumps(Q(2, 'kilometer'))).to('m').magnitude)),
}
json.dump(out, open(sys.argv[3], 'w'))
"""


def run_lazy(acc):
    scratch = os.environ.get("VERIF_SCRATCH") or "/dev/shm"
    fpy = os.path.join(scratch, f"c18_lazy_{os.getpid()}.py")
    with open(fpy, "w") as fh:
        fh.write(LAZY_CHILD)
    res = {}
    for mode in ("lazy", "explicit"):
        fout = os.path.join(scratch, f"c18_lazy_{os.getpid()}_{mode}.json")
        env = dict(os.environ)
        env["PYTHONHASHSEED"] = "0"
        r = subprocess.run([sys.executable, "-W", "ignore", fpy, core.REPO, mode, fout], capture_output=True, text=True, env=env, timeout=300)
        if r.returncode != 0:
            acc.violation(["lazy-registry", mode, "child-process-failed", ""], {"stderr": r.stderr[-300:]}, "exit 0", r.returncode)
            return
        res[mode] = json.load(open(fout))
        os.remove(fout)
    os.remove(fpy)
    for k in res["explicit"]:
        acc.ev()
        acc.nt(("lazy", k))
        if res["lazy"][k] != res["explicit"][k]:
            acc.violation(["lazy-registry", k, "differs-from-an-explicitly-built-registry", ""], {"probe": k}, res["explicit"][k], res["lazy"][k])
    acc.outcome("lazy")
    acc.sample({"clause": "lazy-registry", "probes": sorted(res["explicit"])})


# ----------------------------------------------------------------------------- dispatch


def run_appreg(acc):
    """'unpickled objects attach to the application registry' — the one in force when they are loaded: every sequence of
    <= 3 changes of the application registry (through pint.set_application_registry or through the .set() method of
    the object pint.get_application_registry() returns), with a Quantity, a Unit and a Measurement unpickled after each
    change, and also BEFORE the next one (so that whatever the loaders remember is warm)"""
    pint = core.boot()
    regs_ = [regs.tiny(), regs.tiny(), regs.tiny()]
    payload = {}
    src = regs.tiny()
    payload["Quantity"] = pickle.dumps(src.Quantity(3, "inch"))
    payload["Unit"] = pickle.dumps(src.Unit("foot"))
    payload["Measurement"] = pickle.dumps(src.Measurement(2.0, 0.5, "inch"))
    payload["prefixed"] = pickle.dumps(src.Quantity(3, "kiloinch"))
    before = pint.get_application_registry().get()
    try:
        for n in (1, 2, 3):
            for seq in itertools.product([(i, how) for i in range(3) for how in ("set_application_registry", "ApplicationRegistry.set")], repeat=n):
                hist = []
                for i, how in seq:
                    if how == "set_application_registry":
                        pint.set_application_registry(regs_[i])
                    else:
                        pint.get_application_registry().set(regs_[i])
                    hist.append([how, f"registry#{i}"])
                    acc.ev()
                    acc.nt(("appreg", seq, len(hist)))
                    for kind, data in payload.items():
                        o = call(lambda: pickle.loads(data))
                        if o[0] != "ok" or o[1]._REGISTRY is not regs_[i]:
                            which = [k for k, r in enumerate(regs_) if o[0] == "ok" and o[1]._REGISTRY is r]
                            acc.violation(["application-registry", kind, "unpickled-object-attached-to-another-registry", how], {"history": list(hist), "object": kind}, f"registry#{i}", (f"registry#{which[0]}" if which else "some other registry") if o[0] == "ok" else o[1])
                            break
                        # ... and it works with objects of that registry
                        if kind == "Quantity":
                            o2 = call(lambda: (o[1] + regs_[i].Quantity(1, "inch")).magnitude)
                            if o2 != ("ok", 4):
                                acc.violation(["application-registry", kind, "unpickled-object-does-not-combine-with-the-application-registry", how], {"history": list(hist)}, 4, o2)
    finally:
        pint.set_application_registry(before)
    acc.outcome("application-registry")
    acc.sample({"clause": "application-registry", "history": [["set_application_registry", "registry#0"], ["ApplicationRegistry.set", "registry#1"]], "objects": list(payload)})


def shards(tier, seed):
    out = [("roundtrips", nt) for nt in ("float", "Fraction", "Decimal")] + [("fresh",), ("exceptions",), ("cross",), ("lazy",), ("appreg",)]
    depth = 3 if tier == "quick" else 4
    out.append(("hist", 0, None))
    for e in HEV:
        out.append(("hist", depth, list(e)))
    return out


def run_shard(acc, shard, tier, seed):
    k = shard[0]
    if k == "roundtrips":
        run_roundtrips(acc, shard[1])
    elif k == "fresh":
        run_fresh(acc)
    elif k == "exceptions":
        run_exceptions(acc)
    elif k == "cross":
        run_cross(acc)
    elif k == "lazy":
        run_lazy(acc)
    elif k == "appreg":
        run_appreg(acc)
    elif k == "hist":
        drv = ForkDriver()
        first = None if shard[2] is None else tuple(shard[2])
        if first is not None and first not in drv.enabled(()):
            return
        explore.explore(drv, acc, shard[1], roots=[()] if first is None else [(first,)], oracle_on="new" if tier == "quick" else "all")
        acc.dim("events", len(HEV))
    else:
        raise core.HarnessError(str(shard))


def replay(rec):
    site, case = rec["site"], rec["case"]
    acc = core.Acc(PROPERTY)
    if site[0] == "application-registry":
        run_appreg(acc)
    elif "history" in case:
        drv = ForkDriver()
        hist = tuple(tuple(e) for e in case["history"])
        s, outs = explore.run_history(drv, hist)
        drv.oracle(acc, s, hist, outs)
    elif site[0] == "round-trip":
        run_roundtrips(acc, case.get("registry", "float"))
    elif site[0] == "fresh-interpreter":
        run_fresh(acc)
    elif site[0] == "exception":
        run_exceptions(acc)
    elif site[0] == "isolation":
        run_cross(acc)
    else:
        run_lazy(acc)
    sites = {tuple(v["site"]) for v in acc.violations}
    return tuple(site) in sites, {"sites_seen": sorted(sites)[:20]}


MANIFEST = {
    "category": "model_checking",
    "technique": "explicit-state BFS over histories of a registry and its deep copy (fork at any point) with a fresh-registry differential oracle; bounded exhaustive enumeration of round trips (incl. a fresh interpreter) and of cross-registry operator cells",
    "text": "Histories: all sequences up to depth 3 (4) over 13 events — take the deep copy, define on either side (incl. the same name with another value), enable/disable a redefining context, change the default "
    "system, lazily register a prefixed unit, cache-filling queries — are replayed on a generated registry; the source and the copy must each answer 9 probes like a fresh registry that saw only its own events, "
    "and share no mutable state. Exhaustive: 5 object kinds x 10 unit expressions (with prefixed units registered lazily) x 8 magnitude types (incl. 0-d, 1-d and 2-d ndarrays) x {pickle 0-5, copy, deepcopy, tuple, Quantity(q)} in float/Fraction/Decimal "
    "registries; a copy / deepcopy / Quantity(q) of an array-valued quantity is a snapshot: 4 in-place operations (*=, +=, ito_root_units, a write into the buffer) on either object leave the other unchanged; all those pickles loaded in a fresh interpreter (attached to the application registry, prefixed units registered first, magnitudes intact); every exception class x every argument tuple over an alphabet with the falsy look-alikes of each position ("", empty container, 0, None, empty tuple) plus 10 instances as raised by the library (about 450 instances) x "
    "8 ways (type, fields, args, message); 14 operators x {Quantity, Unit} operand kinds (the second operand also built from the first registry's Unit or unit container) x scalar/array x 4 registry-pair kinds (fresh/fresh, source/deepcopy, deepcopy/source, application/explicit) must raise "
    "ValueError; every sequence of <= 3 changes of the application registry (set_application_registry or ApplicationRegistry.set) with a Quantity, Unit, Measurement and a prefixed quantity unpickled after each: they attach to the registry in force; the lazily built default registry equals an explicit one on 12 probes in fresh interpreters.",
    "note": "Trusted: pickle/copy themselves; the probe sets. == across registries is not asserted (the property names arithmetic and ordering). Duck arrays other than ndarray are outside.",
    "ref": "DESIGN.md §4 C18",
}
MANIFEST["text"] += ' Fresh-interpreter loads run under ANOTHER string-hash salt, also for objects that were compared / hashed / used as keys / converted before pickling; the loaded units and containers must be equal (both orders), hash alike and be found as dict keys against the same thing built in that interpreter.'
MANIFEST["text"] += ' A unit with fractional exponents (meter ** 0.1 / second ** 0.3) is in the alphabet for every way and registry type.'
MANIFEST["text"] += ' Redefinitions of an existing unit on the copy and on the source are among the deep-copy history events.'
MANIFEST["text"] += ' A unit with 16- and 8-digit exponents is in the alphabet.'
