"""C05 — equality, ordering and hashing agree with physical value.

E1: an alphabet of ~50 quantities built to hit every shortcut of __eq__/compare/__hash__
(identical units, both-zero, NaN, offset vs absolute vs delta, dimensionless units with distinct
root units, bare numbers); ALL ordered pairs and ALL triples; thorough adds every same-dimension
pair of canonical units at magnitudes {0, 1}.  Oracle: exact physical value from R1 factors and
affine maps (R2).  Fraction registry for == / != / hash laws, float registry for ordering away
from ties."""
from __future__ import annotations

import itertools
import math
from decimal import Decimal
from fractions import Fraction

from mc import core, regs
from mc.ref import defs

PROPERTY = "C05"
LEVEL = "exploration"
RULE = (
    "Decimal magnitudes in the float registry (pairs of units a power of ten apart: == symmetric, != its negation, exactly one of <, ==, >); all ordered pairs and all triples of the quantity alphabet, in a fresh registry and in registries with a history (queries naming other unit systems, another default system, a default-system round trip) (Fraction registry: ==, !=, hash, <,<=,>,>= vs exact physical values; float registry: ordering and == only where the exact values differ); "
    "bare-number comparisons for every alphabet quantity x {0, 1, 0.0, nan}; Unit ordering for every pair of a 12-unit alphabet; thorough: every same-dimension pair of canonical units at magnitudes {0,1}. "
    "non-trivial = distinct (registry, clause, operands) key with non-identical operands"
)
ASSUMPTIONS = [
    "physical value = exact affine map to root units computed from R1 (offset units a*x+b, delta and multiplicative units a*x); dimensionless base units (radian, count, bit) are ignored as pint's dimensionality does",
    "hash law is asserted in the Fraction registry only (float hashing of rounded magnitudes is not part of the property)",
    "PYTHONHASHSEED=0",
]
SITE_GRAMMAR = "[clause, operator, failure-kind, kind-pair-or-detail]"

# (magnitude literal, unit) — magnitudes as strings so that they are exact in every registry
ALPHABET = [
    ("1", "inch"), ("254/100", "centimeter"), ("254/10000", "meter"), ("1", "meter"), ("0", "meter"), ("0", "kilometer"), ("-1", "meter"), ("nan", "meter"),
    ("1/1000", "kilometer"), ("100", "centimeter"), ("3", "foot"), ("1", "yard"),
    ("0", "degC"), ("27315/100", "kelvin"), ("0", "kelvin"), ("32", "degF"), ("49167/100", "degR"), ("0", "delta_degC"), ("0", "degF"), ("100", "degC"), ("37315/100", "kelvin"), ("212", "degF"),
    ("5", "delta_degC"), ("9", "delta_degF"), ("5", "kelvin"),
    ("1", "hertz"), ("1", "becquerel"), ("1", "1/second"), ("60", "rpm"), ("1", "count/second"),
    ("1", "dimensionless"), ("1", "radian"), ("1", "count"), ("1", "bit"), ("100", "percent"), ("0", "percent"), ("0", "dimensionless"), ("1/8", "byte"), ("1/2", "dimensionless"), ("50", "percent"),
    ("3", "second"), ("0", "second"), ("1/20", "minute"),
    ("1", "newton"), ("100000", "dyne"), ("1", "kilogram*meter/second**2"),
]
# compound units that differ only in the SIGN or SIZE of one exponent (conversion memos keyed on such containers must not
# confuse them), each at magnitudes that make some pairs equal
SIBLINGS = [
    ("1", "kilometer/second"), ("1000", "meter/second"), ("1000", "meter/second**2"), ("1", "kilometer/second**2"), ("1", "kilometer/second**3"), ("1000", "meter/second**3"),
    ("1", "kilometer*second"), ("1000", "meter*second"), ("1", "kilometer*second**2"), ("1000", "meter*second**2"), ("1", "kilometer**-1"), ("1/1000", "meter**-1"),
    ("1", "kilometer**-2"), ("1/1000000", "meter**-2"), ("0", "meter/second"), ("0", "meter/second**2"), ("1", "kilometer**2"), ("1000000", "meter**2"), ("1000", "meter"), ("1", "kilometer"),
]
NUMBERS = ["0", "1", "0.0", "nan", "1/2", "-1"]
UNIT_ALPHA = ["inch", "foot", "meter", "kilometer", "second", "minute", "hertz", "becquerel", "radian", "count", "newton", "dyne"]


def model():
    return defs.default_model(core.REPO)


def parse_mag(s, nt):
    if s == "nan":
        return float("nan") if nt != "Decimal" else __import__("decimal").Decimal("nan")
    if s == "0.0":
        return 0.0 if nt == "float" else Fraction(0)
    f = Fraction(s)
    if nt == "Fraction":
        return f if f.denominator != 1 else int(f)
    return float(f) if f.denominator != 1 else int(f)


def unit_vec(unit):
    m = defs.parse_expr(unit.replace("dimensionless", "1"))
    return dict(m.units)


def phys(M, mag_s, unit):
    """(dimension key, exact root value or None for NaN, kind, positive_scale)"""
    uv = unit_vec(unit)
    dk = tuple(sorted((k, str(v)) for k, v in M.dim_of_units(uv).items()))
    kind = "mult"
    if len(uv) == 1:
        (n, e), = uv.items()
        p, cu = M.resolve(n)
        ud = M.units[cu]
        if ud.kind == "offset" and not ud.is_multiplicative and e == 1:
            kind = "offset"
        elif cu.startswith("delta_"):
            kind = "delta"
    if mag_s == "nan":
        return dk, None, kind
    x = Fraction(mag_s) if mag_s != "0.0" else Fraction(0)
    r = M.root_of_units(uv)
    if not r.rational:
        raise core.HarnessError(f"alphabet unit {unit} is not rational")
    val = x * r.coef
    if kind == "offset":
        val += M.units[cu].modifiers["offset"]
    return dk, val, kind


def shards(tier, seed):
    out = [("alphabet", "Fraction"), ("alphabet", "float"), ("alphabet", "Fraction", "after-named-system-queries"), ("alphabet", "Fraction", "default_system=cgs"), ("alphabet", "Fraction", "default_system=imperial"),
           ("alphabet", "Fraction", "after-default-system-round-trip"), ("decimal-magnitudes",), ("numbers", "Fraction"), ("numbers", "float"), ("units", "Fraction"), ("units", "float"), ("modes",), ("bridging-contexts",), ("constructor-paths",), ("log-zero",), ("after-redefinition",), ("siblings", "Fraction", "fresh"), ("siblings", "float", "fresh"), ("siblings", "Fraction", "after-all-pairs")] + [("object-histories", i) for i in range(len(OBJ_STARTS))]
    if tier == "thorough":
        for b in range(12):
            out.append(("allunits", b, 12))
    return out


def call(fn):
    try:
        return ("ok", fn())
    except Exception as e:  # noqa
        try:
            msg = str(e)[:120]
        except Exception:  # noqa  (messages render units through the formatter, which is C09's subject)
            msg = "<unprintable>"
        return ("exc:" + type(e).__name__, msg)


def run_alphabet(acc, nt, history="fresh", ALPHABET=ALPHABET):
    n0 = len(acc.violations)
    try:
        return _run_alphabet(acc, nt, history, ALPHABET)
    finally:
        # every record of this run names the alphabet and registry history it needs to be replayed
        for v in acc.violations[n0:]:
            if ALPHABET is SIBLINGS:
                v["case"]["alphabet"] = "siblings"
            if history != "fresh":
                v["case"]["registry_history"] = history


def _run_alphabet(acc, nt, history, ALPHABET):
    M = model()
    ureg = regs.default(nt, fresh=(history != "fresh"))
    Q = ureg.Quantity
    # equality, hash and ordering are about the quantities, not about what the registry was asked before or which
    # unit system it reports base units in
    if history == "after-named-system-queries":
        for _, u in ALPHABET:
            for sname in ("cgs", "imperial", "US", "atomic"):
                call(lambda: ureg.get_base_units(u, system=sname))
    elif history.startswith("default_system="):
        ureg.default_system = history.split("=", 1)[1]
    elif history == "after-default-system-round-trip":
        for _, u in ALPHABET[::3]:
            call(lambda: hash(Q(1, u)))
        ureg.default_system = "cgs"
        for _, u in ALPHABET[::2]:
            call(lambda: hash(Q(1, u)))
        ureg.default_system = "mks"
    items = [(m, u, phys(M, m, u)) for m, u in ALPHABET]
    qs = [Q(parse_mag(m, nt), u) for m, u, _ in items]
    n = len(qs)
    acc.dim("alphabet size", n)
    if history == "after-all-pairs":
        for i, j in itertools.product(range(n), repeat=2):
            call(lambda: qs[i] == qs[j])
            call(lambda: qs[i] < qs[j])
    eqm = [[None] * n for _ in range(n)]
    for i, j in itertools.product(range(n), repeat=2):
        (ma, ua, (dka, va, ka)), (mb, ub, (dkb, vb, kb)) = items[i], items[j]
        a, b = qs[i], qs[j]
        case = {"nt": nt, "a": [ma, ua], "b": [mb, ub]}
        if history != "fresh":
            case["registry_history"] = history
        if ALPHABET is SIBLINGS:
            case["alphabet"] = "siblings"
        kp = f"{ka}-vs-{kb}"
        if i != j:
            acc.nt(("pair", nt, i, j, history))
        want_eq = dka == dkb and va is not None and vb is not None and va == vb
        exact = nt == "Fraction" or (dka == dkb and va is not None and vb is not None and va != vb and abs(va - vb) > abs(vb) * Fraction(1, 10**9)) or dka != dkb or va is None or vb is None
        o_eq, o_ne = call(lambda: a == b), call(lambda: a != b)
        acc.ev(2)
        eqm[i][j] = o_eq[1] if o_eq[0] == "ok" else None
        if exact:
            if o_eq != ("ok", want_eq):
                tag = "both-zero" if (va == 0 and vb == 0) or (Fraction(ma if ma not in ("nan", "0.0") else 0) == 0 and Fraction(mb if mb not in ("nan", "0.0") else 0) == 0 and ma != "nan" and mb != "nan") else "general"
                acc.violation(["quantity-pair", "==", "disagrees-with-physical-value", kp, tag], case, want_eq, o_eq)
            if o_ne != ("ok", not want_eq):
                if o_eq == ("ok", want_eq):
                    acc.violation(["quantity-pair", "!=", "is-not-the-negation-of-==", kp], case, not want_eq, o_ne)
        if o_eq[0] == "ok" and o_ne[0] == "ok" and o_eq[1] == o_ne[1]:
            acc.violation(["quantity-pair", "!=", "is-not-the-negation-of-==", kp], case, not o_eq[1], o_ne)
        acc.outcome("eq" if want_eq else ("ne-samedim" if dka == dkb else "ne-otherdim"))
        # hash law (exact registry only)
        if nt == "Fraction" and o_eq == ("ok", True):
            acc.ev()
            ha, hb = call(lambda: hash(a)), call(lambda: hash(b))
            if ha[0] != "ok" or hb[0] != "ok" or ha[1] != hb[1]:
                same_root = dict(a.to_root_units()._units) == dict(b.to_root_units()._units)
                acc.violation(["quantity-pair", "hash", "equal-quantities-hash-differently", "same-root-units" if same_root else "root-units-differ-by-dimensionless-base-unit"], case, "hash(a) == hash(b)", [ha, hb])
        # ordering
        for opn, op in (("<", lambda x, y: x < y), ("<=", lambda x, y: x <= y), (">", lambda x, y: x > y), (">=", lambda x, y: x >= y)):
            acc.ev()
            o = call(lambda: op(a, b))
            if dka != dkb:
                if o[0] != "exc:DimensionalityError":
                    acc.violation(["quantity-pair", "ordering", "cross-dimension-does-not-raise-DimensionalityError"], dict(case, op=opn), "DimensionalityError", o)
                continue
            if va is None or vb is None:
                if o != ("ok", False):
                    acc.violation(["quantity-pair", "ordering", "NaN-compares-true", kp], dict(case, op=opn), False, o)
                continue
            if not exact:
                continue
            want = {"<": va < vb, "<=": va <= vb, ">": va > vb, ">=": va >= vb}[opn]
            if o != ("ok", want):
                acc.violation(["quantity-pair", "ordering", "disagrees-with-base-magnitudes", kp], dict(case, op=opn), want, o)
    # laws on the observed relation itself: reflexive, symmetric, transitive on ALL triples
    for i in range(n):
        acc.ev()
        if items[i][2][1] is not None and eqm[i][i] is not True:
            acc.violation(["quantity-law", "==", "not-reflexive"], {"nt": nt, "a": list(items[i][:2])}, True, eqm[i][i])
        for j in range(n):
            acc.ev()
            if eqm[i][j] != eqm[j][i] and nt == "Fraction":
                acc.violation(["quantity-law", "==", "not-symmetric"], {"nt": nt, "a": list(items[i][:2]), "b": list(items[j][:2])}, eqm[i][j], eqm[j][i])
            if not eqm[i][j]:
                continue
            for k in range(n):
                acc.ev()
                acc.nt(("triple", nt, i, j, k))
                if eqm[j][k] and not eqm[i][k]:
                    if nt == "Fraction":
                        acc.violation(["quantity-law", "==", "not-transitive"], {"nt": nt, "a": list(items[i][:2]), "b": list(items[j][:2]), "c": list(items[k][:2])}, True, eqm[i][k])
    acc.sample({"clause": "quantity-pair", "nt": nt, "a": list(ALPHABET[0]), "b": list(ALPHABET[1]), "ops": ["==", "!=", "hash", "<", "<=", ">", ">="]})
    acc.sample({"clause": "quantity-law", "nt": nt, "triple": [list(ALPHABET[12]), list(ALPHABET[13]), list(ALPHABET[14])]})
    return


def run_decimal_magnitudes(acc):
    """Decimal magnitudes in the DEFAULT (float) registry — a supported combination with its own conversion branch.
    No exact oracle is assumed for it; the laws are: == is symmetric, != is its negation, and of a < b, a == b, a > b
    exactly one holds for comparable operands (none is true twice), whichever operand is converted"""
    ureg = regs.default("float")
    Q = ureg.Quantity
    M = model()

    def decimal_exact(u1, u2):
        """the two units differ by a power of ten: the float factor is then a short decimal literal and the Decimal
        branch computes exactly (any other factor is rounded, and rounded arithmetic owes nobody symmetry)"""
        try:
            r = M.root_of_units(dict(defs.parse_expr(u1).units) if u1 else {}) / M.root_of_units(dict(defs.parse_expr(u2).units) if u2 else {})
        except Exception:  # noqa
            return False
        if r.units or not r.rational or r.coef <= 0:
            return False
        c = r.coef
        while c.denominator == 1 and c.numerator % 10 == 0 and c.numerator > 1:
            c /= 10
        while c.numerator == 1 and c.denominator % 10 == 0:
            c *= 10
        return c == 1

    items = [(m, u) for m, u in ALPHABET if m not in ("nan",)]
    qs = []
    for m, u in items:
        try:
            qs.append(Q(Decimal(str(Fraction(m if m != "0.0" else "0").numerator)) / Decimal(str(Fraction(m if m != "0.0" else "0").denominator)), u))
        except Exception:  # noqa
            qs.append(None)
    n = len(qs)
    for i, j in itertools.product(range(n), repeat=2):
        a, b = qs[i], qs[j]
        if a is None or b is None or not decimal_exact(items[i][1], items[j][1]):
            continue
        acc.ev()
        acc.nt(("decimal-mag", i, j))
        case = {"registry": "float", "magnitudes": "Decimal", "a": list(items[i]), "b": list(items[j])}
        e1, e2, ne = call(lambda: a == b), call(lambda: b == a), call(lambda: a != b)
        if (e1[0], e1[1] if e1[0] == "ok" else None) != (e2[0], e2[1] if e2[0] == "ok" else None):
            acc.violation(["quantity-law", "==", "not-symmetric", "Decimal-magnitudes-in-the-float-registry"], case, e1, e2)
        if e1[0] == "ok" and ne[0] == "ok" and e1[1] == ne[1]:
            acc.violation(["quantity-pair", "!=", "is-not-the-negation-of-==", "Decimal-magnitudes-in-the-float-registry"], case, not e1[1], ne)
        lt, gt = call(lambda: a < b), call(lambda: a > b)
        if lt[0] == "ok" and gt[0] == "ok" and e1[0] == "ok":
            if [lt[1], e1[1], gt[1]].count(True) != 1:
                acc.violation(["quantity-law", "ordering", "not-exactly-one-of-less-equal-greater", "Decimal-magnitudes-in-the-float-registry"], case, "exactly one of <, ==, >", [lt[1], e1[1], gt[1]])
            lt2 = call(lambda: b > a)
            if lt2 != lt:
                acc.violation(["quantity-law", "ordering", "a<b-disagrees-with-b>a", "Decimal-magnitudes-in-the-float-registry"], case, lt, lt2)
    acc.outcome("decimal-magnitudes")
    acc.sample({"clause": "quantity-law", "registry": "float", "magnitudes": "Decimal", "a": ["1", "kilometer"], "b": ["1000", "meter"]})


OBJ_STARTS = [("scalar", 6.0, "meter"), ("scalar", 0.0, "meter"), ("array", [0.0, 1.0, 6.0], "meter"), ("scalar", 500.0, "nanometer"), ("scalar", 600.0, "terahertz"), ("scalar", 0.0, "percent"), ("scalar", 50.0, "percent")]
OBJ_STEPS = [
    ("read",), ("floordiv", 2.0, "second"), ("floordiv", 1.0, "meter"), ("mul", 2.0, "second"), ("div", 4.0, "inch"), ("pow", 2),
    ("ito_base",), ("ito_root",), ("ito_reduced",), ("ito", "kilometer"), ("ito", "terahertz", "sp"), ("ito", "nanometer", "sp"), ("ito", "dimensionless"), ("ito", "kilometer**2"), ("ito", "kilometer*hour"),
]


def run_object_histories(acc, only=None):
    """equality and ordering are about the value a quantity HAS: a quantity that reached its magnitude and units through
    in-place arithmetic and in-place conversions (also through a context) compares, with every partner and in both operand
    orders, exactly like a freshly built quantity of that magnitude and those units. All step sequences up to length 3."""
    import numpy as np
    ureg = regs.default("float", fresh=True)
    Q = ureg.Quantity
    partners = [("1 meter", Q(1.0, "meter")), ("0 meter", Q(0.0, "meter")), ("1 second", Q(1.0, "second")), ("0 second", Q(0.0, "second")), ("1", Q(1.0, "")), ("0", Q(0.0, "")),
                ("600 THz", Q(600.0, "terahertz")), ("1 GHz", Q(1.0, "gigahertz")), ("500 nm", Q(500.0, "nanometer")), ("0 percent", Q(0.0, "percent")), ("1 m**2", Q(1.0, "meter**2")),
                ("1 m/s", Q(1.0, "meter/second")), ("1 m*s", Q(1.0, "meter*second")), ("number 0", 0)]
    ops = [("==", lambda x, y: x == y), ("!=", lambda x, y: x != y), ("<", lambda x, y: x < y), ("<=", lambda x, y: x <= y), (">", lambda x, y: x > y), (">=", lambda x, y: x >= y)]

    def norm(o):
        if o[0] != "ok":
            return (o[0],)
        v = o[1]
        return ("ok", tuple(np.asarray(v).ravel().tolist()), np.asarray(v).shape)

    def apply(q, st):
        k = st[0]
        if k == "read":
            q.dimensionality
        elif k == "floordiv":
            q //= Q(st[1], st[2])
        elif k == "mul":
            q *= Q(st[1], st[2])
        elif k == "div":
            q /= Q(st[1], st[2])
        elif k == "pow":
            q **= st[1]
        elif k == "ito_base":
            q.ito_base_units()
        elif k == "ito_root":
            q.ito_root_units()
        elif k == "ito_reduced":
            q.ito_reduced_units()
        elif k == "ito":
            q.ito(*st[1:])
        return q

    for si, (kind, m0, u0) in enumerate(OBJ_STARTS):
        if only is not None and si != only:
            continue
        for depth in (1, 2, 3):
            for steps in itertools.product(OBJ_STEPS, repeat=depth):
                if not any(s[0].startswith("ito") for s in steps) or steps[-1][0] == "read":
                    continue  # without an in-place conversion, and ending in a read, nothing new is reached
                def build():
                    q = Q(np.array(m0) if kind == "array" else m0, u0)
                    for st in steps:
                        q = apply(q, st)
                    return q
                o = call(build)
                if o[0] != "ok":
                    continue
                worn = o[1]
                mag = worn.magnitude
                if np.any(np.isnan(np.asarray(mag, dtype=float))):
                    continue
                fresh = Q(np.array(mag, copy=True) if kind == "array" else mag, worn.units)
                acc.nt(("object-history", kind, str(m0), u0, steps))
                for pname, pq in partners:
                    for opn, op in ops:
                        for order in ("worn-op-partner", "partner-op-worn"):
                            acc.ev()
                            if order == "worn-op-partner":
                                a, b = call(lambda: op(worn, pq)), call(lambda: op(fresh, pq))
                            else:
                                a, b = call(lambda: op(pq, worn)), call(lambda: op(pq, fresh))
                            if norm(a) != norm(b):
                                acc.violation(["quantity-pair", "==" if opn in ("==", "!=") else "ordering", "in-place-history-of-the-object-changes-the-answer", "via-context" if any(len(s) > 2 and s[0] == "ito" for s in steps) else "in-place-arithmetic-then-conversion"],
                                              {"start": [m0, u0], "steps": [list(s) for s in steps], "partner": pname, "op": opn, "order": order, "now": str(worn)}, repr(norm(b))[:120], repr(norm(a))[:120])
                acc.ev()
                ha, hb = call(lambda: hash(worn)), call(lambda: hash(fresh))
                if kind == "scalar" and ha != hb:
                    acc.violation(["quantity-pair", "hash", "in-place-history-of-the-object-changes-the-answer", "hash"], {"start": [m0, u0], "steps": [list(s) for s in steps]}, hb, ha)
    acc.outcome("object-histories")
    acc.sample({"clause": "object-history", "start": [500.0, "nanometer"], "steps": [["read"], ["ito", "terahertz", "sp"]], "partner": "1 GHz", "op": ">"})


def run_constructor_paths(acc):
    """the same quantity reached through every way of building it in ONE registry (registry.Quantity, the generic pint.Quantity
    class bound to the application registry, unit arithmetic, parsing, a pickle round trip, copy): all pairs compare equal in
    both orders and hash alike, and order like the quantity itself"""
    import copy
    import pickle
    pint = core.boot()
    ureg = regs.default("Fraction", fresh=True)
    before = pint.get_application_registry().get()
    pint.set_application_registry(ureg)
    try:
        for m, u in ALPHABET:
            if m in ("nan",):
                continue
            mag = parse_mag(m, "Fraction")
            ways = {
                "registry.Quantity(m, u)": lambda: ureg.Quantity(mag, u),
                "pint.Quantity(m, u)": lambda: pint.Quantity(mag, u),
                "pint.Quantity(m, pint.Unit(u))": lambda: pint.Quantity(mag, pint.Unit(u)),
                "m * registry.Unit(u)": lambda: mag * ureg.Unit(u),
                "pickle round trip": lambda: pickle.loads(pickle.dumps(ureg.Quantity(mag, u))),
                "pickle round trip of pint.Quantity": lambda: pickle.loads(pickle.dumps(pint.Quantity(mag, u))),
                "deepcopy": lambda: copy.deepcopy(ureg.Quantity(mag, u)),
                "copy of pint.Quantity": lambda: copy.copy(pint.Quantity(mag, u)),
                "pint.Quantity * 1": lambda: pint.Quantity(mag, u) * 1,
            }
            objs = {k: call(f) for k, f in ways.items()}
            objs = {k: o[1] for k, o in objs.items() if o[0] == "ok"}
            for (ka, a), (kb, b) in itertools.product(objs.items(), repeat=2):
                acc.ev()
                acc.nt(("ctor", m, u, ka, kb))
                case = {"a": [m, u], "built-by": [ka, kb]}
                e = call(lambda: a == b)
                if e[0] != "ok":
                    continue  # (offset quantities against zero etc.: refusals are run_alphabet's subject)
                if e[1] is not True:
                    acc.violation(["quantity-pair", "==", "same-quantity-built-two-ways-is-not-equal", ""], case, True, e)
                    continue
                ha, hb = call(lambda: hash(a)), call(lambda: hash(b))
                if ha != hb:
                    acc.violation(["quantity-pair", "hash", "equal-quantities-hash-differently", "built-two-ways"], case, "hash(a) == hash(b)", [ha, hb])
                lt = call(lambda: a < b)
                if lt[0] == "ok" and lt[1] is not False:
                    acc.violation(["quantity-pair", "ordering", "same-quantity-built-two-ways-orders-strictly", ""], case, False, lt)
    finally:
        pint.set_application_registry(before)
    acc.outcome("constructor-paths")
    acc.sample({"clause": "constructor-paths", "a": ["3", "meter"], "built-by": ["pint.Quantity(m, u)", "registry.Quantity(m, u)"]})


LOGZ = [  # (magnitude, unit, dimension tag, exact value in the dimension's root unit) — magnitude 0 of a log unit is its REFERENCE level
    (0, "dBm", "P", Fraction(1, 1000)), (0, "watt", "P", Fraction(0)), (1, "milliwatt", "P", Fraction(1, 1000)), (0, "dBW", "P", Fraction(1)), (1, "watt", "P", Fraction(1)), (0, "milliwatt", "P", Fraction(0)),
    (0, "decibel", "1", Fraction(1)), (0, "", "1", Fraction(0)), (1, "", "1", Fraction(1)), (0, "neper", "1", Fraction(1)), (0, "octave", "1", Fraction(1)), (0, "decade", "1", Fraction(1)), (0, "percent", "1", Fraction(0)), (100, "percent", "1", Fraction(1)),
]


def run_log_zero(acc):
    """zero is special only for MULTIPLICATIVE units: magnitude 0 in a logarithmic unit is its reference level (0 dBm is one
    milliwatt). Every pair of the alphabet, both registries' float arithmetic being exact at these values: ==, !=, <, >, hash
    follow the values; against a bare 0 the answer is either refused or the one the value gives"""
    ureg = regs.default("float", fresh=True)
    Q = ureg.Quantity
    qs = [Q(m, u) for m, u, _, _ in LOGZ]
    for (i, (ma, ua, da, va)), (j, (mb, ub, db, vb)) in itertools.product(enumerate(LOGZ), repeat=2):
        a, b = qs[i], qs[j]
        acc.ev(4)
        acc.nt(("log-zero", i, j))
        case = {"a": [ma, ua], "b": [mb, ub]}
        want_eq = da == db and va == vb
        o = call(lambda: a == b)
        if o != ("ok", want_eq):
            acc.violation(["quantity-pair", "==", "disagrees-with-physical-value", "log-vs-" + ("log" if ub in ("dBm", "dBW", "decibel", "neper", "octave", "decade") else "mult"), "both-zero" if ma == 0 and mb == 0 else "general"], case, want_eq, o)
        o = call(lambda: a != b)
        if o != ("ok", not want_eq):
            acc.violation(["quantity-pair", "!=", "is-not-the-negation-of-==", "log"], case, not want_eq, o)
        if da == db:
            for opn, fn, want in (("<", lambda: a < b, va < vb), (">", lambda: a > b, va > vb)):
                o = call(fn)
                if o != ("ok", want):
                    acc.violation(["quantity-pair", "ordering", "disagrees-with-base-magnitudes", "log"], dict(case, op=opn), want, o)
            if want_eq:
                ha, hb = call(lambda: hash(a)), call(lambda: hash(b))
                if ha != hb:
                    acc.violation(["quantity-pair", "hash", "equal-quantities-hash-differently", "log"], case, "equal hashes", [ha, hb])
    for i, (ma, ua, da, va) in enumerate(LOGZ):
        a = qs[i]
        for opn, fn, want in (("==", lambda: a == 0, va == 0), (">", lambda: a > 0, va > 0), ("<", lambda: a < 0, va < 0)):
            acc.ev()
            o = call(fn)
            if o[0] == "ok" and o[1] != want:
                acc.violation(["number", opn, "zero-comparison-disagrees", "log" if ua in ("dBm", "dBW", "decibel", "neper", "octave", "decade") else "mult"], {"a": [ma, ua], "number": "0"}, f"{want} (or a refusal)", o)
        o = call(lambda: bool(a))
        if o[0] == "ok" and o[1] != (va != 0):
            acc.violation(["bool", "bool", "disagrees-with-magnitude", "log"], {"a": [ma, ua]}, va != 0, o)
    acc.outcome("log-zero")
    acc.sample({"clause": "log-zero", "a": [0, "dBm"], "b": [0, "watt"], "expected": "not equal: 0 dBm is 1 mW"})


REDEF_ALPHA = [("1", "hand"), ("4", "inch"), ("12", "centimeter"), ("1", "foot"), ("12", "inch"), ("36", "centimeter"), ("1", "thou"), ("1/1000", "inch"), ("3/1000", "centimeter"),
               ("1", "yard"), ("3", "foot"), ("108", "centimeter"), ("6", "pica"), ("0", "hand"), ("0", "centimeter"), ("1", "mile"), ("5280", "foot")]


def run_after_redefinition(acc):
    """equality follows the definitions in force: a registry in which every pair was compared and hashed BEFORE a unit was
    defined again (inch = 3 cm; hand, foot, thou, pica, yard, mile are built on it) answers every comparison afterwards
    exactly like a registry that was given the same redefinition without having been used, and == stays transitive"""
    import warnings
    used, unused = regs.default("Fraction", fresh=True), regs.default("Fraction", fresh=True)

    def mk(reg):
        return [reg.Quantity(Fraction(m), u) for m, u in REDEF_ALPHA]

    qa = mk(used)
    for a, b in itertools.product(qa, repeat=2):
        call(lambda: (a == b, a < b, hash(a)))
    with warnings.catch_warnings():
        warnings.simplefilter("ignore")
        for reg in (used, unused):
            reg.define("inch = 3 * centimeter = in")
    qa, qb = mk(used), mk(unused)
    n = len(qa)
    eqm = [[None] * n for _ in range(n)]
    for i, j in itertools.product(range(n), repeat=2):
        acc.ev(3)
        acc.nt(("after-redefinition", i, j))
        case = {"a": list(REDEF_ALPHA[i]), "b": list(REDEF_ALPHA[j]), "redefined": "inch = 3 * centimeter"}
        for opn, f in (("==", lambda x, y: x == y), ("<", lambda x, y: x < y), ("hash-equal", lambda x, y: hash(x) == hash(y))):
            o1, o2 = call(lambda: f(qa[i], qa[j])), call(lambda: f(qb[i], qb[j]))
            if opn == "==":
                eqm[i][j] = o1[1] if o1[0] == "ok" else None
            if o1 != o2:
                acc.violation(["quantity-pair", "==" if opn == "==" else ("ordering" if opn == "<" else "hash"), "answer-after-a-redefinition-depends-on-what-was-compared-before-it", ""], dict(case, op=opn), o2, o1)
    for i, j, k in itertools.product(range(n), repeat=3):
        if eqm[i][j] and eqm[j][k] and not eqm[i][k]:
            acc.ev()
            acc.violation(["quantity-law", "==", "not-transitive", "after-redefinition"], {"a": list(REDEF_ALPHA[i]), "b": list(REDEF_ALPHA[j]), "c": list(REDEF_ALPHA[k]), "redefined": "inch = 3 * centimeter"}, True, eqm[i][k])
            break
    acc.outcome("after-redefinition")
    acc.sample({"clause": "after-redefinition", "a": ["1", "hand"], "b": ["12", "centimeter"], "redefined": "inch = 3 * centimeter"})


def run_numbers(acc, nt):
    """comparison with a bare number is defined only for dimensionless quantities and for zero"""
    M = model()
    ureg = regs.default(nt)
    Q = ureg.Quantity
    for (ma, ua) in ALPHABET:
        dka, va, ka = phys(M, ma, ua)
        a = Q(parse_mag(ma, nt), ua)
        for ns in NUMBERS:
            num = parse_mag(ns, nt)
            isnan = ns == "nan"
            nv = None if isnan else Fraction(ns if ns != "0.0" else 0)
            case = {"nt": nt, "a": [ma, ua], "number": ns}
            acc.ev(4)
            acc.nt(("number", nt, ma, ua, ns))
            o_eq, o_req = call(lambda: a == num), call(lambda: num == a)
            o_lt, o_gt = call(lambda: a < num), call(lambda: a > num)
            dimless = dka == ()
            if ka == "offset" and (nv == 0 or isnan):
                # zero / NaN against an offset quantity is ambiguous outside autoconvert mode
                for opn, o in (("==", o_eq), ("<", o_lt), (">", o_gt)):
                    if o[0] != "exc:OffsetUnitCalculusError":
                        acc.violation(["number", opn, "offset-quantity-vs-zero-does-not-raise"], case, "OffsetUnitCalculusError", o)
                acc.outcome("offset-vs-zero")
                continue
            if dimless:
                # compares the dimensionless value
                if va is None or isnan:
                    want = False
                    if o_eq != ("ok", False):
                        acc.violation(["number", "==", "NaN-equal"], case, False, o_eq)
                else:
                    if o_eq != ("ok", va == nv) or o_req != ("ok", va == nv):
                        acc.violation(["number", "==", "dimensionless-disagrees-with-value"], case, va == nv, [o_eq, o_req])
                    if o_lt != ("ok", va < nv) or o_gt != ("ok", va > nv):
                        acc.violation(["number", "ordering", "dimensionless-disagrees-with-value"], case, [va < nv, va > nv], [o_lt, o_gt])
                acc.outcome("dimensionless-vs-number")
            elif nv == 0 or isnan:
                # zero (or NaN) is comparable with any multiplicative quantity
                if va is None or isnan:
                    if o_eq != ("ok", False):
                        acc.violation(["number", "==", "NaN-equal"], case, False, o_eq)
                else:
                    mag = Fraction(ma)
                    if o_eq != ("ok", mag == 0):
                        acc.violation(["number", "==", "zero-comparison-disagrees"], case, mag == 0, o_eq)
                    if o_lt != ("ok", mag < 0) or o_gt != ("ok", mag > 0):
                        acc.violation(["number", "ordering", "zero-comparison-disagrees"], case, [mag < 0, mag > 0], [o_lt, o_gt])
                acc.outcome("dimensional-vs-zero")
            else:
                # dimensional quantity against a non-zero number: == is False, ordering undefined
                if o_eq != ("ok", False) or o_req != ("ok", False):
                    acc.violation(["number", "==", "dimensional-quantity-equals-number"], case, False, [o_eq, o_req])
                for opn, o in (("<", o_lt), (">", o_gt)):
                    if o[0] == "ok":
                        acc.violation(["number", "ordering", "dimensional-quantity-ordered-against-number"], dict(case, op=opn), "an error", o)
                acc.outcome("dimensional-vs-number")
    acc.sample({"clause": "number", "nt": nt, "a": list(ALPHABET[34]), "number": "1"})


def run_units(acc, nt):
    M = model()
    ureg = regs.default(nt)
    for a, b in itertools.product(UNIT_ALPHA, repeat=2):
        ua, ub = ureg.Unit(a), ureg.Unit(b)
        da, va, _ = phys(M, "1", a)
        db, vb, _ = phys(M, "1", b)
        case = {"nt": nt, "a": a, "b": b}
        acc.ev(5)
        if a != b:
            acc.nt(("unit", nt, a, b))
        o = call(lambda: ua == ub)
        if o != ("ok", a == b):
            acc.violation(["unit-pair", "==", "unit-equality-is-not-structural"], case, a == b, o)
        if a == b and hash(ua) != hash(ub):
            acc.violation(["unit-pair", "hash", "equal-units-hash-differently"], case, "equal", [hash(ua), hash(ub)])
        for opn, op in (("<", lambda x, y: x < y), ("<=", lambda x, y: x <= y), (">", lambda x, y: x > y), (">=", lambda x, y: x >= y)):
            o = call(lambda: op(ua, ub))
            if da != db:
                if o[0] != "exc:DimensionalityError":
                    acc.violation(["unit-pair", "ordering", "cross-dimension-does-not-raise-DimensionalityError"], dict(case, op=opn), "DimensionalityError", o)
            else:
                want = {"<": va < vb, "<=": va <= vb, ">": va > vb, ">=": va >= vb}[opn]
                if (nt == "Fraction" or va != vb) and o != ("ok", want):
                    acc.violation(["unit-pair", "ordering", "disagrees-with-base-magnitudes"], dict(case, op=opn), want, o)
        # unit vs quantity / number
        o = call(lambda: ua == ureg.Quantity(1, b))
        if (nt == "Fraction" or va != vb or da != db) and o != ("ok", da == db and va == vb):
            acc.violation(["unit-pair", "==", "unit-vs-quantity-disagrees"], case, da == db and va == vb, o)
    acc.outcome("unit-pairs")
    acc.sample({"clause": "unit-pair", "nt": nt, "a": "inch", "b": "foot"})


def run_bridging_contexts(acc):
    """Ordering across dimensions raises DimensionalityError also while a context that BRIDGES the two dimensions is
    active (sp: length <-> frequency <-> energy; boltzmann: temperature <-> energy): such a context makes to() succeed
    across them, it never makes the two quantities comparable. Equality inside a context is context-relative in pint
    (== converts through the active rules) and is not judged here; same-dimension ordering must be unchanged."""
    M = model()
    for how in ("with-block", "enable_contexts"):
        for ctxs in (("sp",), ("boltzmann",), ("sp", "boltzmann")):
            ureg = regs.default("Fraction", fresh=True)
            Q = ureg.Quantity
            items = [(m, u, phys(M, m, u)) for m, u in ALPHABET]
            items = [(m, u, p) for m, u, p in items if p[2] == "mult" and p[1] is not None and p[1] == p[1]]
            qs = [Q(parse_mag(m, "Fraction"), u) for m, u, _ in items]

            def body():
                for i, j in itertools.product(range(len(qs)), repeat=2):
                    (ma, ua, (dka, va, ka)), (mb, ub, (dkb, vb, kb)) = items[i], items[j]
                    a, b = qs[i], qs[j]
                    for opn, op in (("<", lambda x, y: x < y), ("<=", lambda x, y: x <= y), (">", lambda x, y: x > y), (">=", lambda x, y: x >= y)):
                        acc.ev()
                        case = {"a": [ma, ua], "b": [mb, ub], "op": opn, "contexts": list(ctxs), "activation": how, "clause": "bridging-contexts"}
                        o = call(lambda: op(a, b))
                        if dka != dkb:
                            acc.nt(("bridge", ctxs, how, ma, ua, mb, ub, opn))
                            if o[0] != "exc:DimensionalityError":
                                acc.violation(["quantity-pair", "ordering", "cross-dimension-does-not-raise-DimensionalityError", "inside-a-context-bridging-the-dimensions"], case, "DimensionalityError", o)
                        elif o != ("ok", op(va, vb)):
                            acc.violation(["quantity-pair", "ordering", "disagrees-with-physical-value", "inside-a-context-bridging-the-dimensions"], case, op(va, vb), o)

            if how == "with-block":
                with ureg.context(*ctxs):
                    body()
            else:
                ureg.enable_contexts(*ctxs)
                body()
    acc.outcome("bridging-contexts")
    acc.sample({"clause": "bridging-contexts", "contexts": ["sp"], "a": ["1", "meter"], "b": ["1", "hertz"], "ops": ["<", "<=", ">", ">="], "expected": "DimensionalityError"})


def run_modes(acc):
    """offset quantities against zero in autoconvert mode compare in base units; bool()"""
    M = model()
    ureg = regs.default("Fraction", autoconvert_offset_to_baseunit=True)
    Q = ureg.Quantity
    for (ma, ua) in ALPHABET:
        dka, va, ka = phys(M, ma, ua)
        if va is None:
            continue
        a = Q(parse_mag(ma, "Fraction"), ua)
        acc.ev(3)
        acc.nt(("modes", ma, ua))
        case = {"mode": "autoconvert_offset_to_baseunit", "a": [ma, ua]}
        if dka != ():
            o = call(lambda: a == 0)
            if o != ("ok", va == 0):
                acc.violation(["number", "==", "autoconvert-zero-comparison-disagrees-with-base-value", ka], case, va == 0, o)
            o = call(lambda: a > 0)
            if o != ("ok", va > 0):
                acc.violation(["number", "ordering", "autoconvert-zero-comparison-disagrees-with-base-value", ka], case, va > 0, o)
        o = call(lambda: bool(a))
        if ka == "offset":
            if o[0] != "exc:ValueError":
                acc.violation(["bool", "bool", "offset-quantity-has-truth-value"], case, "ValueError", o)
        elif o != ("ok", Fraction(ma if ma != "0.0" else 0) != 0):
            acc.violation(["bool", "bool", "disagrees-with-magnitude"], case, Fraction(ma) != 0, o)
    acc.outcome("modes")
    acc.sample({"clause": "number/bool", "mode": "autoconvert_offset_to_baseunit", "a": ["0", "degC"]})


def run_allunits(acc, block, nblocks):
    """every same-dimension ordered pair of canonical rational units at magnitudes {0,1} (Fraction registry)"""
    M = model()
    ureg = regs.default("Fraction")
    Q = ureg.Quantity
    cls = {}
    for u in M.order:
        ud = M.units[u]
        if ud.kind == "log" or not M.rational_unit(u) or M.root(u).coef <= 0:
            continue  # the ordering clause is about positively scaled units (electron_g_factor is negative)
        cls.setdefault(tuple(sorted((k, str(v)) for k, v in M.dim(u).items())), []).append(u)
    ci = 0
    for dk, us in sorted(cls.items()):
        for a in us:
            ci += 1
            if ci % nblocks != block:
                continue
            for b in us:
                for ma, mb in (("0", "0"), ("1", "1"), ("1", "0")):
                    _, va, ka = phys(M, ma, a)
                    _, vb, kb = phys(M, mb, b)
                    qa, qb = Q(int(ma), a), Q(int(mb), b)
                    acc.ev(3)
                    if a != b:
                        acc.nt(("all", a, b, ma, mb))
                    case = {"nt": "Fraction", "a": [ma, a], "b": [mb, b]}
                    kp = f"{ka}-vs-{kb}"
                    o = call(lambda: qa == qb)
                    if o != ("ok", va == vb):
                        tag = "both-zero" if ma == "0" and mb == "0" else "general"
                        acc.violation(["quantity-pair", "==", "disagrees-with-physical-value", kp, tag], case, va == vb, o)
                    elif va == vb:
                        ha, hb = call(lambda: hash(qa)), call(lambda: hash(qb))
                        if ha != hb or ha[0] != "ok":
                            same_root = dict(qa.to_root_units()._units) == dict(qb.to_root_units()._units)
                            acc.violation(["quantity-pair", "hash", "equal-quantities-hash-differently", "same-root-units" if same_root else "root-units-differ-by-dimensionless-base-unit"], case, "equal hashes", [ha, hb])
                    o = call(lambda: qa < qb)
                    if o != ("ok", va < vb):
                        acc.violation(["quantity-pair", "ordering", "disagrees-with-base-magnitudes", kp], dict(case, op="<"), va < vb, o)
        acc.outcome(f"class-size={len(us)}")
    acc.sample({"clause": "quantity-pair(all units)", "a": ["1", "inch"], "b": ["1", "survey_foot"]})


def run_shard(acc, shard, tier, seed):
    k = shard[0]
    if k == "alphabet":
        run_alphabet(acc, shard[1], shard[2] if len(shard) > 2 else "fresh")
    elif k == "decimal-magnitudes":
        run_decimal_magnitudes(acc)
    elif k == "numbers":
        run_numbers(acc, shard[1])
    elif k == "units":
        run_units(acc, shard[1])
    elif k == "modes":
        run_modes(acc)
    elif k == "bridging-contexts":
        run_bridging_contexts(acc)
    elif k == "constructor-paths":
        run_constructor_paths(acc)
    elif k == "log-zero":
        run_log_zero(acc)
    elif k == "after-redefinition":
        run_after_redefinition(acc)
    elif k == "siblings":
        run_alphabet(acc, shard[1], shard[2], ALPHABET=SIBLINGS)
    elif k == "object-histories":
        run_object_histories(acc, shard[1])
    elif k == "allunits":
        run_allunits(acc, shard[1], shard[2])
    else:
        raise core.HarnessError(str(shard))


def replay(rec):
    site, case = rec["site"], rec["case"]
    acc = core.Acc(PROPERTY)
    nt = case.get("nt", "Fraction")
    if case.get("clause") == "bridging-contexts":
        run_bridging_contexts(acc)
    elif site[2] == "in-place-history-of-the-object-changes-the-answer":
        run_object_histories(acc, [i for i, st in enumerate(OBJ_STARTS) if [st[1], st[2]] == case["start"]][0])
    elif "built-by" in case:
        run_constructor_paths(acc)
    elif "redefined" in case:
        run_after_redefinition(acc)
    elif site[-1] in ("log", "log-vs-log", "log-vs-mult") or (len(site) > 3 and str(site[3]).startswith("log-vs-")) or (site[0] in ("number", "bool") and "nt" not in case and "mode" not in case):
        run_log_zero(acc)
    elif site[-1] == "Decimal-magnitudes-in-the-float-registry":
        run_decimal_magnitudes(acc)
    elif site[0] in ("quantity-pair", "quantity-law"):
        run_alphabet(acc, nt, case.get("registry_history", "fresh"), ALPHABET=SIBLINGS if case.get("alphabet") == "siblings" else ALPHABET)
        if rec.get("tier") == "thorough" and tuple(site) not in {tuple(v["site"]) for v in acc.violations}:
            for b in range(12):
                run_allunits(acc, b, 12)
    elif site[0] == "number" and case.get("mode"):
        run_modes(acc)
    elif site[0] == "number":
        run_numbers(acc, nt)
    elif site[0] == "bool":
        run_modes(acc)
    elif site[0] == "unit-pair":
        run_units(acc, nt)
    sites = {tuple(v["site"]) for v in acc.violations}
    return tuple(site) in sites, {"sites_seen": sorted(sites)[:20]}


MANIFEST = {
    "category": "exploration",
    "technique": "bounded exhaustive enumeration of all pairs and triples of a shortcut-covering quantity alphabet against exact physical values (R1 factors + affine maps)",
    "text": "An alphabet of 46 quantities chosen from the branches of __eq__/compare/__hash__ (identical units, both-zero shortcut, NaN, offset vs absolute vs delta temperatures, rates with and without a "
    "dimensionless base unit, dimensionless units with distinct root units, two further dimensions) is closed under ALL ordered pairs (==, !=, hash, four orderings; Fraction and float registries) and ALL "
    "triples (reflexivity, symmetry, transitivity of the observed relation); every alphabet quantity is compared with 6 bare numbers in both operand orders; 12 units pairwise as Unit objects; "
    "autoconvert mode and bool(); thorough adds every same-dimension ordered pair of rational canonical units at magnitudes {0,1}. Expected answers come from exact rational physical values.",
    "note": "Trusted: R1 factors and the offset modifiers read from the definition files (the numeric correctness of those is C20's subject). Hash law asserted in the Fraction registry only; float registry "
    "asserts ordering/equality only where exact values differ by more than 1e-9 relative. Array magnitudes are outside this check (C16).",
    "ref": "DESIGN.md §4 C05",
}
MANIFEST["text"] += " Object histories: 7 start quantities (scalar, ndarray, zero, percent, nm/THz) x all sequences of <= 3 of 15 in-place steps (read dimensionality, //=, *=, /=, **=, ito_base/root/reduced_units, ito to other units, ito across dimensions through the 'sp' context) x 14 partners x 6 operators x both operand orders + hash: identical to a freshly built quantity of the same magnitude and units. Constructor paths: the same quantity built 9 ways in one registry (registry.Quantity, generic pint.Quantity, unit arithmetic, pickle round trips, copies) - all pairs equal, same hash, never strictly ordered."
MANIFEST["text"] += ' Exponent siblings: a 20-quantity alphabet of compound units that differ only in the sign or size of one exponent (km/s, km/s**2, km*s, km**-1, ...), all pairs/triples, on a fresh registry and after every pair was already compared.'
MANIFEST["text"] += ' Logarithmic units at magnitude 0 (their reference level) against zero and unit quantities: 14-quantity alphabet, all pairs, == != < > hash, bare 0 and bool.'
MANIFEST["text"] += ' After a redefinition: 17 quantities over inch and six units built on it; a registry used before the redefinition and an unused one answer ==, <, hash-equality alike, and == stays transitive.'
MANIFEST['text'] += ' Bridging contexts: all ordered pairs of the multiplicative quantities of the alphabet x 4 ordering operators inside sp, boltzmann and both (with-block and enable_contexts): cross-dimension ordering still raises DimensionalityError, same-dimension ordering is unchanged.'
