"""C20 — the bundled registry carries the internationally standardised values.

E1: the space the property quantifies over IS a finite table — every row of an independently
curated table of standard values (refdata/standards.py: 32 prefixes, 391 unit/constant rows — every
multiplicative unit and constant of the bundled files —, 5
temperature scales) x every spelling pint defines for that unit x {Fraction registry: exact
equality; float registry: a few ulp of the correctly rounded value}.  Each row is checked for
its SI factor, its dimension exponents and, where a standard fixes one, its symbol."""
from __future__ import annotations

from decimal import Decimal, getcontext
from fractions import Fraction

from mc import core, regs
from mc.ref import defs

PROPERTY = "C20"
LEVEL = "exploration"
RULE = (
    "every row of the curated table (32 prefixes on 3 stems, 391 units/constants = every multiplicative unit and constant the bundled files define, 5 affine temperature scales at 4 points) x every spelling the definition files give that unit (names, symbols, aliases; prefixed "
    "forms for prefixes) in the Fraction registry (exact) and the float registry (<= 4 ulp; pi-valued rows 1e-15; rows containing a square root or a measured constant: the relative tolerance stated in the row); dimension exponents and standard symbols per row. non-trivial = distinct (row, spelling, registry)"
)
ASSUMPTIONS = [
    "refdata/standards.py was typed in from the SI Brochure 9th ed., NIST SP 811 / SP 330 / Handbook 44, IAU resolutions and the CODATA 2022 table, not derived from pint's files",
    "the list of alternative spellings of a row's unit is taken from the definition files through R1 (a spelling table, not a value)",
    "rows whose unit pint does not define are counted and skipped",
]
SITE_GRAMMAR = "[clause, canonical unit name, failure-kind, registry numeric type]"

SI_ROOT = {"kg": "gram", "m": "meter", "s": "second", "A": "ampere", "K": "kelvin", "mol": "mole", "cd": "candela", "rad": "radian", "bit": "bit", "count": "count",
           "px": "pixel", "riu": "refractive_index_unit", "abu": "absorbance_unit"}


def table():
    import importlib
    import sys

    sys.path.insert(0, core.HOME)
    return importlib.import_module("refdata.standards")


def call(fn):
    try:
        return ("ok", fn())
    except Exception as e:  # noqa
        return ("exc", f"{type(e).__name__}: {str(e)[:60]}")


def expected_value(S, v):
    """-> (Fraction or None, Decimal[, reltol]) exact rational if there is one, and a 45-digit decimal"""
    getcontext().prec = 60
    if not isinstance(v, str) and v[0] == "approx":
        return None, Decimal(v[1]), v[2]
    if isinstance(v, str):
        f = Fraction(v)
        return f, Decimal(f.numerator) / Decimal(f.denominator)
    if v[0] == "expr":
        f = Fraction(v[1])
        return f, Decimal(f.numerator) / Decimal(f.denominator)
    if v[0] == "pi":
        num, den = v[1], v[2]
        power = v[3] if len(v) > 3 else 1
        pi = Decimal(S.PI50)
        return None, Decimal(num) / Decimal(den) * (pi**power)
    raise core.HarnessError(v)


def ulps(got: float, want: Decimal):
    import math

    w = float(want)
    if w == got:
        return 0
    u = math.ulp(w)
    return abs(Decimal(got) - want) / Decimal(u)


def run_rows(acc, nt):
    S = table()
    M = defs.default_model(core.REPO)
    ureg = regs.default(nt)
    st = M.spelling_table()
    missing = 0
    for name, v, dims, symbol, src in S.ROWS:
        if name not in st:
            missing += 1
            acc.count("rows whose unit pint does not define")
            continue
        canon = st[name]
        ev_ = expected_value(S, v)
        exact, dec = ev_[0], ev_[1]
        reltol = ev_[2] if len(ev_) > 2 else None
        # root units: kilogram -> 1000 gram
        kg = dims.get("kg", 0)
        if Fraction(kg).denominator == 1:
            scale = Fraction(1000) ** int(kg)
            scale_d = Decimal(scale.numerator) / Decimal(scale.denominator)
        else:
            scale = None
            scale_d = Decimal(1000) ** Decimal(float(kg))
        want_units = {SI_ROOT[k]: Fraction(e) for k, e in dims.items() if e}
        spellings = M.units[canon].spellings()
        for sp in spellings:
            acc.ev()
            acc.nt((nt, canon, sp))
            case = {"registry": nt, "row": name, "spelling": sp, "source": src}
            o = call(lambda: ureg.Quantity(1, sp).to_root_units())
            if o[0] != "ok":
                # non-identifier spellings may only exist through parse_units
                o = call(lambda: ureg.Quantity(1, ureg.parse_units(sp)).to_root_units())
            if o[0] != "ok":
                acc.violation(["value", canon, "spelling-not-usable", nt], case, "a quantity", o[1])
                continue
            q = o[1]
            got_units = {k: Fraction(x).limit_denominator(1000) for k, x in dict(q._units).items()}
            if got_units != want_units:
                acc.violation(["dimension", canon, "differs-from-the-standard-dimension", nt], case, {k: str(x) for k, x in want_units.items()}, {k: str(x) for k, x in got_units.items()})
                continue
            m = q.magnitude
            if nt == "Fraction" and exact is not None and M.rational_unit(canon):
                if not isinstance(m, (int, Fraction)) or Fraction(m) != exact * scale:
                    acc.violation(["value", canon, "differs-from-the-standardised-value", nt], case, str(exact * scale), repr(m))
            elif reltol is not None:
                want = dec * scale_d
                if abs(Decimal(float(m)) - want) > abs(want) * Decimal(max(reltol, 4e-16 if nt != "Decimal" else 0)):
                    acc.violation(["value", canon, "differs-from-the-standardised-value", nt], case, f"{str(want)[:30]} (rel. {reltol:g})", repr(m))
            else:
                want = dec * scale_d
                tol_ulp = 4 if exact is not None else 16
                if float(m) != float(want) and ulps(float(m), want) > tol_ulp and abs(Decimal(float(m)) - want) > abs(want) * Decimal("1e-15"):
                    acc.violation(["value", canon, "differs-from-the-standardised-value", nt], case, str(want)[:30], repr(m))
            acc.outcome("row")
        # the same value whatever numeric type the MAGNITUDE has (the default registry converts Fraction and Decimal
        # magnitudes through branches of their own)
        if nt == "float":
            for mk, one in (("Fraction", Fraction(1)), ("Decimal", Decimal(1)), ("int", 1), ("Fraction(7, 3)", Fraction(7, 3))):
                acc.ev()
                acc.nt((nt, canon, "magnitude", mk))
                o = call(lambda: ureg.Quantity(one, canon).to_root_units())
                want = dec * scale_d * (Decimal(one.numerator) / Decimal(one.denominator) if isinstance(one, Fraction) else Decimal(one))
                if o[0] != "ok":
                    continue  # (refusals for some magnitude types are C03/C05 matter; a VALUE must be the standard one)
                m = o[1].magnitude
                try:
                    mf = Decimal(m.numerator) / Decimal(m.denominator) if isinstance(m, Fraction) else Decimal(m)
                except Exception:  # noqa
                    continue
                if abs(mf - want) > abs(want) * Decimal(max(reltol or 0, 1e-12)):
                    acc.violation(["value", canon, "differs-from-the-standardised-value", "float-registry-" + mk.split("(")[0] + "-magnitude"], {"registry": nt, "row": name, "magnitude": mk, "source": src}, str(want)[:30], repr(m))
        if symbol is not None:
            acc.ev()
            o = call(lambda: ureg.get_symbol(name))
            o2 = call(lambda: format(ureg.Unit(name), "~"))
            if o != ("ok", symbol) or o2 != ("ok", symbol):
                acc.violation(["symbol", canon, "differs-from-the-standard-symbol", nt], {"registry": nt, "row": name}, symbol, [o, o2])
    acc.count("rows checked", len(S.ROWS) - missing)
    rowset = {st[r[0]] for r in S.ROWS if r[0] in st} | {st[r[0]] for r in S.SCALES if r[0] in st}
    outside = [n for n in M.order if n not in rowset and not n.startswith("delta_")]
    acc.dim("units defined by the bundled files that have no row (logarithmic units: C06)", len(outside))
    acc.sample({"clause": "value", "row": "force_pound", "expected": "0.45359237 * 9.80665 N exactly", "spellings": M.units["force_pound"].spellings()})


def run_prefixes(acc, nt):
    S = table()
    ureg = regs.default(nt)
    M = defs.default_model(core.REPO)
    for pname, val, sym in S.PREFIXES:
        for stem, ssym in (("meter", "m"), ("second", "s"), ("gram", "g")):
            acc.ev()
            acc.nt((nt, pname, stem))
            case = {"registry": nt, "prefix": pname, "stem": stem}
            o = call(lambda: ureg.Quantity(1, pname + stem).to(stem).magnitude)
            ok = o[0] == "ok" and ((nt == "Fraction" and isinstance(o[1], (int, Fraction)) and Fraction(o[1]) == val) or (nt != "Fraction" and abs(float(o[1]) / float(val) - 1) <= 4 * 2.3e-16))
            if not ok:
                acc.violation(["prefix", pname, "differs-from-the-standardised-value", nt], case, str(val), repr(o[1]))
            o = call(lambda: ureg.Quantity(1, sym + ssym).to(stem).magnitude)
            ok = o[0] == "ok" and ((nt == "Fraction" and Fraction(o[1]) == val) or (nt != "Fraction" and abs(float(o[1]) / float(val) - 1) <= 4 * 2.3e-16))
            if not ok:
                acc.violation(["prefix", pname, "symbol-form-differs-from-the-standardised-value", nt], dict(case, string=sym + ssym), str(val), repr(o[1]))
            o = call(lambda: ureg.get_symbol(pname + stem))
            if o != ("ok", sym + ssym):
                acc.violation(["prefix", pname, "differs-from-the-standard-symbol", nt], case, sym + ssym, o[1])
    acc.outcome("prefixes")
    acc.sample({"clause": "prefix", "prefix": "quetta", "value": "10**30", "symbol": "Q"})


def run_scales(acc, nt):
    S = table()
    ureg = regs.default(nt)
    M = defs.default_model(core.REPO)
    for name, a, b, sym in S.SCALES:
        a, b = Fraction(a), Fraction(b)
        for sp in M.units[M.spelling_table()[name]].spellings():
            for x in (Fraction(0), Fraction(100), Fraction(-40), Fraction(80)):
                acc.ev()
                acc.nt((nt, name, sp, str(x)))
                want = a * x + b
                xm = x if nt == "Fraction" else (Decimal(x.numerator) / Decimal(x.denominator) if nt == "Decimal" else float(x))
                o = call(lambda: ureg.Quantity(xm, ureg.parse_units(sp)).to("kelvin").magnitude)
                case = {"registry": nt, "scale": name, "spelling": sp, "x": str(x)}
                ok = o[0] == "ok" and ((nt == "Fraction" and Fraction(o[1]) == want) or (nt != "Fraction" and abs(float(o[1]) - float(want)) <= 1e-12 * max(1.0, abs(float(want)))))
                if not ok:
                    acc.violation(["scale", name, "differs-from-the-standardised-affine-map", nt], case, str(want), repr(o[1]))
        o = call(lambda: ureg.get_symbol(name))
        if o != ("ok", sym):
            acc.violation(["symbol", name, "differs-from-the-standard-symbol", nt], {"registry": nt, "row": name}, sym, o[1])
    # fixed points everybody knows
    for x, u, y, v in ((0, "degC", 32, "degF"), (100, "degC", 212, "degF"), (-40, "degC", -40, "degF"), (80, "degRe", 100, "degC"), (0, "degRe", 0, "degC"), (Fraction(49167, 100), "degR", 0, "degC")):
        acc.ev()
        xm = x if nt == "Fraction" else (Decimal(Fraction(x).numerator) / Decimal(Fraction(x).denominator) if nt == "Decimal" else float(x))
        o = call(lambda: ureg.Quantity(xm, u).to(v).magnitude)
        if o[0] != "ok" or abs(float(o[1]) - float(y)) > 1e-10:
            acc.violation(["scale", ureg.get_name(u), "fixed-point-wrong", nt], {"registry": nt, "from": [str(x), u], "to": v}, y, repr(o[1]))
    acc.outcome("scales")
    acc.sample({"clause": "scale", "scale": "degree_Fahrenheit", "map": "K = 5/9 * F + 45967/180"})


def shards(tier, seed):
    out = []
    nts = ["Fraction", "float"] + (["Decimal"] if tier == "thorough" else [])
    for nt in nts:
        out += [("rows", nt), ("prefixes", nt), ("scales", nt)]
    return out


def run_shard(acc, shard, tier, seed):
    {"rows": run_rows, "prefixes": run_prefixes, "scales": run_scales}[shard[0]](acc, shard[1])


def replay(rec):
    site, case = rec["site"], rec["case"]
    acc = core.Acc(PROPERTY)
    nt = case.get("registry", "Fraction")
    if site[0] == "prefix":
        run_prefixes(acc, nt)
    elif site[0] == "scale":
        run_scales(acc, nt)
    else:
        run_rows(acc, nt)
        run_scales(acc, nt)
    sites = {tuple(v["site"]) for v in acc.violations}
    return tuple(site) in sites, {"sites_seen": sorted(sites)[:20]}


MANIFEST = {
    "category": "exploration",
    "technique": "exhaustive check of every entry of an independently curated finite table of standard values against the bundled registry, in every spelling, exactly (Fraction) and to a few ulp (float)",
    "text": "The property quantifies over a finite table; the check enumerates all of it: 32 SI/binary prefixes (value, symbol, on three stems, name and symbol forms), 391 units and constants — every multiplicative unit and constant "
    "of default_en.txt and constants_en.txt (the 7 logarithmic units are in C06's table) — (SI base and named "
    "units, the 2019 defining constants and exact derived constants, non-SI accepted units, the international yard and pound with US customary, survey, avoirdupois, troy, apothecaries, US liquid/dry and "
    "imperial capacity multiples, force/pressure/energy/power units, manometric units, CGS-EMU and Gaussian units, the 1990 conventional electrical units, radiation, information, typographic and textile units, mathematical constants recomputed to 60 digits, constants derived from the defining constants, CODATA 2022 measured constants to the printed digits and the constants that follow from them) and 5 affine temperature scales. For "
    "every row and every spelling the definition files give that unit, Quantity(1, spelling).to_root_units() must have exactly the standard dimension exponents and, in the Fraction registry, exactly the "
    "standard value (float registry: 4 ulp), and the standard symbol where one is fixed. The table is typed in from the standards, not generated from pint's files, so an edited digit in either definition file is caught.",
    "note": "Trusted: the curated table (its provenance is stated per row) and R1's list of alternative spellings. Derived constants are recomputed here from the CODATA inputs with 60-digit decimals (and cross-checked against the printed CODATA values inside the table module); pi-valued rows are compared to 1e-15 in every registry.",
    "ref": "DESIGN.md §4 C20",
}
MANIFEST["text"] += ' In the float registry every row is also converted with Fraction, Decimal and int magnitudes.'
