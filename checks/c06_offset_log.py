"""C06 — offset and logarithmic units convert by their defining maps and refuse ambiguity.

E1 over unit KINDS: ABS (offset 0: kelvin, degR), OFF (degC, degF, degRe), DELTA (delta_*), LOG.
Exhaustive: every ordered pair of temperature-like units x magnitudes (conversion, inverse);
every (L unit, R unit, op, mode, scalar/array, functional/in-place) arithmetic cell; scalar
partners; powers; log<->linear pairs; parsing under as_delta.  Oracle R2: exact affine maps
(a, b) read from the definition files by R1 and the result-kind table of DESIGN Appendix B."""
from __future__ import annotations

import itertools
import math
import operator
from fractions import Fraction

from mc import core, regs
from mc.ref import defs

PROPERTY = "C06"
LEVEL = "exploration"
RULE = (
    "all ordered pairs of the temperature-like units {2 ABS, 3 OFF, 3 DELTA} x 5 magnitudes (conversion + inverse); all (L,R) unit pairs x {+,-,*,/} x {default, autoconvert} x {scalar, ndarray} x "
    "{functional, in-place}; every unit x scalar partner forms (O*n, n*O, O/n, n/O, O+n, O-n) and powers {-1,0,1,2}; every log unit <-> its reference and log<->log pairs x 5 magnitudes; refusal of "
    "log arithmetic; parse_units of 6 strings x as_delta x default_as_delta; thorough repeats all of it on a generated registry with rational offset units. non-trivial = distinct cell key"
)
ASSUMPTIONS = [
    "affine maps (a,b) of each unit are read from the definition text by R1; the standardised VALUES of those maps are C20's subject",
    "result-kind table transcribed from docs/user/nonmult.rst and the test tables (DESIGN Appendix B)",
    "log-domain values compared with absolute tolerance 1e-9, linear-domain with relative 1e-12; temperature arithmetic is exact (Fraction registry)",
]
SITE_GRAMMAR = "[clause, operator-or-api, kind-pair, failure-kind, mode(, scalar|array, functional|inplace)]"

MAGS = ["-40", "0", "10", "100", "27315/100"]

TINY_T = """
kilo- = 1e3 = k-
kelvin = [temperature]; offset: 0 = K
meter = [length] = m
rankine_like = 3 / 7 * kelvin; offset: 0 = degRx
degX = 3 / 7 * kelvin; offset: 11 / 3 = dX
degY = kelvin; offset: 100 = dY
degZ = 2 * kelvin; offset: -5 / 2 = dZ
""".strip().splitlines()

SETS = {
    "D": {"ABS": ["kelvin", "degR"], "OFF": ["degC", "degF", "degRe"], "DELTA": ["delta_degC", "delta_degF", "delta_degRe"]},
    "T": {"ABS": ["kelvin", "rankine_like"], "OFF": ["degX", "degY", "degZ"], "DELTA": ["delta_degX", "delta_degY", "delta_degZ"]},
}


def get_model(which):
    return defs.default_model(core.REPO) if which == "D" else defs.read(TINY_T)


def get_reg(which, mode):
    kw = {"autoconvert_offset_to_baseunit": mode == "autoconvert"}
    if which == "D":
        return regs.default("Fraction", **kw)
    return regs.tiny(TINY_T, non_int_type="Fraction", **kw)


def unit_table(which):
    """name -> (kind, canonical name, a, b) with K = a*x + b"""
    M = get_model(which)
    out = {}
    for kind, names in SETS[which].items():
        for n in names:
            p, cu = M.resolve(n)
            r = M.root(n)
            b = M.units[cu].modifiers.get("offset", Fraction(0)) if kind == "OFF" else Fraction(0)
            out[n] = (kind, cu, r.coef, b)
    return out


def shards(tier, seed):
    out = []
    for which in (["D"] if tier == "quick" else ["D", "T"]):
        out.append(("conv", which))
        for mode in ("default", "autoconvert"):
            for arr in (False, True):
                out.append(("arith", which, mode, arr))
                if which == "D":
                    out.append(("mixed", which, mode, arr))
            out.append(("scalar", which, mode))
        out.append(("parse", which))
    out.append(("log",))
    out.append(("mode-switch",))
    out.append(("redefine",))
    out.append(("failed-inplace",))
    return out


def call(fn):
    try:
        return ("ok", fn())
    except Exception as e:  # noqa
        return ("exc", type(e).__name__)


def fr(s):
    return Fraction(s)


def mag_of(q):
    m = q._magnitude
    try:
        import numpy as np

        if isinstance(m, np.ndarray):
            return tuple(Fraction(x) if not isinstance(x, float) else Fraction(x) for x in m.tolist())
    except ImportError:
        pass
    return Fraction(m)


def units_of(q):
    return {k: Fraction(v) for k, v in dict(q._units).items()}


# ----------------------------------------------------------------------------- conversions


def run_conv(acc, which):
    T = unit_table(which)
    ureg = get_reg(which, "default")
    Q = ureg.Quantity
    for (n1, (k1, c1, a1, b1)), (n2, (k2, c2, a2, b2)) in itertools.product(T.items(), repeat=2):
        for ms in MAGS:
            x = fr(ms)
            acc.ev(2)
            if n1 != n2:
                acc.nt(("conv", which, n1, n2, ms))
            case = {"registry": which, "src": n1, "dst": n2, "x": ms}
            kp = f"{k1}->{k2}"
            o = call(lambda: Q(x, n1).to(n2))
            if {k1, k2} == {"OFF", "DELTA"}:
                # an absolute temperature is not a temperature difference
                if o != ("exc", "DimensionalityError"):
                    acc.violation(["conversion", "to", kp, "offset<->delta-conversion-does-not-raise-DimensionalityError"], case, "DimensionalityError", show(o))
                acc.outcome("conv-refused")
                continue
            want = (a1 * x + b1 - b2) / a2
            if o[0] != "ok":
                acc.violation(["conversion", "to", kp, "raises"], case, str(want), show(o))
                continue
            got = o[1]
            if units_of(got) != {c2: 1} or mag_of(got) != want:
                acc.violation(["conversion", "to", kp, "differs-from-affine-map"], case, [str(want), c2], show(o))
                continue
            back = call(lambda: got.to(n1))
            if back[0] != "ok" or mag_of(back[1]) != x:
                acc.violation(["conversion", "to", kp, "not-inverse"], case, ms, show(back))
            # other entry points agree
            o2 = call(lambda: ureg.convert(x, n1, n2))
            o3 = call(lambda: Q(x, n1).m_as(n2))

            def _ito():
                q = Q(x, n1)
                q.ito(n2)
                return q.magnitude

            o4 = call(_ito)
            for api, oo in (("convert", o2), ("m_as", o3), ("ito", o4)):
                if oo != ("ok", want):
                    acc.violation(["conversion", api, kp, "differs-from-affine-map"], case, str(want), show(oo))
            acc.outcome("conv-ok")
    # offset units in a multiplicative context cannot be converted (default mode)
    for n, (k, c, a, b) in T.items():
        if k != "OFF":
            continue
        acc.ev()
        src = ureg.UnitsContainer({c: 1, "meter": -1})
        dst = ureg.UnitsContainer({"kelvin": 1, "meter": -1})
        o = call(lambda: ureg.convert(1, src, dst))
        if o != ("exc", "DimensionalityError"):
            acc.violation(["conversion", "convert", "OFF-in-compound", "does-not-raise-DimensionalityError"], {"registry": which, "src": {c: 1, "meter": -1}}, "DimensionalityError", show(o))
        src2 = ureg.UnitsContainer({c: 2})
        o = call(lambda: ureg.convert(1, src2, ureg.UnitsContainer({"kelvin": 2})))
        if o != ("exc", "DimensionalityError"):
            acc.violation(["conversion", "convert", "OFF-squared", "does-not-raise-DimensionalityError"], {"registry": which, "src": {c: 2}}, "DimensionalityError", show(o))
    acc.sample({"clause": "conversion", "registry": which, "src": "degF", "dst": "degC", "x": "-40", "expected": "-40"})


def show(o):
    def s(x):
        if hasattr(x, "_units"):
            return {"magnitude": s(getattr(x, "_magnitude", None)), "units": {k: str(v) for k, v in dict(x._units).items()}}
        if isinstance(x, tuple):
            return [s(i) for i in x]
        if hasattr(x, "tolist"):
            return [str(i) for i in x.tolist()]
        if isinstance(x, Fraction):
            return str(x)
        return x if isinstance(x, (str, int, bool, type(None))) else repr(x)

    return s(o)


# ----------------------------------------------------------------------------- arithmetic between temperature quantities


def expect_addsub(op, L, R, x, y):
    """L, R: (name, kind, canon, a, b). Returns ('ok', canon unit, value) or ('exc', class)"""
    nL, kL, cL, aL, bL = L
    nR, kR, cR, aR, bR = R
    f = operator.add if op == "+" else operator.sub
    multL, multR = kL != "OFF", kR != "OFF"
    if multL and multR:
        if cL == cR:
            return ("ok", cL, f(x, y))
        if kL == "DELTA" and kR != "DELTA":
            return ("ok", cR, f(x * aL / aR, y))
        return ("ok", cL, f(x, y * aR / aL))
    if op == "-" and kL == "OFF" and kR != "DELTA":
        yy = y if cL == cR else (aR * y + bR - bL) / aL
        return ("ok", "delta_" + cL, x - yy)
    if op == "-" and kR == "OFF" and kL == "ABS":
        return ("ok", cL, x - (aR * y + bR - bL) / aL)
    if kL == "OFF" and kR == "DELTA":
        return ("ok", cL, f(x, y * aR / aL))
    if kR == "OFF" and kL == "DELTA":
        return ("ok", cR, f(x * aL / aR, y))
    return ("exc", "OffsetUnitCalculusError")


def expect_muldiv(op, L, R, x, y, mode):
    nL, kL, cL, aL, bL = L
    nR, kR, cR, aR, bR = R
    f = operator.mul if op == "*" else operator.truediv
    if (kL == "OFF" or kR == "OFF") and mode == "default":
        return ("exc", "OffsetUnitCalculusError")
    root = "kelvin"
    if kL == "OFF":
        x, cL = aL * x + bL, root
    if kR == "OFF":
        y, cR = aR * y + bR, root
    units = {cL: 1}
    units[cR] = units.get(cR, 0) + (1 if op == "*" else -1)
    units = {k: Fraction(v) for k, v in units.items() if v != 0}
    if op == "/" and y == 0:
        return ("exc", "ZeroDivisionError")
    return ("ok", units, f(x, y))


def mkq(ureg, name, x, arr):
    if arr:
        import numpy as np

        return ureg.Quantity(np.array([x, x + 1], dtype=object), name)
    return ureg.Quantity(x, name)


def snap(q):
    m = q._magnitude
    return (tuple(m.tolist()) if hasattr(m, "tolist") else m, tuple(sorted(dict(q._units).items())))


def run_arith(acc, which, mode, arr):
    T = unit_table(which)
    ureg = get_reg(which, mode)
    IOP = {"+": operator.iadd, "-": operator.isub, "*": operator.imul, "/": operator.itruediv}
    OP = {"+": operator.add, "-": operator.sub, "*": operator.mul, "/": operator.truediv}
    tag = "array" if arr else "scalar"
    for (nL, (kL, cL, aL, bL)), (nR, (kR, cR, aR, bR)) in itertools.product(T.items(), repeat=2):
        L, R = (nL, kL, cL, aL, bL), (nR, kR, cR, aR, bR)
        for xs, ys in (("10", "5"), ("0", "100"), ("27315/100", "-40")):
            x, y = fr(xs), fr(ys)
            for op in "+-*/":
                kp = f"{kL}{op}{kR}"
                if op in "+-":
                    exp = expect_addsub(op, L, R, x, y)
                    exp1 = expect_addsub(op, L, R, x + 1, y + 1) if arr else None
                else:
                    exp = expect_muldiv(op, L, R, x, y, mode)
                    exp1 = expect_muldiv(op, L, R, x + 1, y + 1, mode) if arr else None
                for form in ("functional", "inplace"):
                    a, b = mkq(ureg, nL, x, arr), mkq(ureg, nR, y, arr)
                    sa, sb = snap(a), snap(b)
                    o = call(lambda: (OP if form == "functional" else IOP)[op](a, b))
                    acc.ev()
                    acc.nt((which, mode, tag, form, nL, op, nR, xs))
                    case = {"registry": which, "mode": mode, "magnitudes": tag, "form": form, "L": [xs, nL], "op": op, "R": [ys, nR]}
                    if snap(b) != sb or (form == "functional" and snap(a) != sa):
                        acc.violation(["arithmetic", op, kp, "operand-other-than-inplace-target-modified", mode, tag, form], case, "operands unchanged", {"L_changed": snap(a) != sa, "R_changed": snap(b) != sb, "R_now": show(b)})
                    if exp[0] == "exc":
                        if o != exp and not (exp[1] == "ZeroDivisionError" and o[0] == "exc"):
                            acc.violation(["arithmetic", op, kp, "ambiguous-combination-not-refused", mode, tag, form], case, exp[1], show(o))
                        acc.outcome("refused")
                        continue
                    if o[0] != "ok":
                        acc.violation(["arithmetic", op, kp, "documented-combination-raises", mode, tag, form], case, show(exp), show(o))
                        continue
                    got = o[1]
                    eu = {exp[1]: Fraction(1)} if isinstance(exp[1], str) else exp[1]
                    gm = mag_of(got)
                    em = (exp[2], exp1[2]) if arr else exp[2]
                    if units_of(got) != eu or gm != em:
                        acc.violation(["arithmetic", op, kp, "result-differs-from-documented-rule", mode, tag, form], case, [show(em), {k: str(v) for k, v in eu.items()}], show(got))
                    acc.outcome("computed")
    acc.sample({"clause": "arithmetic", "registry": which, "mode": mode, "magnitudes": tag, "L": ["10", "degC"], "op": "-", "R": ["5", "degF"], "expected_unit": "delta_degree_Celsius"})


# ----------------------------------------------------------------------------- scalar partners, powers, ordering


def run_scalar(acc, which, mode):
    T = unit_table(which)
    ureg = get_reg(which, mode)
    Q = ureg.Quantity
    for n, (k, c, a, b) in T.items():
        for xs in ("10", "0", "-40"):
            x = fr(xs)
            q = lambda: Q(x, n)  # noqa: E731
            cells = []
            off = k == "OFF"
            auto = mode == "autoconvert"
            # multiplication by a number keeps the unit (autoconvert) or is refused (default)
            cells.append(("O*n", lambda: q() * 3, ("exc", "OffsetUnitCalculusError") if off and not auto else ("ok", {c: 1}, x * 3)))
            cells.append(("n*O", lambda: 3 * q(), ("exc", "OffsetUnitCalculusError") if off and not auto else ("ok", {c: 1}, x * 3)))
            cells.append(("O/n", lambda: q() / 4, ("exc", "OffsetUnitCalculusError") if off else ("ok", {c: 1}, x / 4)))
            if off:
                kv = a * x + b
                cells.append(("n/O", lambda: 3 / q(), ("exc", "OffsetUnitCalculusError") if not auto else (("ok", {"kelvin": -1}, 3 / kv) if kv != 0 else ("exc", "ZeroDivisionError"))))
            elif x != 0:
                cells.append(("n/O", lambda: 3 / q(), ("ok", {c: -1}, 3 / x)))
            # bare numbers cannot be added to a temperature
            cells.append(("O+n", lambda: q() + 3, ("exc", "DimensionalityError")))
            cells.append(("O-n", lambda: q() - 3, ("exc", "DimensionalityError")))
            cells.append(("n+O", lambda: 3 + q(), ("exc", "DimensionalityError")))
            # powers
            cells.append(("O**1", lambda: q() ** 1, ("ok", {c: 1}, x)))
            cells.append(("O**0", lambda: q() ** 0, ("ok", {}, Fraction(1))))
            if off:
                kv = a * x + b
                cells.append(("O**2", lambda: q() ** 2, ("exc", "OffsetUnitCalculusError") if not auto else ("ok", {"kelvin": 2}, kv**2)))
                cells.append(("O**-1", lambda: q() ** -1, ("exc", "OffsetUnitCalculusError") if not auto else (("ok", {"kelvin": -1}, 1 / kv) if kv != 0 else ("exc", "ZeroDivisionError"))))
            else:
                cells.append(("O**2", lambda: q() ** 2, ("ok", {c: 2}, x**2)))
                if x != 0:
                    cells.append(("O**-1", lambda: q() ** -1, ("ok", {c: -1}, 1 / x)))
            cells.append(("neg", lambda: -q(), ("ok", {c: 1}, -x)))
            cells.append(("abs", lambda: abs(q()), ("ok", {c: 1}, abs(x))))
            for name, fn, exp in cells:
                acc.ev()
                acc.nt((which, mode, n, xs, name))
                o = call(fn)
                case = {"registry": which, "mode": mode, "q": [xs, n], "cell": name}
                if exp[0] == "exc":
                    if o != exp and not (exp[1] == "ZeroDivisionError" and o[0] == "exc"):
                        acc.violation(["scalar-partner", name, k, "ambiguous-combination-not-refused", mode], case, exp[1], show(o))
                    acc.outcome("refused")
                elif o[0] != "ok":
                    acc.violation(["scalar-partner", name, k, "documented-combination-raises", mode], case, show(exp), show(o))
                else:
                    got = o[1]
                    gu = units_of(got) if hasattr(got, "_units") else {}
                    gm = mag_of(got) if hasattr(got, "_units") else Fraction(got)
                    if gu != {kk: Fraction(v) for kk, v in exp[1].items()} or gm != exp[2]:
                        acc.violation(["scalar-partner", name, k, "result-differs-from-documented-rule", mode], case, show(exp), show(got))
                    acc.outcome("computed")
        # ordering between temperatures goes through the affine maps
        for n2, (k2, c2, a2, b2) in T.items():
            if "DELTA" in (k, k2):
                continue
            for xs, ys in (("10", "50"), ("0", "32"), ("100", "100")):
                x, y = fr(xs), fr(ys)
                acc.ev(2)
                o = call(lambda: (Q(x, n) < Q(y, n2), Q(x, n) >= Q(y, n2)))
                want = (a * x + b < a2 * y + b2, a * x + b >= a2 * y + b2)
                if o != ("ok", want):
                    acc.violation(["ordering", "<", f"{k}-vs-{k2}", "disagrees-with-affine-values", mode], {"registry": which, "mode": mode, "L": [xs, n], "R": [ys, n2]}, list(want), show(o))
    acc.sample({"clause": "scalar-partner", "registry": which, "mode": mode, "q": ["10", "degC"], "cells": ["O*n", "n*O", "O/n", "n/O", "O+n", "O**0", "O**1", "O**2"]})


# ----------------------------------------------------------------------------- products with ordinary quantities

PARTNERS = [("meter", {"meter": 1}), ("meter*second", {"meter": 1, "second": 1}), ("", {}), ("1/second", {"second": -1}), ("meter**2/second", {"meter": 2, "second": -1})]


def run_mixed(acc, which, mode, arr):
    """temperature (x) ordinary quantity, both orders: allowed for absolute and delta units; for an offset unit only
    in autoconvert mode, where the temperature goes through the base unit first - whatever the OTHER operand's unit
    container looks like (one unit, several, none)"""
    T = unit_table(which)
    if which != "D":
        return
    ureg = get_reg(which, mode)
    OP = {"*": operator.mul, "/": operator.truediv}
    IOP = {"*": operator.imul, "/": operator.itruediv}
    tag = "array" if arr else "scalar"
    for n, (k, c, a, b) in T.items():
        for pname, pu in PARTNERS:
            for xs, ps in (("10", "2"), ("-40", "3")):
                x, pv = fr(xs), fr(ps)
                for op in "*/":
                    for order in ("T.P", "P.T"):
                        for form in ("functional", "inplace"):
                            tq = mkq(ureg, n, x, arr)
                            pq = mkq(ureg, ureg.UnitsContainer(pu), pv, arr)
                            left, right = (tq, pq) if order == "T.P" else (pq, tq)
                            sl, sr = snap(left), snap(right)
                            acc.ev()
                            acc.nt(("mixed", which, mode, tag, n, pname, xs, op, order, form))
                            o = call(lambda: (OP if form == "functional" else IOP)[op](left, right))
                            case = {"registry": which, "mode": mode, "magnitudes": tag, "form": form, "temperature": [xs, n], "partner": [ps, pname], "op": op, "order": order}
                            kp = f"{k}{op}MULT" if order == "T.P" else f"MULT{op}{k}"
                            if snap(right) != sr or (form == "functional" and snap(left) != sl):
                                acc.violation(["arithmetic", op, kp, "operand-other-than-inplace-target-modified", mode, tag, form], case, "operands unchanged", "changed")
                            if k == "OFF" and mode == "default":
                                if o != ("exc", "OffsetUnitCalculusError"):
                                    acc.violation(["arithmetic", op, kp, "ambiguous-combination-not-refused", mode, tag, form], case, "OffsetUnitCalculusError", show(o))
                                acc.outcome("refused")
                                continue
                            tv, tu = (a * x + b, "kelvin") if k == "OFF" else (x, c)
                            tv1 = (a * (x + 1) + b) if k == "OFF" else x + 1
                            lu, lv, lv1 = ({tu: 1}, tv, tv1) if order == "T.P" else (pu, pv, pv + 1)
                            ru, rv, rv1 = (pu, pv, pv + 1) if order == "T.P" else ({tu: 1}, tv, tv1)
                            if op == "/" and (rv == 0 or (arr and rv1 == 0)):
                                continue
                            eu = dict(lu)
                            for kk, vv in ru.items():
                                eu[kk] = eu.get(kk, 0) + (vv if op == "*" else -vv)
                            eu = {kk: Fraction(vv) for kk, vv in eu.items() if vv}
                            f = OP[op]
                            em = (f(lv, rv), f(lv1, rv1)) if arr else f(lv, rv)
                            if o[0] != "ok":
                                acc.violation(["arithmetic", op, kp, "documented-combination-raises", mode, tag, form], case, [show(em), {kk: str(vv) for kk, vv in eu.items()}], show(o))
                                continue
                            if units_of(o[1]) != eu or mag_of(o[1]) != em:
                                acc.violation(["arithmetic", op, kp, "result-differs-from-documented-rule", mode, tag, form], case, [show(em), {kk: str(vv) for kk, vv in eu.items()}], show(o[1]))
                            acc.outcome("computed")
    acc.sample({"clause": "arithmetic", "registry": which, "mode": mode, "example": "Q(2, m*s) * Q(10, degC) -> 566.3 K*m*s in autoconvert mode, refused otherwise"})


# ----------------------------------------------------------------------------- switching the mode of a live registry

SWITCH_CONV = [("dBm/Hz", "mW/Hz"), ("dBm/Hz", "W/kHz"), ("mW/Hz", "dBm/Hz"), ("degC/meter", "kelvin/meter"), ("degC*meter", "kelvin*meter"), ("dB*meter", "meter"), ("degC", "kelvin"), ("degC", "degF"),
               ("delta_degC/meter", "kelvin/meter"), ("1/degC", "1/kelvin"), ("degC**2", "kelvin**2"), ("dBW", "watt"), ("decade", "octave")]


def run_mode_switch(acc):
    """the documented result of a conversion or product depends on the registry MODE, and the mode is an attribute
    that may be set on a live registry: after every sequence of <= 3 mode settings, each conversion of the list (and
    a product, a power) answers like a fresh registry built in the current mode"""
    def observe(ureg):
        Q = ureg.Quantity
        out = []
        for src, dst in SWITCH_CONV:
            o = call(lambda: Q(-20.0, ureg.parse_units(src, as_delta=False)).to(dst).magnitude)
            out.append((src + "->" + dst, (o[0], round(o[1], 9)) if o[0] == "ok" else o))
        for name, fn in (("degC*m", lambda: Q(10.0, "degC") * Q(2.0, "meter")), ("degC**2", lambda: Q(10.0, "degC") ** 2), ("2*degC", lambda: 2 * Q(10.0, "degC")), ("m/degC", lambda: Q(2.0, "meter") / Q(10.0, "degC"))):
            o = call(fn)
            out.append((name, (o[0], round(float(o[1].magnitude), 9), sorted(dict(o[1]._units).items())) if o[0] == "ok" else o))
        return out

    ref = {m: observe(regs.default("float", fresh=True, autoconvert_offset_to_baseunit=m)) for m in (True, False)}
    for n in (1, 2, 3):
        for seq in itertools.product((True, False), repeat=n):
            for first in (True, False):
                ureg = regs.default("float", fresh=True, autoconvert_offset_to_baseunit=first)
                history = [f"built with autoconvert={first}"]
                for m in seq:
                    # the previous mode is USED before it is changed: whatever it memoised must not outlive it
                    observe(ureg)
                    ureg.autoconvert_offset_to_baseunit = m
                    history.append(f"observe; set autoconvert={m}")
                    got = observe(ureg)
                    acc.ev()
                    acc.nt(("mode-switch", first, seq, len(history)))
                    for (k, g), (_, w) in zip(got, ref[m]):
                        if g != w:
                            acc.violation(["mode-switch", k, "MODE", "answer-of-the-previous-mode-survives-the-switch", "autoconvert" if m else "default"], {"history": list(history), "probe": k}, show(w) if not isinstance(w, tuple) or w[0] != "exc" else w, g)
                            break
    acc.outcome("mode-switch")
    acc.sample({"clause": "mode-switch", "history": ["built with autoconvert=True", "observe; set autoconvert=False"], "probe": "dBm/Hz->mW/Hz", "expected": "DimensionalityError"})


# ----------------------------------------------------------------------------- a refused in-place conversion changes nothing


def run_failed_inplace(acc):
    """'raises instead of producing a number' — and without having touched the data: an in-place conversion (ito,
    convert(inplace=True), an in-place operator) of an ndarray in an offset or logarithmic unit to a target it cannot be
    converted to raises AND leaves array, unit and every other holder of the array as they were"""
    import numpy as np

    for mode in ("default", "autoconvert"):
        ureg = regs.default("float", fresh=True, autoconvert_offset_to_baseunit=(mode == "autoconvert"))
        Q = ureg.Quantity
        sources = ["degC", "degF", "degRe", "dBm", "dBW", "decibel", "octave", "neper", "delta_degC", "kelvin"]
        targets = ["meter", "second", "degC/meter", "watt/hertz", "delta_degF/second", "dimensionless", "kilogram"]
        for src in sources:
            for dst in targets:
                vals = np.array([10.0, 20.0, 30.0])
                for api in ("ito", "convert(inplace=True)", "m_as", "to"):
                    arr = vals.copy()
                    view = arr[:]  # another holder of the same buffer
                    q = Q(arr, src)
                    acc.ev()
                    acc.nt(("failed-inplace", mode, src, dst, api))
                    if api == "ito":
                        o = call(lambda: q.ito(dst))
                    elif api == "convert(inplace=True)":
                        o = call(lambda: ureg.convert(arr, src, dst, inplace=True))
                    elif api == "m_as":
                        o = call(lambda: q.m_as(dst))
                    else:
                        o = call(lambda: q.to(dst))
                    if o[0] == "ok":
                        continue  # convertible after all (e.g. decibel -> dimensionless): judged elsewhere
                    case = {"mode": mode, "source": src, "target": dst, "api": api, "values": vals.tolist(), "error": o[1]}
                    if not np.array_equal(view, vals) or not np.array_equal(np.asarray(q.magnitude), vals) or str(q.units) != str(Q(1.0, src).units):
                        acc.violation(["failed-conversion", api, "LOG" if src in LOGS or src.startswith("dB") or src in ("decibel", "octave", "neper") else "OFF", "data-modified-although-the-conversion-was-refused", mode], case, vals.tolist(), [np.asarray(view).tolist(), str(q.units)])
    acc.outcome("failed-inplace")
    acc.sample({"clause": "failed-conversion", "source": "degC", "target": "meter", "api": "ito", "expected": "DimensionalityError, array still [10, 20, 30] degC"})


# ----------------------------------------------------------------------------- redefining an offset unit


def run_redefine(acc):
    """an offset unit that is defined again (define() under on_redefinition='ignore'/'warn', or a context redefinition)
    takes its delta counterpart along: conversions of the unit, of its delta and of temperature differences follow the
    NEW scale and offset, and the old ones come back when the context is left"""
    pint = core.boot()
    new = {"degX": (Fraction(1, 2), Fraction(200)), "degZ": (Fraction(3), Fraction(-7, 2))}
    old = {"degX": (Fraction(3, 7), Fraction(11, 3)), "degZ": (Fraction(2), Fraction(-5, 2))}

    def observe(reg, n):
        Q = reg.Quantity
        return {
            "to-kelvin": call(lambda: Fraction(Q(Fraction(10), n).to("kelvin").magnitude)),
            "from-kelvin": call(lambda: Fraction(Q(Fraction(300), "kelvin").to(n).magnitude)),
            "delta-to-kelvin": call(lambda: Fraction(Q(Fraction(10), "delta_" + n).to("kelvin").magnitude)),
            "difference": call(lambda: Fraction((Q(Fraction(10), n) - Q(Fraction(0), n)).to("kelvin").magnitude)),
            "offset+delta": call(lambda: Fraction((Q(Fraction(10), n) + Q(Fraction(4), "delta_" + n)).to("kelvin").magnitude)),
        }

    def want(n, table):
        a, b = table[n]
        return {"to-kelvin": ("ok", a * 10 + b), "from-kelvin": ("ok", (300 - b) / a), "delta-to-kelvin": ("ok", a * 10), "difference": ("ok", a * 10), "offset+delta": ("ok", a * 14 + b)}

    for n in new:
        a, b = new[n]
        line = f"{n} = {a} * kelvin; offset: {b}"
        for how in ("define-ignore", "define-warn", "context.redefine", "context-in-text"):
            acc.ev()
            acc.nt(("redefine", n, how))
            case = {"unit": n, "how": how, "new_definition": line}
            if how.startswith("define"):
                reg = regs.tiny(TINY_T, non_int_type="Fraction", on_redefinition=how.split("-")[1])
                observe(reg, n)  # the old definition is used first
                import warnings

                with warnings.catch_warnings():
                    warnings.simplefilter("ignore")
                    reg.define(line)
                phases = [("after-redefinition", new)]
            else:
                if how == "context.redefine":
                    reg = regs.tiny(TINY_T, non_int_type="Fraction")
                    c = pint.Context("rd")
                    c.redefine(line)
                    reg.add_context(c)
                else:
                    reg = regs.tiny(list(TINY_T) + ["@context rd", "    " + line, "@end"], non_int_type="Fraction")
                observe(reg, n)
                reg.enable_contexts("rd")
                phases = [("inside-context", new), ("after-context", old)]
            for pi_, (phase, table) in enumerate(phases):
                if phase == "after-context":
                    reg.disable_contexts()
                got, exp_ = observe(reg, n), want(n, table)
                for k in exp_:
                    # a Context built by hand parses its definition strings without a registry, i.e. with float literals
                    loose = how == "context.redefine" and got[k][0] == "ok" and abs(float(got[k][1]) - float(exp_[k][1])) <= 1e-12 * max(1.0, abs(float(exp_[k][1])))
                    if got[k] != exp_[k] and not loose:
                        acc.violation(["redefinition", k, "OFF", "old-scale-or-offset-survives-the-redefinition" if phase != "after-context" else "redefinition-survives-the-context", how], dict(case, phase=phase), str(exp_[k][1]), show(got[k]))
    acc.outcome("redefinition")
    acc.sample({"clause": "redefinition", "unit": "degX", "how": "context.redefine", "new_definition": "degX = 1/2 * kelvin; offset: 200", "expected": "10 degX - 0 degX == 5 K inside the context"})


# ----------------------------------------------------------------------------- parsing


def run_parse(acc, which):
    T = unit_table(which)
    off = [(n, c) for n, (k, c, a, b) in T.items() if k == "OFF"]
    for dad in (True, False):
        kw = {"default_as_delta": dad}
        ureg = regs.default("Fraction", **kw) if which == "D" else regs.tiny(TINY_T, non_int_type="Fraction", **kw)
        for n, c in off:
            forms = [
                (n, {c: 1}, {c: 1}),
                (f"{n}/meter", {"delta_" + c: 1, "meter": -1}, {c: 1, "meter": -1}),
                (f"meter*{n}", {"delta_" + c: 1, "meter": 1}, {c: 1, "meter": 1}),
                (f"{n}**2", {"delta_" + c: 2}, {c: 2}),
                (f"1/{n}", {"delta_" + c: -1}, {c: -1}),
                (f"delta_{n}", {"delta_" + c: 1}, {"delta_" + c: 1}),
            ]
            for s, as_delta_u, plain_u in forms:
                for ad in (None, True, False):
                    eff = dad if ad is None else ad
                    want = as_delta_u if eff else plain_u
                    acc.ev()
                    acc.nt((which, dad, s, ad))
                    o = call(lambda: ureg.parse_units(s) if ad is None else ureg.parse_units(s, as_delta=ad))
                    case = {"registry": which, "default_as_delta": dad, "string": s, "as_delta": ad}
                    if o[0] != "ok" or units_of(o[1]) != {k: Fraction(v) for k, v in want.items()}:
                        acc.violation(["parsing", "parse_units", "compound" if len(want) > 1 or list(want.values()) != [1] else "single", "delta-substitution-wrong"], case, want, show(o))
            # the magnitude is left unchanged when a quantity is built from a compound string
            acc.ev()
            o = call(lambda: ureg.Quantity(10, f"{n}/meter"))
            wu = {"delta_" + c: 1, "meter": -1} if dad else {c: 1, "meter": -1}
            if o[0] != "ok" or units_of(o[1]) != {k: Fraction(v) for k, v in wu.items()} or mag_of(o[1]) != 10:
                acc.violation(["parsing", "Quantity(str)", "compound", "delta-substitution-wrong"], {"registry": which, "default_as_delta": dad, "string": f"{n}/meter"}, wu, show(o))
            # offset units cannot be prefixed
            acc.ev()
            o = call(lambda: ureg.parse_units("kilo" + n))
            if o[0] != "exc":
                acc.violation(["parsing", "parse_units", "prefixed-offset-unit", "accepted"], {"registry": which, "string": "kilo" + n}, "an error", show(o))
    acc.sample({"clause": "parsing", "registry": which, "strings": ["degC", "degC/meter", "meter*degC", "degC**2"], "as_delta": [None, True, False]})


# ----------------------------------------------------------------------------- logarithmic units

LOGS = {
    # name: (reference unit, scale in reference units, logbase, logfactor)
    "decibelmilliwatt": ("watt", 1e-3, 10.0, 10.0),
    "decibelwatt": ("watt", 1.0, 10.0, 10.0),
    "decibelmicrowatt": ("watt", 1e-6, 10.0, 10.0),
    "decibel": ("", 1.0, 10.0, 10.0),
    "decade": ("", 1.0, 10.0, 1.0),
    "octave": ("", 1.0, 2.0, 1.0),
    "neper": ("", 1.0, math.e, 0.5),
}
LOG_MAGS = [-30.0, 0.0, 3.0, 10.0, 20.0]


def run_log(acc):
    M = defs.default_model(core.REPO)
    # the table above is cross-checked against the definition text first (so the file decides)
    for n, (ref, scale, base, factor) in LOGS.items():
        ud = M.units[n]
        fb, ff = float(ud.modifiers["logbase"]), float(ud.modifiers["logfactor"])
        m = defs.parse_expr(ud.expr)
        if abs(fb - base) > 1e-12 or abs(ff - factor) > 1e-12 or abs(float(m.coef) - scale) > 1e-18:
            acc.violation(["log", "definition", n, "definition-text-differs-from-reference-table"], {"unit": n}, [scale, base, factor], [float(m.coef), fb, ff])
    for mode in ("default", "autoconvert"):
        ureg = regs.default("float", autoconvert_offset_to_baseunit=(mode == "autoconvert"))
        Q = ureg.Quantity
        for n, (ref, scale, base, factor) in LOGS.items():
            for x in LOG_MAGS:
                acc.ev(2)
                acc.nt(("log", mode, n, x))
                lin = scale * base ** (x / factor)
                case = {"mode": mode, "unit": n, "x": x}
                o = call(lambda: Q(x, n).to(ref or "dimensionless").magnitude)
                if o[0] != "ok" or abs(o[1] - lin) > 1e-12 * abs(lin):
                    acc.violation(["log", "to", "LOG->linear", "differs-from-logarithmic-map", mode], case, lin, show(o))
                o = call(lambda: Q(lin, ref or "dimensionless").to(n).magnitude)
                if o[0] != "ok" or abs(o[1] - x) > 1e-9:
                    acc.violation(["log", "to", "linear->LOG", "differs-from-logarithmic-map", mode], case, x, show(o))
                # log <-> log with the same reference dimension
                for n2, (ref2, scale2, base2, factor2) in LOGS.items():
                    if (ref == "") != (ref2 == ""):
                        continue
                    acc.ev()
                    want = factor2 * math.log(lin / scale2) / math.log(base2)
                    o = call(lambda: Q(x, n).to(n2).magnitude)
                    if o[0] != "ok" or abs(o[1] - want) > 1e-9:
                        acc.violation(["log", "to", "LOG->LOG", "differs-from-logarithmic-map", mode], dict(case, dst=n2), want, show(o))
                    else:
                        back = call(lambda: Q(o[1], n2).to(n).magnitude)
                        if back[0] != "ok" or abs(back[1] - x) > 1e-9:
                            acc.violation(["log", "to", "LOG->LOG", "not-inverse", mode], dict(case, dst=n2), x, show(back))
            # the same maps on ndarray magnitudes, not in place and IN PLACE (ito / convert(inplace=True) use the
            # converters' in-place branches, which are separate code)
            import numpy as np

            xs = np.array(LOG_MAGS, dtype=float)
            lins = np.array([scale * base ** (v / factor) for v in LOG_MAGS])
            for n2, (ref2, scale2, base2, factor2) in list(LOGS.items()) + [(None, (ref, None, None, None))]:
                if n2 is not None and (ref == "") != (ref2 == ""):
                    continue
                dst = n2 if n2 is not None else (ref or "dimensionless")
                want = lins if n2 is None else np.array([factor2 * math.log(v / scale2) / math.log(base2) for v in lins])
                for direction in ("forward", "backward"):
                    src_u, dst_u, src_v, dst_v = (n, dst, xs, want) if direction == "forward" else (dst, n, want, xs)

                    def _ito():
                        q = Q(src_v.copy(), src_u)
                        q.ito(dst_u)
                        return q.magnitude

                    for api, fn in (("to[array]", lambda: Q(src_v.copy(), src_u).to(dst_u).magnitude), ("ito[array]", _ito), ("convert(inplace=True)[array]", lambda: ureg.convert(src_v.copy(), src_u, dst_u, inplace=True))):
                        acc.ev()
                        acc.nt(("logarr", mode, n, dst, direction, api))
                        o = call(fn)
                        if o[0] != "ok" or not np.allclose(np.asarray(o[1], dtype=float), dst_v, rtol=1e-9, atol=1e-9):
                            acc.violation(["log", api, "LOG<->" + ("LOG" if n2 is not None else "linear"), "differs-from-logarithmic-map", mode], {"mode": mode, "src": src_u, "dst": dst_u, "values": [float(v) for v in src_v]}, [float(v) for v in dst_v], show(o) if o[0] != "ok" else [float(v) for v in np.asarray(o[1], dtype=float)])
            # incompatible reference: dBm is a power level, not a length
            acc.ev()
            o = call(lambda: Q(1.0, n).to("meter"))
            if o != ("exc", "DimensionalityError"):
                acc.violation(["log", "to", "LOG->other-dimension", "does-not-raise-DimensionalityError", mode], {"mode": mode, "unit": n}, "DimensionalityError", show(o))
            if mode == "default":
                # single-unit arithmetic on a logarithmic quantity is ambiguous and refused
                for cell, fn in (("L*2", lambda: Q(10.0, n) * 2), ("L*L", lambda: Q(10.0, n) * Q(10.0, n)), ("L/L", lambda: Q(10.0, n) / Q(3.0, n)), ("L**2", lambda: Q(10.0, n) ** 2), ("L+L", lambda: Q(10.0, n) + Q(10.0, n)), ("2/L", lambda: 2 / Q(10.0, n))):
                    acc.ev()
                    acc.nt(("logarith", n, cell))
                    o = call(fn)
                    if o != ("exc", "OffsetUnitCalculusError"):
                        acc.violation(["log", cell, "LOG", "ambiguous-combination-not-refused", mode], {"mode": mode, "unit": n, "cell": cell}, "OffsetUnitCalculusError", show(o))
        acc.outcome("log-" + mode)
    acc.sample({"clause": "log", "unit": "decibelmilliwatt", "x": 20.0, "linear": "0.1 watt"})


def run_shard(acc, shard, tier, seed):
    k = shard[0]
    if k == "conv":
        run_conv(acc, shard[1])
    elif k == "arith":
        run_arith(acc, shard[1], shard[2], shard[3])
    elif k == "mixed":
        run_mixed(acc, shard[1], shard[2], shard[3])
    elif k == "scalar":
        run_scalar(acc, shard[1], shard[2])
    elif k == "parse":
        run_parse(acc, shard[1])
    elif k == "log":
        run_log(acc)
    elif k == "mode-switch":
        run_mode_switch(acc)
    elif k == "redefine":
        run_redefine(acc)
    elif k == "failed-inplace":
        run_failed_inplace(acc)
    else:
        raise core.HarnessError(str(shard))


def replay(rec):
    site, case = rec["site"], rec["case"]
    acc = core.Acc(PROPERTY)
    which = case.get("registry", "D")
    mode = case.get("mode", "default")
    if site[0] == "conversion":
        run_conv(acc, which)
    elif site[0] == "arithmetic" and "partner" in case:
        run_mixed(acc, which, mode, case.get("magnitudes") == "array")
    elif site[0] == "arithmetic":
        run_arith(acc, which, mode, case.get("magnitudes") == "array")
    elif site[0] in ("scalar-partner", "ordering"):
        run_scalar(acc, which, mode)
    elif site[0] == "parsing":
        run_parse(acc, which)
    elif site[0] == "log":
        run_log(acc)
    elif site[0] == "mode-switch":
        run_mode_switch(acc)
    elif site[0] == "redefinition":
        run_redefine(acc)
    elif site[0] == "failed-conversion":
        run_failed_inplace(acc)
    sites = {tuple(v["site"]) for v in acc.violations}
    return tuple(site) in sites, {"sites_seen": sorted(sites)[:20]}


MANIFEST = {
    "category": "exploration",
    "technique": "bounded exhaustive enumeration of (unit kind x unit kind x operator x registry mode x scalar/array x functional/in-place) cells against exact affine/logarithmic maps and the documented result-kind table",
    "text": "Every ordered pair of the 8 temperature-like units (2 absolute, 3 offset, 3 delta) x 5 magnitudes is converted (to/convert/m_as/ito) and inverted in the Fraction registry and compared exactly with "
    "the affine maps read from the definition text; offset<->delta and offset-in-compound conversions must raise DimensionalityError. Every (L,R) unit pair x {+,-,*,/} x {default, autoconvert} x {scalar, "
    "ndarray} x {functional, in-place} cell must produce exactly the documented unit and value or OffsetUnitCalculusError, and must leave every operand but an in-place target unchanged. Products and quotients of every temperature-like unit with ordinary quantities whose container has one, several or no units, in both orders, same modes and forms. Redefining an offset unit (define() under on_redefinition ignore/warn, Context.redefine, a context in the text) after it was used: the unit, its delta unit, differences and offset+delta follow the new scale and offset, and the old ones return with the context. Switching autoconvert_offset_to_baseunit on a LIVE registry: after every sequence of <= 3 settings (the previous mode used before each) 13 conversions and 4 products answer like a fresh registry of the current mode. Scalar partners, "
    "powers, ordering, log<->linear and log<->log pairs (scalars, and ndarrays through to / ito / convert(inplace=True)), refusal of log arithmetic, and parse_units delta substitution under as_delta/default_as_delta complete the cell space. thorough repeats it on a "
    "generated registry with rational scale/offset units.",
    "note": "Trusted: R1's reading of scale/offset (their standardised values are C20's subject), the result-kind table (DESIGN Appendix B, transcribed from docs and test tables), math.log/exp for the log "
    "domain (tolerance 1e-9). Compound log units (documented as beta) and offset units inside compounds in autoconvert mode are not asserted.",
    "ref": "DESIGN.md §4 C06, Appendix B",
}
