"""C14 — systems and groups select base units and members exactly as declared.

E1 (exhaustive inputs): every canonical unit x every declared system (and none): base-unit
rewriting uses only the system's declared base units plus untouched root units, preserves
dimensionality and physical value (exact for rational units in the Fraction registry), is
idempotent, and a default-system change is effective immediately; 2-factor compounds; restricted
compatible-unit listings for every unit x every group/system; attribute access through a system.
E2 (histories): BFS over default-system changes, base-unit queries, group edits (add/remove units
and groups, cyclic attempts) and membership queries on a generated registry with a reference
closure model (R6: sets and a `using` graph) stepped in lock-step."""
from __future__ import annotations

import itertools
import signal
from fractions import Fraction

from mc import core, regs, explore
from mc.ref import defs

PROPERTY = "C14"
LEVEL = "model_checking"
RULE = (
    "inputs: every canonical unit x {None, SI, mks, cgs, atomic, Planck, imperial, US} via get_base_units(system=), to_base_units / ito_base_units under default_system; all 2-factor compounds over 10 units x "
    "exponents {-1,1,2}; get_compatible_units(u, G) for every unit x every group and system; sys.<S>.<name> for every system x every spelling with a system-prefixed variant; histories: BFS to depth 3/4 over 19 "
    "events (3 default-system settings, 3 base-unit queries, 9 group edits incl. 2 cyclic attempts, membership query, define into a group) with 16 probes per state. non-trivial = distinct case / state fingerprint"
)
ASSUMPTIONS = [
    "R6: allowed base units of a system = its rules' new units + the root units it does not replace; members = transitive closure over `using`; a system without `using` uses the root group (documented)",
    "physical value compared through R1 exact root factors (tolerance 1e-12 for units whose chain passes through a fractional power)",
    "fingerprint for histories = groups (_unit_names, _used_groups, _used_by, computed members), systems (computed members), base-units cache, default system",
]
SITE_GRAMMAR = "[clause, api, failure-kind, detail]"

SYSTEMS = [None, "SI", "mks", "cgs", "atomic", "Planck", "imperial", "US"]


def model():
    return defs.default_model(core.REPO)


def call(fn):
    try:
        return ["ok", fn()]
    except Exception as e:  # noqa
        return ["exc", type(e).__name__]


def system_rules(M, sname):
    """{old root unit: new unit} and the set of allowed base-unit names"""
    if sname is None:
        return {}, None
    repl = {}
    for new, old in M.systems[sname]["rules"]:
        pn, un = M.resolve(new)
        new_c = pn + un
        if old is None:
            r = M.root(new)
            if len(r.units) != 1:
                raise defs.DefError("rule without old unit must name a unit with a single root unit")
            (old_c, _), = r.units.items()
        else:
            po, uo = M.resolve(old)
            old_c = po + uo
        repl[old_c] = new_c
    return repl, set(repl.values())


def base_units_of(M):
    return [n for n in M.order if M.is_base(n)]


def close_enough(a: defs.Mono, b: defs.Mono):
    if a.units != b.units:
        return False
    if a.rational and b.rational:
        return a.coef == b.coef
    fa, fb = float(a.dec(30)), float(b.dec(30))
    return abs(fa - fb) <= 1e-12 * max(abs(fa), abs(fb))


# ----------------------------------------------------------------------------- (A)/(B) base-unit rewriting


def check_base(acc, M, ureg, units, sname, clause):
    """units: {canonical name: exponent}"""
    repl, new_units = system_rules(M, sname)
    roots = set(base_units_of(M))
    allowed = roots if sname is None else (new_units | (roots - set(repl)))
    uc = ureg.UnitsContainer({k: (v if isinstance(v, int) else Fraction(v)) for k, v in units.items()})
    case = {"system": sname, "units": {k: str(v) for k, v in units.items()}}
    src = M.root_of_units(units)
    o = call(lambda: ureg.get_base_units(uc, system=sname))
    acc.ev()
    if o[0] != "ok":
        acc.violation([clause, "get_base_units", "raises", str(sname)], case, "factor and units", o)
        return
    f, bu = o[1]
    got_units = {k: Fraction(v) for k, v in dict(bu._units).items()}
    stray = [k for k in got_units if k not in allowed]
    if stray:
        acc.violation([clause, "get_base_units", "result-uses-a-unit-that-is-not-a-base-unit-of-the-system", str(sname)], case, sorted(allowed & set(got_units)) or "only declared base units", stray)
        return
    if f is None:
        return
    # value and dimension preserved:  1 [units] == f [base units]
    dst = M.root_of_units(got_units)
    fm = defs.Mono(Fraction(f)) if not isinstance(f, float) else defs.Mono(Fraction(repr(f)))
    if not close_enough(src, fm * dst):
        acc.violation([clause, "get_base_units", "physical-value-or-dimension-not-preserved", str(sname)], case, f"{src.coef} {dict(src.units)}", f"{f} x {dst.coef} {dict(dst.units)}")
        return
    if src.rational and dst.rational and not isinstance(f, (int, Fraction)):
        acc.violation([clause, "get_base_units", "inexact-factor-for-rational-units", str(sname)], case, "int or Fraction", type(f).__name__)
    # idempotent
    o2 = call(lambda: ureg.get_base_units(bu, system=sname))
    one = o2[0] == "ok" and (o2[1][0] == 1 or (not (src.rational and dst.rational) and abs(float(o2[1][0]) - 1) < 1e-12))
    if o2[0] != "ok" or dict(o2[1][1]._units) != dict(bu._units) or not one:
        acc.violation([clause, "get_base_units", "not-idempotent", str(sname)], case, [1, dict(bu._units)], repr(o2))
    acc.outcome("system=" + str(sname))
    return f, got_units


def run_units(acc, sname, block, nblocks):
    M = model()
    ureg = regs.default("Fraction", fresh=True)
    ureg.default_system = sname
    names = [n for n in M.order if M.units[n].is_multiplicative]
    acc.dim("multiplicative canonical units", len(names))
    for i, n in enumerate(names):
        if i % nblocks != block:
            continue
        acc.nt(("unit", sname, n))
        r = check_base(acc, M, ureg, {n: 1}, sname, "unit")
        if r is None:
            continue
        f, gu = r
        # to_base_units / ito_base_units under the default system agree with the explicit-system answer
        q = ureg.Quantity(3, n)
        o = call(lambda: q.to_base_units())

        def _ito():
            q2 = ureg.Quantity(3, n)
            q2.ito_base_units()
            return q2

        o2 = call(_ito)
        acc.ev(2)
        for api, oo in (("to_base_units", o), ("ito_base_units", o2)):
            if oo[0] != "ok":
                acc.violation(["unit", api, "raises", str(sname)], {"system": sname, "unit": n}, "a quantity", oo)
                continue
            qq = oo[1]
            if not hasattr(qq._units, "items"):
                acc.violation(["unit", api, "quantity-left-with-a-units-attribute-that-is-not-a-container", str(sname)], {"system": sname, "unit": n}, "UnitsContainer", type(qq._units).__name__)
                continue
            exact = isinstance(f, (int, Fraction)) and isinstance(qq.magnitude, (int, Fraction))
            same_mag = (qq.magnitude == 3 * f) if exact else abs(float(qq.magnitude) - 3 * float(f)) <= 1e-12 * abs(3 * float(f))
            if {k: Fraction(v) for k, v in dict(qq._units).items()} != gu or not same_mag:
                acc.violation(["unit", api, "differs-from-get_base_units-of-the-default-system", str(sname)], {"system": sname, "unit": n}, [str(3 * f), {k: str(v) for k, v in gu.items()}], [str(qq.magnitude), {k: str(v) for k, v in dict(qq._units).items()}])
            if dict(q._units) != {n: 1} or q.magnitude != 3:
                acc.violation(["unit", api, "operand-modified", str(sname)], {"system": sname, "unit": n}, "unchanged", repr(dict(q._units)))
    acc.sample({"clause": "unit", "system": sname, "unit": names[block], "apis": ["get_base_units(system=)", "to_base_units", "ito_base_units"]})


ALPHA_B = ["meter", "inch", "second", "hour", "gram", "pound", "newton", "liter", "ampere", "kelvin"]


def run_compounds(acc, sname):
    M = model()
    ureg = regs.default("Fraction", fresh=True)
    ureg.default_system = sname
    # atomic / Planck base units are ~1e-35..1e-8 SI: squared compounds of them overflow the float range in an
    # accumulation-order dependent way (inf), which is a float-range matter, not a system-selection one
    exps = (-1, 1) if sname in ("atomic", "Planck") else (-1, 1, 2)
    for a, b in itertools.combinations(ALPHA_B, 2):
        for ea, eb in itertools.product(exps, repeat=2):
            acc.nt(("compound", sname, a, b, ea, eb))
            check_base(acc, M, ureg, {a: ea, b: eb}, sname, "compound")
    acc.sample({"clause": "compound", "system": sname, "units": {"inch": "2", "hour": "-1"}})


GS_LINES = """
ua = [A]
ub = [B]
uc = [C]
sq = 4 * ua ** 2
cu = 8 * ua ** 3
inv = 7 / ub
rate = 11 * ua / ub
big = 1000 * ua
@system Sq
    sq
@end
@system Cu
    cu
@end
@system Inv
    inv
@end
@system CuOld
    cu : ua
@end
@system Two
    sq
    inv
@end
@system Rate
    rate : ub
@end
@system Big
    big
    uc
@end
""".strip().splitlines()
GS_UNITS = ["ua", "ub", "uc", "sq", "cu", "inv", "rate", "big"]


def run_gensys(acc):
    """generated systems covering every rule form: a bare rule naming a unit that is a POWER of a root unit
    (exponent 2, 3, -1), the same with an explicit old unit, a rule that replaces a root unit by a compound unit,
    two rules at once.  Every unit and every two-factor compound under every system, through the named-system
    query and through the default system."""
    M = defs.read(list(GS_LINES))
    for sname in [None] + sorted(M.systems):
        ureg = regs.tiny(GS_LINES, non_int_type="Fraction")
        cases = [{n: 1} for n in GS_UNITS] + [{a: ea, b: eb} for a, b in itertools.combinations(GS_UNITS, 2) for ea, eb in ((1, 1), (1, -1), (2, -1))]
        for units in cases:
            acc.nt(("gensys", sname, tuple(units.items())))
            r = check_base(acc, M, ureg, units, sname, "generated-system")
            if r is None:
                continue
            f, gu = r
            ureg2 = regs.tiny(GS_LINES, non_int_type="Fraction")
            ureg2.default_system = sname
            acc.ev()
            o = call(lambda: ureg2.Quantity(1, ureg2.UnitsContainer(units)).to_base_units())
            if o[0] != "ok" or {k: Fraction(v) for k, v in dict(o[1]._units).items()} != gu or abs(float(o[1].magnitude) - float(f)) > 1e-12 * abs(float(f)):
                acc.violation(["generated-system", "to_base_units", "differs-from-get_base_units-of-the-default-system", str(sname)], {"system": sname, "units": {k: str(v) for k, v in units.items()}}, [str(f), {k: str(v) for k, v in gu.items()}], repr(o)[:200])
    acc.sample({"clause": "generated-system", "systems": sorted(M.systems), "rule_forms": ["sq (= 4 ua**2)", "cu : ua", "rate : ub (= 11 ua/ub)"]})


def run_switch(acc):
    """changing the default system takes effect on the very next query, whatever was asked before"""
    M = model()
    probes = ["mile", "pound", "gallon", "newton", "hour"]
    for order in itertools.permutations([s for s in SYSTEMS if s in (None, "mks", "cgs", "imperial", "US")], 3):
        ureg = regs.default("Fraction", fresh=True)
        for sname in order:
            ureg.default_system = sname
            for other in order:
                if other != sname:
                    for n in probes:  # queries that name another system must not leak into the default answers below
                        call(lambda: ureg.get_base_units(n, system=other))
            for n in probes:
                acc.ev()
                acc.nt(("switch", order, sname, n))
                repl, new_units = system_rules(M, sname)
                roots = set(base_units_of(M))
                allowed = roots if sname is None else (new_units | (roots - set(repl)))
                o = call(lambda: ureg.Quantity(1, n).to_base_units())
                case = {"default_system_sequence": list(order), "current": sname, "unit": n}
                if o[0] != "ok":
                    acc.violation(["switch", "to_base_units", "raises", ""], case, "a quantity", o)
                    continue
                got_units = {k: Fraction(v) for k, v in dict(o[1]._units).items()}
                stray = [k for k in got_units if k not in allowed]
                if stray:
                    acc.violation(["switch", "to_base_units", "default-system-change-not-effective-immediately", ""], case, sorted(allowed)[:12], stray)
                    continue
                src, dst = M.root(n), M.root_of_units(got_units)
                if not close_enough(src, defs.Mono(Fraction(o[1].magnitude)) * dst):
                    acc.violation(["switch", "to_base_units", "physical-value-or-dimension-not-preserved", ""], case, str(src.coef), str(o[1].magnitude))
    acc.sample({"clause": "switch", "default_system_sequence": ["cgs", None, "imperial"], "probes": probes})


# ----------------------------------------------------------------------------- (C) (D) members, restricted listings, attribute access


def run_members(acc):
    M = model()
    ureg = regs.default("Fraction", fresh=True)
    groups = list(M.groups) + [M.defaults["group"], "root"]
    dims = {n: tuple(sorted(M.dim(n).items())) for n in M.units}
    mult = [n for n in M.order if M.units[n].is_multiplicative and not n.startswith("delta_")]
    for g in groups + list(M.systems):
        members = M.group_members(g) if g in groups else M.system_members(g)
        acc.ev()
        o = call(lambda: set(ureg.get_group(g, False).members) if g in groups else set(ureg.get_system(g, False).members))
        if o != ["ok", members]:
            acc.violation(["members", "group" if g in groups else "system", "differs-from-transitive-closure", g], {"name": g}, sorted(members)[:20], sorted(o[1])[:20] if o[0] == "ok" else o)
        for u in mult:
            if not M.dim(u) and not M.root(u).units:
                continue
            want = {n for n in members if n in dims and dims[n] == dims[u] and not n.startswith("delta_")}
            acc.ev()
            acc.nt(("listing", g, u))
            o = call(lambda: {next(iter(x._units)) for x in ureg.get_compatible_units(u, g)})
            if o != ["ok", want]:
                got = o[1] if o[0] == "ok" else set()
                acc.violation(["listing", "get_compatible_units(u, group_or_system)", "differs-from-members-of-same-dimension", "group" if g in groups else "system"], {"unit": u, "group_or_system": g}, {"missing": sorted(want - got)[:6], "extra": sorted(got - want)[:6]}, o[0])
        acc.outcome("listing:" + g)
    # attribute access through a system: <system>_<name> if defined, else <name>
    st = M.spelling_table()
    for s_ in M.systems:
        sysobj = ureg.get_system(s_, False)
        for sp in st:
            if not sp.isidentifier():
                continue
            variant = f"{s_}_{sp}"
            if variant not in st and hash(sp) % 7:
                continue  # all names with a variant, plus a seventh of the others
            acc.ev()
            acc.nt(("sysattr", s_, sp))
            want = st[variant] if variant in st else st[sp]
            o = call(lambda: sorted(dict(getattr(sysobj, sp)._units)))
            if o != ["ok", [want]]:
                acc.violation(["attribute", "sys.<system>.<name>", "does-not-resolve-the-system-variant", "variant" if variant in st else "plain"], {"system": s_, "name": sp}, want, o)
        o = call(lambda: sorted(dict(getattr(getattr(ureg.sys, s_), "meter")._units)))
        if o != ["ok", ["meter"]]:
            acc.violation(["attribute", "ureg.sys", "lister-does-not-resolve", ""], {"system": s_}, ["meter"], o)
    acc.sample({"clause": "listing", "unit": "inch", "group_or_system": "US"})


# ----------------------------------------------------------------------------- (E) histories

TLINES = """
ua = [A]
ub = [B]
u1 = 2 * ua
u2 = 3 * ua
u3 = 5 * ub
u4 = 7 * ua
@group G1
    g1a = 11 * ua
@end
@group G2 using G1
    g2a = 13 * ua
@end
@group G3
    g3b = 17 * ub
@end
@system S1 using G2
    u1 : ua
@end
@system S2 using G3
    u3 : ub
@end
@defaults
    group = G0
    system = S1
@end
""".strip().splitlines()

GEV = [
    ("system", "S1"), ("system", "S2"), ("system", None),
    ("q", "u2"), ("q", "u3"), ("q", "u2*u3"),
    ("qsys", "u2", "S2"), ("qsys", "u3", "S1"), ("qsys", "u2", None),
    ("add_units", "G1", "u4"), ("remove_units", "G1", "u4"), ("remove_units", "G1", "g1a"), ("add_units", "G3", "u2"),
    ("add_groups", "G3", "G1"), ("remove_groups", "G3", "G1"), ("remove_groups", "G2", "G1"),
    ("add_groups", "G1", "G2"), ("add_groups", "G1", "G1"), ("add_groups2", "G3", "G1", "G0"),
    ("add_groups", "G3", "G2"), ("add_groups", "G1", "G3"),
    # a system told to use a group the registry does not have (yet): it contributes nothing, the others still count;
    # and that group appearing later
    ("sys_add_groups", "S1", "GX"), ("define", "@group GX\n    gx1 = 29 * ua\n@end"),  # together with 'G2 using G1' these close a cycle of length 3
    ("members",), ("members_of", "G2"), ("members_of", "S1"),
    ("define", "@group G1\n    g1c = 19 * ua\n@end"),
]


class Hang(BaseException):
    pass


def _alarm(signum, frame):
    raise Hang()


class GSys:
    def __init__(self):
        regs.clear_process_caches()
        self.reg = regs.tiny(TLINES, non_int_type="Fraction")
        self.units = {"G1": {"g1a"}, "G2": {"g2a"}, "G3": {"g3b"}, "G0": {"ua", "ub", "u1", "u2", "u3", "u4"}}
        self.using = {"G1": set(), "G2": {"G1"}, "G3": set(), "G0": set()}
        self.sysg = {"S1": {"G2"}, "S2": {"G3"}}
        self.system = "S1"
        self.all_units = {"ua", "ub", "u1", "u2", "u3", "u4", "g1a", "g2a", "g3b"}

    def members(self, g, seen=None):
        seen = seen or set()
        if g in seen:
            return set()
        seen.add(g)
        if g == "root":
            out = set(self.all_units)
            return out
        if g not in self.units:
            return set()  # a name no group answers to (yet)
        out = set(self.units[g])
        for h in self.using[g]:
            out |= self.members(h, seen)
        return out

    def uses(self, g, target, seen=None):
        seen = seen or set()
        for h in self.using[g]:
            if h == target or (h not in seen and self.uses(h, target, seen | {h})):
                return True
        return False


# units of dimension [A] that a compatible-unit LISTING can show: gx1 is added with define() after construction and such
# units are missing from listings by a recorded mechanism (C13 finding), so it is left to the membership oracle only
DIMA = {"ua", "u1", "u2", "u4", "g1a", "g2a", "g1c"}


class GroupDriver(explore.Driver):
    def __init__(self):
        self._base_ref = {}

    def fresh(self):
        return GSys()

    def events(self):
        return list(GEV)

    def apply(self, s, ev):
        r = s.reg
        k = ev[0]
        signal.signal(signal.SIGVTALRM, _alarm)
        signal.setitimer(signal.ITIMER_VIRTUAL, 3)
        try:
            return self._apply(s, r, ev, k)
        except Hang:
            return ["hang"]
        finally:
            signal.setitimer(signal.ITIMER_VIRTUAL, 0)

    def _apply(self, s, r, ev, k):
        if k == "system":
            s.system = ev[1]

            def setsys():
                r.default_system = ev[1]

            return call(setsys)[:1]
        if k == "q":
            return call(lambda: (lambda q: [str(q.magnitude), sorted(dict(q._units))])(r.Quantity(1, ev[1]).to_base_units()))
        if k == "qsys":
            # a query that NAMES a system: answers for that system, and leaves the default-system answers alone
            return call(lambda: (lambda fu: [str(fu[0]), sorted(dict(fu[1]._units))])(r.get_base_units(ev[1], system=ev[2])))
        if k == "add_units":
            s.units[ev[1]].add(ev[2])
            return call(lambda: r.get_group(ev[1], False).add_units(ev[2]))[:1]
        if k == "remove_units":
            present = ev[2] in s.units[ev[1]]
            s.units[ev[1]].discard(ev[2])
            o = call(lambda: r.get_group(ev[1], False).remove_units(ev[2]))
            return [o[0], "present" if present else "absent"]
        if k == "add_groups":
            g, h = ev[1], ev[2]
            cyclic = g == h or s.uses(h, g)
            if not cyclic:
                s.using[g].add(h)
            o = call(lambda: r.get_group(g, False).add_groups(h))
            return [o[0] if o[0] == "ok" else o[1], "cyclic" if cyclic else "fine"]
        if k == "add_groups2":
            # several names in ONE call, as '@group X using A, B' does: every one of them has to learn who uses it
            g = ev[1]
            cyclic = any(h == g or s.uses(h, g) for h in ev[2:])
            if not cyclic:
                s.using[g] |= set(ev[2:])
            o = call(lambda: r.get_group(g, False).add_groups(*ev[2:]))
            return [o[0] if o[0] == "ok" else o[1], "cyclic" if cyclic else "fine"]
        if k == "remove_groups":
            g, h = ev[1], ev[2]
            present = h in s.using[g]
            s.using[g].discard(h)
            o = call(lambda: r.get_group(g, False).remove_groups(h))
            return [o[0], "present" if present else "absent"]
        if k == "sys_add_groups":
            s.sysg[ev[1]].add(ev[2])
            return call(lambda: r.get_system(ev[1], False).add_groups(ev[2]))[:1]
        if k == "members_of":
            # reads ONE parent only: the groups it uses stay unread
            return call(lambda: sorted(r.get_group(ev[1], False).members if ev[1].startswith("G") else r.get_system(ev[1], False).members))[:1]
        if k == "members":
            return call(lambda: [sorted(r.get_group(g, False).members) for g in ("G1", "G2", "G3")] + [sorted(r.get_system(x, False).members) for x in ("S1", "S2")])[:1]
        if k == "define" and "GX" in ev[1]:
            already = "GX" in s.units
            o = call(lambda: r.define(ev[1]))
            if o[0] == "ok" and not already:
                s.units["GX"] = {"gx1"}
                s.using["GX"] = set()
                s.all_units.add("gx1")
            return o[:1]
        if k == "define":
            already = "g1c" in s.all_units
            o = call(lambda: r.define(ev[1]))
            if o[0] == "ok" and not already:
                s.units["G1"].add("g1c")
                s.all_units.add("g1c")
            return o[:1]
        raise core.HarnessError(ev)

    def terminal(self, outs, s=None):
        return any(o == ["hang"] for o in outs) or getattr(s, "hung", False)

    def fp(self, s, hist):
        d = vars(s.reg)
        grp = {g: (sorted(o._unit_names), sorted(o._used_groups), sorted(o._used_by), o._computed_members) for g, o in d["_groups"].items()}
        sy = {n: (sorted(o._used_groups), o._computed_members) for n, o in d["_systems"].items()}
        return explore.fingerprint(grp, sy, d.get("_base_units_cache"), d.get("_default_system_name"), sorted(d["_units"]))

    def outcome_oracle(self, acc, s, hist, outs):
        """the last event's own answer: nothing hangs, cyclic attempts raise ValueError, a query that names a system
        answers like a fresh registry — checked on every transition, whether or not the state is new"""
        case = {"history": [list(e) for e in hist], "outcomes": outs}
        last = hist[-1]
        o = outs[-1]
        if o == ["hang"]:
            s.hung = True
            acc.violation(["group-edit", last[0], "does-not-terminate", ""], case, "termination", "no answer within 3 s")
            return
        if last[0] == "qsys":
            # system=None means "the default system": the one the history has set
            key = ("qsys",) + tuple(last[1:]) + ((s.system,) if last[2] is None else ())
            if key not in self._base_ref:
                f = regs.tiny(TLINES, non_int_type="Fraction")
                if last[2] is None:
                    f.default_system = s.system
                self._base_ref[key] = call(lambda: (lambda fu: [str(fu[0]), sorted(dict(fu[1]._units))])(f.get_base_units(last[1], system=last[2])))
            acc.ev()
            if o != self._base_ref[key]:
                acc.violation(["named-system", "get_base_units(system=)", "differs-from-fresh-registry", "after-" + (hist[-2][0] if len(hist) > 1 else "init")], case, self._base_ref[key], o)
        if last[0] in ("add_groups", "add_groups2") and o[1] == "cyclic" and o[0] != "ValueError":
            acc.violation(["group-edit", "add_groups", "cyclic-relationship-not-refused", "self" if last[1] == last[2] else "indirect"], case, "ValueError", o[0])

    def oracle(self, acc, s, hist, outs):
        r = s.reg
        case = {"history": [list(e) for e in hist], "outcomes": outs}
        last = hist[-1] if hist else ("init",)
        if getattr(s, "hung", False):
            return
        signal.signal(signal.SIGVTALRM, _alarm)
        signal.setitimer(signal.ITIMER_VIRTUAL, 5)
        try:
            self._oracle(acc, s, r, case, last)
        except Hang:
            s.hung = True
            acc.violation(["membership", "members", "does-not-terminate", "after-" + last[0]], case, "termination", "no answer within 5 s")
        finally:
            signal.setitimer(signal.ITIMER_VIRTUAL, 0)

    def _oracle(self, acc, s, r, case, last):
        for g in ("root", "G2", "G3", "G0", "G1"):  # users before the groups they use
            acc.ev()
            o = call(lambda: sorted(r.get_group(g, False).members))
            want = sorted(s.members(g))
            if o != ["ok", want]:
                acc.violation(["membership", "Group.members", "differs-from-transitive-closure", g], case, want, o)
        for sy in ("S1", "S2"):
            acc.ev()
            want = sorted(set().union(*[s.members(g) for g in s.sysg[sy]]))
            o = call(lambda: sorted(r.get_system(sy, False).members))
            if o != ["ok", want]:
                acc.violation(["membership", "System.members", "differs-from-union-of-its-groups", sy], case, want, o)
            o = call(lambda: sorted(next(iter(u._units)) for u in r.get_compatible_units("ua", sy)))
            want2 = sorted(set(want) & DIMA)
            if o != ["ok", want2]:
                acc.violation(["listing", "get_compatible_units(u, system)", "differs-from-members-of-same-dimension", sy], case, want2, o)
        acc.ev()
        o = call(lambda: sorted(next(iter(u._units)) for u in r.get_compatible_units("ua", "G2")))
        want = sorted(s.members("G2") & DIMA)
        if o != ["ok", want]:
            acc.violation(["listing", "get_compatible_units(u, group)", "differs-from-members-of-same-dimension", "G2"], case, want, o)
        # base units: a fresh registry with the same default system decides (group edits are irrelevant to them)
        key = s.system
        if key not in self._base_ref:
            f = regs.tiny(TLINES, non_int_type="Fraction")
            f.default_system = key
            self._base_ref[key] = {q: call(lambda: (lambda x: [str(x.magnitude), sorted(dict(x._units))])(f.Quantity(1, q).to_base_units())) for q in ("u2", "u3", "u2*u3", "u4/u3")}
        for q, want in self._base_ref[key].items():
            acc.ev()
            o = call(lambda: (lambda x: [str(x.magnitude), sorted(dict(x._units))])(r.Quantity(1, q).to_base_units()))
            if o != want:
                acc.violation(["default-system", "to_base_units", "differs-from-fresh-registry-with-that-default-system", "after-" + last[0]], dict(case, quantity=q, default_system=key), want, o)
        acc.sample({"history": case["history"], "default_system": s.system, "G2_members": sorted(s.members("G2"))}, limit=2)


# ----------------------------------------------------------------------------- dispatch


def shards(tier, seed):
    out = []
    for sname in SYSTEMS:
        for b in range(2):
            out.append(("units", sname, b, 2))
        out.append(("compounds", sname))
    out += [("switch",), ("members",), ("gensys",)]
    depth = 3 if tier == "quick" else 4
    out.append(("hist", 0, None))
    for e in GEV:
        out.append(("hist", depth, list(e)))
    return out


def run_shard(acc, shard, tier, seed):
    k = shard[0]
    if k == "units":
        run_units(acc, shard[1], shard[2], shard[3])
    elif k == "compounds":
        run_compounds(acc, shard[1])
    elif k == "switch":
        run_switch(acc)
    elif k == "members":
        run_members(acc)
    elif k == "gensys":
        run_gensys(acc)
    elif k == "hist":
        drv = GroupDriver()
        roots = [()] if shard[2] is None else [(tuple(shard[2]),)]
        explore.explore(drv, acc, shard[1], roots=roots, oracle_on="new" if tier == "quick" else "all")
        acc.dim("events", len(GEV))
    else:
        raise core.HarnessError(str(shard))


def replay(rec):
    site, case = rec["site"], rec["case"]
    acc = core.Acc(PROPERTY)
    M = model()
    if "history" in case:
        drv = GroupDriver()
        hist = tuple(tuple(e) for e in case["history"])
        s, outs = explore.run_history(drv, hist)
        if hist:
            drv.outcome_oracle(acc, s, hist, outs)  # the checks of the last event's own outcome
        drv.oracle(acc, s, hist, outs)
    elif site[0] in ("unit", "compound"):
        ureg = regs.default("Fraction", fresh=True)
        sname = case.get("system")
        ureg.default_system = sname
        if site[0] == "compound" or "units" in case:
            units = {k: (int(v) if "/" not in v else Fraction(v)) for k, v in case["units"].items()}
            check_base(acc, M, ureg, units, sname, site[0])
        else:
            for b in range(2):
                run_units(acc, sname, b, 2)
    elif site[0] == "switch":
        run_switch(acc)
    elif site[0] == "generated-system":
        run_gensys(acc)
    else:
        run_members(acc)
    sites = {tuple(v["site"]) for v in acc.violations}
    return tuple(site) in sites, {"sites_seen": sorted(sites)[:20]}


MANIFEST = {
    "category": "model_checking",
    "technique": "explicit-state BFS over default-system changes and group edits on the real registry with a set-based closure model in lock-step; bounded exhaustive enumeration of unit x system base-unit rewriting against R1/R6",
    "text": "Every multiplicative canonical unit x 8 system settings: get_base_units(system=), to_base_units and ito_base_units under default_system must use only the system's declared base units plus the root units "
    "it does not replace, preserve dimensionality and exact physical value (Fraction registry), be idempotent and leave the operand alone; all 2-factor compounds over 10 units; 7 generated systems covering every rule form (bare rule naming a power of a root unit with exponent 2, 3, -1; 'new : old' with a compound new unit; two rules at once) x 8 units and all their 2-factor compounds, by name and as default system; every ordered triple of "
    "default-system changes is effective on the next query even after queries that named the other systems; get_compatible_units(u, G) for every unit x every group and system equals members(G) of the same dimension; sys.<S>.<name> resolves the system variant. "
    "Histories: all sequences up to depth 3 (4) over 27 events (default-system settings, base-unit queries under the default and under a named system, add/remove units and groups including a self-cycle, a cycle of length 2 and one of length 3, membership queries, defining a "
    "unit into a group) on a generated 3-group / 2-system registry; in every state the members of all groups and systems, restricted listings and base-unit answers are compared with a reference closure model "
    "and a fresh registry; cyclic attempts must raise and change nothing; every step is run under a 3 s alarm so that a non-terminating closure is reported, not waited for.",
    "note": "Trusted: R1/R6 (system rule inversion is NOT re-derived: only allowed units, value preservation and idempotence are asserted, which pins the factor). Compounds with more than 2 factors, generated "
    "system rule sets beyond the two of the history registry, and histories beyond the depth bound are outside.",
    "ref": "DESIGN.md §4 C14",
}
MANIFEST["text"] += ' A system using a group that does not exist is reported, not silently emptied.'
