"""C13 — answers do not depend on query history: caches are transparent.

Model checking (E2): BFS over histories of queries and state changes on the real registry
(generated registry, and the bundled one at a smaller depth).  In every reached state every
probe of the read-only API is answered on its own replayed copy and must equal the answer of a
FRESH registry brought to the same declarative state (definitions in order, default system,
active context stack) in a process whose lru_caches were cleared.  A second registry (same unit
names, different factors, other numeric type) is touched by some events and must keep giving
its own fresh answers."""
from __future__ import annotations

import itertools

import copy
from fractions import Fraction

from mc import core, regs, explore

PROPERTY = "C13"
LEVEL = "model_checking"
RULE = (
    "BFS over all histories up to depth 3 (quick) / 4 (thorough) over 24 events on a generated registry: 10 query kinds (convert, parse_units, get_root_units, get_base_units with default and explicit system, "
    "get_compatible_units, get_dimensionality, format, to_compact, parse_expression, to_base_units) and 12 state changes (3 defines incl. one colliding with a prefixed reading, enable/disable of 2 redefining "
    "contexts, default_system = 2 systems / None, touching a second registry, deepcopy); 13-probe vector per state, each probe on its own replay; bundled registry at depth 2. non-trivial = distinct state fingerprint"
)
ASSUMPTIONS = [
    "declarative state = (definitions in order, default system, active context stack); the reference is a fresh registry on which exactly that is applied, definitions first",
    "process-wide lru_caches are cleared before each replay and before each fresh build, except that the second registry is built and touched inside the same replay",
    "fingerprint = _units layers, _cache, _caches, _context_units, _base_units_cache, _active_ctx, default system, groups/systems computed members",
]
SITE_GRAMMAR = "[clause, probe, failure-kind, cause-class]"

LINES = """
kilo- = 1e3 = k-
milli- = 1e-3 = m-
ua = [A]
ub = [B]
sec = [T] = s
inch = 2 * ua = in
foot = 12 * inch = ft
mile = 5280 * foot
rate = mile / sec
span = 2 * ua
dspan = 3 * span
@context R
    foot = 10 * inch
@end
@context RB
    [A] -> [B]: value * 11 * ub / ua
    inch = 3 * ua
@end
@context(n=2) P
    [A] -> [T]: value * 13 * n * sec / ua
@end
@group G1
    yard = 3 * foot
@end
@system fsys using G1
    foot : ua
@end
@system isys using G1
    inch : ua
@end
@defaults
    group = G0
    system = isys
@end
""".strip().splitlines()

OTHER_LINES = [ln.replace("inch = 2 * ua", "inch = 5 * ua").replace("foot = 12 * inch", "foot = 7 * inch") for ln in LINES]

EVENTS = [
    ("q", "conv"), ("q", "parse"), ("q", "root"), ("q", "base"), ("q", "base_fsys"), ("q", "compat"), ("q", "dim"), ("q", "fmt"), ("q", "compact"), ("q", "expr"), ("q", "tobase"),
    ("define", "foo = 3 * inch"), ("define", "ms = 5 * ua"), ("define", "league = 3 * mile = lg = kft"),  # its ALIAS kft is, until then, the prefixed reading kilo-foot
    ("define", "inch = 5 * ua = in"),  # an EXISTING unit defined again (allowed: on_redefinition='warn'): everything derived from it follows
    ("define", "span = 4 * sec"),  # ... and one defined again as a unit of ANOTHER dimension
    ("enable", "R"), ("enable", "RB"), ("disable",),
    ("system", "fsys"), ("system", "isys"), ("system", None),
    ("other",), ("deepcopy",),
    # a query made inside a with-block: declaratively neutral, but the cache / unit-table layers are switched twice
    ("within", "R", "conv"), ("within", "RB", "base"),
    # a parameterised context entered without and with its keyword (the second one possibly nested in the first)
    ("enable", "P"), ("within_kw", "P", 7),
]


REDEFINE = ("define", "inch = 5 * ua = in")
REDEFINE2 = ("define", "span = 4 * sec")


def fr(x):
    try:
        return str(Fraction(x))
    except Exception:  # noqa
        return repr(x)


def call(fn):
    try:
        return ["ok", fn()]
    except Exception as e:  # noqa
        return ["exc", type(e).__name__]


QUERIES = {
    "conv": lambda r: fr(r.convert(1, "foot", "ua")),
    "parse": lambda r: [sorted((k, fr(v)) for k, v in dict(r.parse_units("kilofoot / ms")._units).items()), sorted(dict(r.parse_units("kft")._units)), fr(r.convert(1, "kft", "ua"))],
    "root": lambda r: [fr(r.get_root_units("mile")[0]), sorted(dict(r.get_root_units("mile")[1]._units))],
    "base": lambda r: [fr(r.get_base_units("mile")[0]), sorted(dict(r.get_base_units("mile")[1]._units))],
    "base_fsys": lambda r: [fr(r.get_base_units("mile", system="fsys")[0]), sorted(dict(r.get_base_units("mile", system="fsys")[1]._units))],
    "compat": lambda r: sorted(next(iter(u._units)) for u in r.get_compatible_units("ua")),
    "compat_root": lambda r: sorted(next(iter(u._units)) for u in r.get_compatible_units("ua", "root")),
    "dim": lambda r: sorted((k, fr(v)) for k, v in dict(r.get_dimensionality("rate")).items()),
    "fmt": lambda r: format(r.Quantity(3, "kilofoot / sec"), "~P"),
    "compact": lambda r: (lambda q: [fr(q.magnitude), sorted(dict(q._units))])(r.Quantity(Fraction(30000), "foot").to_compact()),
    "expr": lambda r: (lambda q: [fr(q.magnitude), sorted(dict(q._units))])(r.parse_expression("2 kilofoot + 3 inch")),
    "tobase": lambda r: (lambda q: [fr(q.magnitude), sorted(dict(q._units))])(r.Quantity(1, "rate").to_base_units()),
    "foo": lambda r: fr(r.convert(1, "foo", "ua")),
    "ms": lambda r: sorted(dict(r.parse_units("ms")._units)),
    "league": lambda r: [fr(r.convert(1, "lg", "ua")), "league" in [next(iter(u._units)) for u in r.get_compatible_units("ua", "root")]],
    # a parameterised context used per call WITHOUT a keyword: its declared default applies, whatever was passed earlier
    "pconv": lambda r: fr(r.Quantity(1, "ua").to("sec", "P").magnitude),
    "span": lambda r: [sorted((k, fr(v)) for k, v in dict(r.get_dimensionality("dspan")).items()), call(lambda: fr(r.convert(1, "dspan", "sec"))), call(lambda: fr(r.convert(1, "dspan", "ua"))), r.Quantity(1, "dspan").is_compatible_with("sec")],
}
PROBES = ["conv", "parse", "root", "base", "base_fsys", "compat", "compat_root", "dim", "fmt", "compact", "expr", "tobase", "foo", "ms", "league", "pconv", "span"]


class Sys:
    def __init__(self, lines=LINES):
        regs.clear_process_caches()
        self.reg = regs.tiny(lines, non_int_type="Fraction")
        self.other = None
        self.other_touched = False
        # declarative state
        self.defined = []
        self.system = "isys"
        self.stack = []
        self.defined_in_ctx = False

    def get_other(self):
        if self.other is None:
            self.other = regs.tiny(OTHER_LINES, non_int_type="float")
        return self.other


def other_answers(o):
    return {k: call(lambda: QUERIES[k](o)) for k in ("conv", "parse", "root", "base", "fmt", "expr")}


class CacheDriver(explore.Driver):
    def __init__(self, sequential=False):
        self._ref = {}
        self._other_ref = None
        # sequential=True (quick): the probe vector is asked in a fixed order on ONE replayed copy and compared with
        # the same sequence on one fresh registry; False (thorough): every probe on its own replayed copy
        self.sequential = sequential

    def fresh(self):
        return Sys()

    def events(self):
        return list(EVENTS)

    def enabled(self, hist):
        # defining an EXISTING unit again while a context is active writes into that context's overlay — the recorded
        # "unit defined while a redefining context was active" mechanism; the redefinition event is explored on an
        # empty context stack only, where nothing of that kind is involved
        depth = 0
        for e in hist:
            if e[0] == "enable":
                depth += 1
            elif e[0] == "disable" and depth:
                depth -= 1
        return [e for e in EVENTS if not (e in (REDEFINE, REDEFINE2) and depth)]

    def apply(self, s, ev):
        r = s.reg
        k = ev[0]
        if k == "q":
            return call(lambda: QUERIES[ev[1]](r))
        if k == "define":
            if any(True for _ in s.stack):
                s.defined_in_ctx = True
            s.defined.append(ev[1])
            return call(lambda: r.define(ev[1]))[:1]
        if k == "enable":
            s.stack.append(ev[1])
            return call(lambda: r.enable_contexts(ev[1]))[:1]
        if k == "disable":
            if s.stack:
                s.stack.pop()
            return call(lambda: r.disable_contexts(1))[:1]
        if k == "system":
            s.system = ev[1]

            def setsys():
                r.default_system = ev[1]

            return call(setsys)[:1]
        if k == "other":
            o = s.get_other()
            s.other_touched = True
            return [k2 + ":" + str(v[0]) for k2, v in other_answers(o).items()]
        if k == "deepcopy":
            s.reg = copy.deepcopy(r)
            return ["ok"]
        if k == "within":
            def blk():
                with r.context(ev[1]):
                    return QUERIES[ev[2]](r)
            return call(blk)
        if k == "within_kw":
            def blk2():
                with r.context(ev[1], n=ev[2]):
                    return fr(r.Quantity(1, "ua").to("sec").magnitude)
            return call(blk2)
        raise core.HarnessError(ev)

    def fp(self, s, hist):
        d = vars(s.reg)
        keys = ("_units", "_cache", "_caches", "_context_units", "_base_units_cache", "_active_ctx", "_default_system_name")
        grp = {g: (sorted(o._unit_names), sorted(o._used_groups), o._computed_members) for g, o in d.get("_groups", {}).items()}
        return explore.fingerprint({k: d[k] for k in keys if k in d}, grp, extra=(s.other_touched,))

    def reference(self, defined, system, stack):
        key = (tuple(defined), system, tuple(stack))
        if key not in self._ref:
            out = {}
            # "a freshly BUILT registry with the same definitions": the extra unit lines go into the text handed
            # to the constructor (before the first block), not through define()
            cut = next(i for i, ln in enumerate(LINES) if ln.startswith("@"))
            built = LINES[:cut] + list(defined) + LINES[cut:]
            f = None
            for p in PROBES:
                if f is None or not self.sequential:
                    f = Sys(built)
                    f.reg.default_system = system
                    for c in stack:
                        f.reg.enable_contexts(c)
                out[p] = call(lambda: QUERIES[p](f.reg))
            self._ref[key] = out
        return self._ref[key]

    def oracle(self, acc, s, hist, outs):
        want = self.reference(s.defined, s.system, s.stack)
        case0 = {"history": [list(e) for e in hist], "declarative_state": {"defined": s.defined, "default_system": s.system, "contexts": s.stack}}
        s2 = None
        for p in PROBES:
            if s2 is None or not self.sequential:
                # each probe on its own replayed copy (probing fills caches) unless sequential
                s2, _ = explore.run_history(self, hist)
            o = call(lambda: QUERIES[p](s2.reg))
            acc.ev()
            if o != want[p]:
                acc.violation(self.site_for(p, s, hist, o, want[p]), dict(case0, probe=p), want[p], o)
        if s.other_touched:
            if self._other_ref is None:
                regs.clear_process_caches()
                self._other_ref = other_answers(regs.tiny(OTHER_LINES, non_int_type="float"))
            got = other_answers(s.other)
            if got != self._other_ref:
                bad = [k for k in got if got[k] != self._other_ref[k]]
                acc.violation(["isolation", bad[0], "second-registry-answers-changed", ""], case0, self._other_ref[bad[0]], got[bad[0]])
        acc.sample({"history": [list(e) for e in hist], "declarative_state": case0["declarative_state"], "probes": PROBES[:5]}, limit=2)

    def site_for(self, p, s, hist, o, want):
        kinds = [e[0] for e in hist]
        in_ctx_define = s.defined_in_ctx
        # cause classes that separate the known mechanisms from anything new
        if p in ("foo", "ms", "league", "compat", "compat_root", "parse", "expr", "fmt") and in_ctx_define:
            # one mechanism (define() writes into the active contexts' unit overlay), many probes: one site
            return ["transparency", "probes-touching-the-new-unit", "differs-from-fresh-registry", "unit-defined-while-a-redefining-context-was-active"]
        if p in ("compat", "compat_root", "league") and "define" in kinds and want != o and isinstance(o, list) and o[0] == "ok":
            return ["transparency", p, "differs-from-fresh-registry", "unit-defined-after-construction-missing-from-compatible-unit-listing"]
        if p in ("base", "tobase") and ("enable" in kinds or "within" in kinds):
            return ["transparency", p, "differs-from-fresh-registry", "base-units-memoised-under-another-context-combination"]
        return ["transparency", p, "differs-from-fresh-registry", "after-" + (hist[-1][0] if hist else "init")]


# ----------------------------------------------------------------------------- bundled registry, shallow


class BundledDriver(explore.Driver):
    """same idea on the bundled registry (80 ms per copy): depth 2, probes in sequence on the replayed registry"""

    EV = [("q", "convert"), ("q", "parse"), ("q", "base"), ("q", "base_cgs"), ("q", "compat"), ("q", "fmt"), ("define", "foo = 3 * inch"), ("define", "smoot = 1.7018 * meter = smt"),
          ("system", "cgs"), ("system", "mks"), ("system", None), ("enable", "textile"), ("disable",), ("deepcopy",)]
    Q = {
        "convert": lambda r: repr(r.convert(1, "inch", "cm")),
        "parse": lambda r: sorted(dict(r.parse_units("kilometer / ms")._units)),
        "base": lambda r: [repr(r.get_base_units("inch")[0]), sorted(dict(r.get_base_units("inch")[1]._units))],
        "base_cgs": lambda r: [repr(r.get_base_units("inch", system="cgs")[0]), sorted(dict(r.get_base_units("inch", system="cgs")[1]._units))],
        "compat": lambda r: len(r.get_compatible_units("meter")),
        "fmt": lambda r: format(r.Quantity(3, "km/s"), "~P"),
        "tobase": lambda r: (lambda q: [repr(q.magnitude), sorted(dict(q._units))])(r.Quantity(1, "mile/hour").to_base_units()),
        "foo": lambda r: repr(r.convert(1, "foo", "meter")),
    }
    PR = ["convert", "parse", "base", "base_cgs", "compat", "fmt", "tobase", "foo"]

    def __init__(self):
        self.pristine = regs.default("float", fresh=True)
        self._ref = {}

    def fresh(self):
        regs.clear_process_caches()
        s = Sys.__new__(Sys)
        s.reg = copy.deepcopy(self.pristine)
        s.other, s.other_touched, s.defined, s.system, s.stack, s.defined_in_ctx = None, False, [], "mks", [], False
        return s

    def events(self):
        return list(self.EV)

    def apply(self, s, ev):
        r = s.reg
        k = ev[0]
        if k == "q":
            return call(lambda: self.Q[ev[1]](r))
        if k == "define":
            s.defined.append(ev[1])
            return call(lambda: r.define(ev[1]))[:1]
        if k == "enable":
            s.stack.append(ev[1])
            return call(lambda: r.enable_contexts(ev[1]))[:1]
        if k == "disable":
            if s.stack:
                s.stack.pop()
            return call(lambda: r.disable_contexts(1))[:1]
        if k == "system":
            s.system = ev[1]

            def setsys():
                r.default_system = ev[1]

            return call(setsys)[:1]
        if k == "deepcopy":
            s.reg = copy.deepcopy(r)
            return ["ok"]
        raise core.HarnessError(ev)

    def fp(self, s, hist):
        d = vars(s.reg)
        return explore.fingerprint({k: d[k] for k in ("_cache", "_base_units_cache", "_active_ctx", "_default_system_name") if k in d}, sorted(d["_units"].maps[-1].keys()) if hasattr(d["_units"], "maps") else sorted(d["_units"]))

    def oracle(self, acc, s, hist, outs):
        key = (tuple(s.defined), s.system, tuple(s.stack))
        if key not in self._ref:
            f = self.fresh()
            for dl in s.defined:
                f.reg.define(dl)  # the bundled registry cannot be rebuilt from text + a line cheaply: define() on a pristine copy
            f.reg.default_system = s.system
            for c in s.stack:
                f.reg.enable_contexts(c)
            self._ref[key] = {p: call(lambda: self.Q[p](f.reg)) for p in self.PR}
        want = self._ref[key]
        for p in self.PR:
            acc.ev()
            o = call(lambda: self.Q[p](s.reg))
            if o != want[p]:
                kinds = [e[0] for e in hist]
                cause = "unit-defined-after-construction-missing-from-compatible-unit-listing" if p == "compat" and "define" in kinds else "after-" + (hist[-1][0] if hist else "init")
                acc.violation(["transparency(bundled)", p, "differs-from-fresh-registry", cause], {"history": [list(e) for e in hist], "probe": p, "declarative_state": {"defined": s.defined, "default_system": s.system, "contexts": s.stack}}, want[p], o)


# ----------------------------------------------------------------------------- group membership memo

GLINES = """
ua = [A]
ub = [B]
inch = 2 * ua
foot = 12 * inch
ell = 45 * inch
x1 = 7 * inch
x2 = 9 * inch
bb = 4 * ub
@group G1
    yard = 3 * foot
@end
@group G2 using G1
    fathom = 6 * foot
@end
@group G3 using G2
    chain = 66 * foot
@end
@system s3 using G3
    foot : ua
@end
""".strip().splitlines()
G_OWN = {"G1": {"yard"}, "G2": {"fathom"}, "G3": {"chain"}}
G_USES = {"G1": [], "G2": ["G1"], "G3": ["G2"]}
G_A_UNITS = {"ua", "inch", "foot", "yard", "ell", "fathom", "chain", "x1", "x2"}


class GroupMemoDriver(explore.Driver):
    """Group.members / System.members are memoised and invalidated upwards when a group is edited: every history of
    membership QUERIES (on a group, on a group using it, on the system on top, through get_compatible_units) and EDITS
    (add_units / remove_units on the lowest and the middle group) — answers equal a plain set model of the declarations"""

    EV = ([("q", "mem", g) for g in ("G1", "G2", "G3")] + [("q", "compat", "G2"), ("q", "compat", "G3"), ("q", "sys"), ("q", "compat", "s3")]
          + [("add", g, x) for g in ("G1", "G2") for x in ("x1", "x2", "bb")] + [("rm", "G1", "x1"), ("rm", "G1", "yard"), ("rm", "G2", "fathom")])

    def fresh(self):
        regs.clear_process_caches()
        s = Sys.__new__(Sys)
        s.reg = regs.tiny(GLINES, non_int_type="Fraction")
        s.own = {g: set(v) for g, v in G_OWN.items()}
        return s

    def events(self):
        return list(self.EV)

    @staticmethod
    def query(r, ev):
        if ev[1] == "mem":
            return sorted(r.get_group(ev[2]).members)
        if ev[1] == "sys":
            return sorted(r.get_system("s3").members)
        return sorted(next(iter(u._units)) for u in r.get_compatible_units("ua", ev[2]))

    def apply(self, s, ev):
        r = s.reg
        if ev[0] == "q":
            return call(lambda: self.query(r, ev))
        if ev[0] == "add":
            s.own[ev[1]].add(ev[2])
            return call(lambda: r.get_group(ev[1]).add_units(ev[2]))[:1]
        if ev[0] == "rm":
            s.own[ev[1]].discard(ev[2])
            return call(lambda: r.get_group(ev[1]).remove_units(ev[2]))[:1]
        raise core.HarnessError(ev)

    def fp(self, s, hist):
        d = vars(s.reg)
        return explore.fingerprint({g: (sorted(o._unit_names), sorted(o._used_groups), sorted(o._used_by), o._computed_members) for g, o in d["_groups"].items()},
                                   {n: o._computed_members for n, o in d["_systems"].items()} if all(hasattr(o, "_computed_members") for o in d["_systems"].values()) else sorted(d["_systems"]))

    @staticmethod
    def model(own, g):
        out = set(own[g])
        for h in G_USES[g]:
            out |= GroupMemoDriver.model(own, h)
        return out

    def check(self, acc, s, hist, ev, o):
        if ev[1] == "mem":
            want = sorted(self.model(s.own, ev[2]))
        elif ev[1] == "sys":
            want = sorted(self.model(s.own, "G3"))
        else:
            want = sorted(self.model(s.own, "G3" if ev[2] == "s3" else ev[2]) & G_A_UNITS)
        acc.ev()
        if o != ["ok", want]:
            edits = [e for e in hist if e[0] != "q"]
            acc.violation(["group-memo", ":".join(ev[1:]), "membership-differs-from-the-declarations", "after-edit-following-a-query" if edits and any(e[0] == "q" for e in hist[:len(hist) - 1]) else "plain"],
                          {"history": [list(e) for e in hist], "probe": list(ev), "declared": {g: sorted(v) for g, v in s.own.items()}}, want, o)

    def outcome_oracle(self, acc, s, hist, outs):
        if hist and hist[-1][0] == "q":
            self.check(acc, s, hist, hist[-1], outs[-1])

    def oracle(self, acc, s, hist, outs):
        for ev in self.EV:
            if ev[0] == "q":
                s2, _ = explore.run_history(self, hist)
                self.check(acc, s2, hist + (ev,), ev, call(lambda: self.query(s2.reg, ev)))


# ----------------------------------------------------------------------------- per-object memos

OBJ_UNITS = ["meter", "kilometer / hour", "nanometer", "newton * meter", "percent", "degC", "liter"]


def _ito_within(ureg, q):
    with ureg.context("sp"):
        q.ito("terahertz")
    return q


def _inplace_ops(ureg):
    Q = ureg.Quantity
    return [
        ("*= quantity", lambda q: q.__imul__(Q(2.0, "second"))),
        ("/= quantity", lambda q: q.__itruediv__(Q(2.0, "second"))),
        ("//= same unit", lambda q: q.__ifloordiv__(Q(2.0, q._units))),
        ("**= 2", lambda q: q.__ipow__(2)),
        ("*= number", lambda q: q.__imul__(3.0)),
        ("ito(other unit)", lambda q: (q.ito("inch"), q)[1] if dict(q._units) in ({"meter": 1}, {"nanometer": 1}) else q),
        ("ito(other dimension, context)", lambda q: (q.ito("terahertz", "sp"), q)[1] if dict(q._units) == {"nanometer": 1} else q),
        ("ito(other dimension, active context)", lambda q: _ito_within(ureg, q) if dict(q._units) == {"nanometer": 1} else q),
        ("ito_root_units", lambda q: (q.ito_root_units(), q)[1]),
        ("ito_base_units", lambda q: (q.ito_base_units(), q)[1]),
        ("ito_reduced_units", lambda q: (q.ito_reduced_units(), q)[1]),
    ]


def run_object_memo(acc):
    """a quantity memoises its dimensionality; every operation that replaces its unit container in place has to leave
    the derived attributes (dimensionality, dimensionless, unitless, check, is_compatible_with) describing the NEW units.
    Every (unit x magnitude kind x in-place operation x chained second operation), with the memo warmed first."""
    import numpy as np

    ureg = regs.default("float", fresh=True)
    ops = _inplace_ops(ureg)

    def attrs(q):
        return [str(q.dimensionality), q.dimensionless, q.unitless]

    for ustr in OBJ_UNITS:
        for mk, mag in (("scalar", lambda: 500.0), ("ndarray", lambda: np.array([500.0, 2.0]))):
            for (n1, op1), (n2, op2), read_between in itertools.product(ops, ops + [("-", None)], (True, False)):
                if op2 is None and not read_between:
                    continue
                acc.ev()
                acc.nt(("objmemo", ustr, mk, n1, n2, read_between))
                q = ureg.Quantity(mag(), ustr)
                attrs(q)  # warm the memo
                case = {"units": ustr, "magnitude": mk, "operations": [n1, n2], "attributes_read_between_the_operations": read_between}
                o = call(lambda: op1(q))
                if o[0] != "ok" or not hasattr(o[1], "_units"):
                    continue
                r = o[1]
                if op2 is not None:
                    if read_between:
                        attrs(r)
                    o = call(lambda: op2(r))
                    if o[0] != "ok" or not hasattr(o[1], "_units"):
                        continue
                    r = o[1]
                fresh = ureg.Quantity(1.0, r._units)
                got, want = attrs(r), attrs(fresh)
                extra = [r.check(fresh.dimensionality), r.is_compatible_with(fresh)]
                if got != want or extra != [True, True]:
                    acc.violation(["object-memo", "dimensionality" if got[0] != want[0] else "predicates", "stale-after-in-place-operation", n2 if op2 is not None else n1], case, want + [True, True], got + extra)
    acc.sample({"clause": "object-memo", "units": "nanometer", "operations": ["ito(other dimension, context)", "*= quantity"]})


def shards(tier, seed):
    out = [("T", 0, None)]
    for e in EVENTS:
        if tier == "quick":
            out.append(("T", 3, list(e)))
        else:
            # thorough: depth 3 with every probe on its own replayed copy on EVERY transition, and depth 4 with the probe
            # vector asked in sequence on every NEW state (depth 4 with per-probe replays on every transition is 175 k
            # transitions x 17 replays: 50-90 minutes on 16 cores — it was run while the check was built, see DESIGN §7)
            out.append(("T", 3, list(e), "all-per-probe"))
            out.append(("T", 4, list(e), "new-sequential"))
    dD = 2 if tier == "quick" else 3
    out.append(("D", 0, None))
    for e in BundledDriver.EV:
        out.append(("D", dD, list(e)))
    out.append(("objmemo", 0, None))
    out.append(("G", 0, None))
    for e in GroupMemoDriver.EV:
        out.append(("G", 4 if tier == "quick" else 5, list(e)))
    return out


def run_shard(acc, shard, tier, seed):
    which, depth, first = shard[:3]
    mode = shard[3] if len(shard) > 3 else ("new-sequential" if tier == "quick" else "all-per-probe")
    if which == "objmemo":
        return run_object_memo(acc)
    drv = CacheDriver(sequential=(mode == "new-sequential")) if which == "T" else (GroupMemoDriver() if which == "G" else BundledDriver())
    roots = [()] if first is None else [(tuple(first),)]
    explore.explore(drv, acc, depth, roots=roots, oracle_on="new" if (mode == "new-sequential" and which == "T") or tier == "quick" else "all")
    acc.dim(f"events[{which}]", len(drv.events()))


def replay(rec):
    site, case = rec["site"], rec["case"]
    acc = core.Acc(PROPERTY)
    if site[0] == "object-memo":
        run_object_memo(acc)
        return tuple(site) in {tuple(v["site"]) for v in acc.violations}, {}
    if site[0] == "group-memo":
        drv = GroupMemoDriver()
        hist = tuple(tuple(e) for e in case["history"])
        s, outs = explore.run_history(drv, hist)
        drv.outcome_oracle(acc, s, hist, outs)
        drv.oracle(acc, s, hist, outs)
        return tuple(site) in {tuple(v["site"]) for v in acc.violations}, {}
    hist = tuple(tuple(e) for e in case["history"])
    # the probe vector is asked in sequence on one copy (quick, thorough depth 4) or probe by probe on separate copies
    # (thorough depth 3): the record does not say which, so both ways are tried
    for drv in ([BundledDriver()] if "bundled" in site[0] else [CacheDriver(sequential=True), CacheDriver(sequential=False)]):
        s, outs = explore.run_history(drv, hist)
        drv.oracle(acc, s, hist, outs)
        if tuple(site) in {tuple(v["site"]) for v in acc.violations}:
            break
    sites = {tuple(v["site"]) for v in acc.violations}
    return tuple(site) in sites, {"sites_seen": sorted(sites)[:20]}


MANIFEST = {
    "category": "model_checking",
    "technique": "explicit-state BFS over query/state-change histories on the real registry with fingerprint dedup; differential oracle against a fresh registry brought to the same declarative state; per-probe replays",
    "text": "All histories up to depth 3 (thorough: depth 3 with per-probe replays on every transition plus depth 4 with the probe vector on every new state) over 29 events (11 query kinds that fill RegistryCache, the per-context overlays, the base-unit cache, the parse cache and the process-wide lru_caches; 4 "
    "defines including one that collides with a prefixed reading and one that defines an EXISTING unit again (on an empty context stack); a parameterised context entered without and with its keyword; enabling/disabling two unit-redefining contexts; default_system = fsys / isys / None; touching a second registry that defines the same names "
    "differently with another numeric type; deepcopy) are replayed on a generated registry. In every distinct state each of 15 probes is answered on its own replayed copy and must equal the answer of a "
    "fresh registry given the same definitions, default system and context stack; the second registry must keep its own fresh answers. The bundled registry is explored at depth 2 (3) over 14 events with 8 probes. Per-object memo: 7 units x scalar/ndarray x every ordered pair of 11 in-place operations, with and without reading the attributes between the two, (*=, /=, //=, **=, ito to "
    "another unit, ito across dimensions through a context, ito_root/base/reduced_units) with the memo warmed before each: dimensionality, dimensionless, unitless, check and is_compatible_with must describe the new units.",
    "note": "Trusted: the definition of 'declarative state'; the fingerprint (quick runs the probe vector once per distinct fingerprint; thorough on every transition). Histories beyond the depth bound and other "
    "query kinds are not explored.",
    "ref": "DESIGN.md §4 C13",
}
MANIFEST["text"] += ' Group membership memo: BFS to depth 4 (5 thorough) over 16 events (membership queries on a group, on the groups using it, on the system on top and through get_compatible_units; add_units / remove_units on the lowest and middle group) against a plain set model, every query answer checked on every transition.'
MANIFEST["text"] += ' A unit redefined with another dimensionality is among the events, with a probe on a unit defined from it.'
MANIFEST["text"] += ' One defined unit claims as an ALIAS a spelling that until then reads as prefix + unit; the parse query asks for that spelling on both sides of the definition.'
