"""C01 — conversion succeeds exactly between units of identical dimensionality.

E1 bounded exhaustive enumeration; oracle = R1 (independent definition reader) base-dimension
vectors.  Sub-spaces: (a) all ordered pairs of multiplicative canonical units of the bundled
registry; (b) every defined spelling, alone and prefixed/pluralised; (c) all small compound
containers over a 7-unit alphabet with integer and rational exponents (pairs; triples of a
sub-alphabet; closure under * / **); (d) dimension specifications (every declared dimension x
exponent, products of pairs) through get_dimensionality / Quantity.check / ureg.check;
(e) small generated registries with derived-dimension DAGs."""
from __future__ import annotations

import itertools
from fractions import Fraction

from mc import core, regs
from mc.ref import defs

PROPERTY = "C01"
LEVEL = "exploration"
RULE = (
    "every ordered pair of multiplicative canonical units (R1 decides compatibility); every defined spelling alone and as prefix+spelling+s for 3 prefixes; "
    "every ordered pair of 1-2 entry containers over 7 units x exponent alphabet, triples of a 40-container sub-alphabet; every declared dimension x exponent alphabet "
    "and pair products as dimension specs; generated registries. non-trivial = distinct (config, clause, operands) key whose operands are not identical"
)
ASSUMPTIONS = [
    "R1 (mc/ref/defs.py) reads the same definition files independently; its dimension vectors are the reference",
    "strings with several non-equivalent prefix readings are left to C08",
    "PYTHONHASHSEED=0",
]
SITE_GRAMMAR = "[clause, api, failure-kind(, config)]"

CONFIGS = {
    "float": dict(non_int_type="float"),
    "Fraction": dict(non_int_type="Fraction"),
    "Decimal": dict(non_int_type="Decimal"),
    "casei": dict(non_int_type="float", case_sensitive=False),
    "autoreduce": dict(non_int_type="float", auto_reduce_dimensions=True),
    # exact exponents: the merge of proportional units divides exponents, which only stays exact in rational arithmetic
    # (the float/Decimal rounding of that division is the recorded C15 finding, not re-reported here)
    "autoreduceF": dict(non_int_type="Fraction", auto_reduce_dimensions=True),
}


def get_reg(cfg):
    kw = dict(CONFIGS[cfg])
    nit = kw.pop("non_int_type")
    return regs.default(nit, **kw)


def model():
    return defs.default_model(core.REPO)


def mult_units(M):
    return [n for n in M.order if M.units[n].is_multiplicative]


def shards(tier, seed):
    M = model()
    n = len(mult_units(M))
    cfgs = ["float"] if tier == "quick" else [c for c in CONFIGS if c != "autoreduceF"]
    out = []
    nblocks = 16
    for cfg in cfgs:
        for b in range(nblocks):
            out.append(("pairs", cfg, b, nblocks))
        out.append(("spellings", cfg, 0, 1))
        for b in range(8):
            out.append(("containers", cfg, b, 8))
        out.append(("triples", cfg))
        out.append(("dimspecs", cfg))
        out.append(("warm", cfg, "containers"))
        out.append(("objhist", cfg))
        out.append(("checkbind", cfg))
        out.append(("unitclosure", cfg))
        if cfg != "autoreduce":
            out.append(("qclosure", cfg))
        if tier != "quick":
            out.append(("warm", cfg, "units"))
    out.append(("qclosure", "autoreduceF"))
    out.append(("generated",))
    return out


def dimkey(d):
    return tuple(sorted((k, str(v)) for k, v in d.items()))


def outcome_of(fn):
    from pint.errors import DimensionalityError

    try:
        r = fn()
        return ("ok", r)
    except DimensionalityError:
        return ("dimerr", None)
    except Exception as e:  # noqa
        return ("other:" + type(e).__name__, str(e)[:200])


def is_number(x):
    from decimal import Decimal
    import numbers

    return isinstance(x, (numbers.Number, Decimal)) and not isinstance(x, bool)


# ----------------------------------------------------------------------------- (a) pairs


def check_pair(acc, ureg, cfg, a, b, want, clause="unit-pair", apis=None):
    """a, b: unit strings or containers. want: bool (compatible)."""
    Q = ureg.Quantity
    case = {"cfg": cfg, "a": a if isinstance(a, str) else {k: str(v) for k, v in dict(a).items()}, "b": b if isinstance(b, str) else {k: str(v) for k, v in dict(b).items()}}
    obs = {}
    qa = Q(1, a)
    obs["convert"] = outcome_of(lambda: ureg.convert(1, a, b))
    obs["convert#2"] = outcome_of(lambda: ureg.convert(1, a, b))
    obs["to"] = outcome_of(lambda: qa.to(b).magnitude)
    obs["m_as"] = outcome_of(lambda: qa.m_as(b))

    def _ito():
        q = Q(1, a)
        q.ito(b)
        return q.magnitude

    obs["ito"] = outcome_of(_ito)
    for api, o in obs.items():
        acc.ev()
        if want:
            if o[0] != "ok" or not is_number(o[1]):
                acc.violation([clause, api, "refuses-or-fails-on-compatible-units", cfg], case, "a number", o)
        else:
            if o[0] != "dimerr":
                acc.violation([clause, api, "no-DimensionalityError-on-incompatible-units", cfg], case, "DimensionalityError", o)
    preds = {
        "Quantity.is_compatible_with(unit-like)": lambda: qa.is_compatible_with(b),
        "Quantity.is_compatible_with(Quantity)": lambda: qa.is_compatible_with(Q(2, b)),
        "Unit.is_compatible_with(Unit)": lambda: ureg.Unit(a).is_compatible_with(ureg.Unit(b)),
        "ureg.is_compatible_with": lambda: ureg.is_compatible_with(Q(1, a), Q(1, b)),
        "Quantity.dimensionality==": lambda: Q(3, a).dimensionality == Q(1, b).dimensionality,
        "ureg.get_dimensionality==": lambda: ureg.get_dimensionality(a) == ureg.get_dimensionality(b),
    }
    if isinstance(a, str) and isinstance(b, str):
        preds["ureg.is_compatible_with(str,str)"] = lambda: ureg.is_compatible_with(a, b)
        preds["Unit.is_compatible_with(str)"] = lambda: ureg.Unit(a).is_compatible_with(b)
    for api, fn in preds.items():
        acc.ev()
        o = outcome_of(fn)
        if o != ("ok", want):
            acc.violation([clause, api, "predicate-disagrees-with-dimension-vectors", cfg], case, want, o)
    acc.outcome("compatible" if want else "incompatible")


def run_pairs(acc, cfg, block, nblocks):
    M = model()
    ureg = get_reg(cfg)
    units = mult_units(M)
    acc.dim("multiplicative canonical units", len(units))
    dims = {u: dimkey(M.dim(u)) for u in units}
    for i, a in enumerate(units):
        if i % nblocks != block:
            continue
        for b in units:
            want = dims[a] == dims[b]
            check_pair_fast(acc, ureg, cfg, a, b, want)
            if a != b:
                acc.nt(("pair", cfg, a, b))
    acc.sample({"clause": "unit-pair", "cfg": cfg, "a": units[block], "b": units[-1 - block], "compatible": dims[units[block]] == dims[units[-1 - block]], "apis": ["convert x2", "to", "is_compatible_with x3", "dimensionality"]})


def check_pair_fast(acc, ureg, cfg, a, b, want):
    """the 6 cheapest observations for the 150k-pair sweep; the full set is used elsewhere"""
    from pint.errors import DimensionalityError

    Q = ureg.Quantity
    case = {"cfg": cfg, "a": a, "b": b}
    qa = Q(1, a)
    for api, fn in (
        ("convert", lambda: ureg.convert(1, a, b)),
        ("convert#2", lambda: ureg.convert(1, a, b)),
        ("to", lambda: qa.to(b).magnitude),
    ):
        acc.ev()
        try:
            r = fn()
            o = ("ok", r)
        except DimensionalityError:
            o = ("dimerr", None)
        except Exception as e:  # noqa
            o = ("other:" + type(e).__name__, str(e)[:200])
        if want:
            if o[0] != "ok" or not is_number(o[1]):
                acc.violation(["unit-pair", api, "refuses-or-fails-on-compatible-units", cfg], case, "a number", o)
        elif o[0] != "dimerr":
            acc.violation(["unit-pair", api, "no-DimensionalityError-on-incompatible-units", cfg], case, "DimensionalityError", o)
    for api, fn in (
        ("Quantity.is_compatible_with(unit-like)", lambda: qa.is_compatible_with(b)),
        ("Unit.is_compatible_with(Unit)", lambda: ureg.Unit(a).is_compatible_with(ureg.Unit(b))),
        ("Quantity.dimensionality==", lambda: qa.dimensionality == Q(1, b).dimensionality),
    ):
        acc.ev()
        o = outcome_of(fn)
        if o != ("ok", want):
            acc.violation(["unit-pair", api, "predicate-disagrees-with-dimension-vectors", cfg], case, want, o)
    acc.outcome("compatible" if want else "incompatible")


# ----------------------------------------------------------------------------- (b) spellings

PREFIXES_B = ("kilo", "m", "µ")


def run_spellings(acc, cfg):
    M = model()
    ureg = get_reg(cfg)
    st = M.spelling_table()
    # one representative (first defined) canonical multiplicative unit per dimension class
    reps = {}
    for u in mult_units(M):
        reps.setdefault(dimkey(M.dim(u)), u)
    repkeys = list(reps)
    acc.dim("defined spellings", len(st))
    acc.dim("dimension classes", len(reps))
    strings = []
    for s, canon in st.items():
        if not M.units[canon].is_multiplicative:
            continue
        strings.append(s)
        if not s.isidentifier():
            continue  # non-identifier spellings (%, °C, ‰ ...) only exist as exact spellings
        for p in PREFIXES_B:
            strings.append(p + s)
            strings.append(p + s + "s")
        if len(s) > 1:
            strings.append(s + "s")
    skipped = 0
    for s in strings:
        rd = M.readings(s, case_sensitive=(cfg != "casei"))
        if s in st:
            rd = [("", st[s])]
        if not rd:
            skipped += 1
            continue
        ds = {dimkey(M.dim(p + u)) for p, u in rd}
        if len(ds) != 1 or any(not M.units[u].is_multiplicative for p, u in rd):
            skipped += 1  # ambiguous between dimensions: C08's domain
            continue
        dk = ds.pop()
        acc.nt(("spelling", cfg, s))
        case = {"cfg": cfg, "string": s}
        acc.ev()
        getd = (lambda: ureg.get_dimensionality(s)) if s.isidentifier() else (lambda: ureg.parse_units(s).dimensionality)
        o = outcome_of(lambda: dimkey({k: Fraction(v) for k, v in dict(getd()).items()}))
        if o != ("ok", dk):
            acc.violation(["spelling", "get_dimensionality", "differs-from-dimension-vector", cfg], case, dk, o)
            continue
        if dk not in reps:
            continue
        # must convert to its class representative, must not to three other classes
        idx = repkeys.index(dk)
        others = [repkeys[(idx + j) % len(repkeys)] for j in (1, len(repkeys) // 3, len(repkeys) // 2)]
        for k in [dk] + [o_ for o_ in others if o_ != dk]:
            want = k == dk
            acc.ev(2)
            o1 = outcome_of(lambda: ureg.convert(1, s, reps[k]))
            o2 = outcome_of(lambda: ureg.Quantity(1, s).is_compatible_with(reps[k]))
            c2 = dict(case, target=reps[k])
            if want and (o1[0] != "ok" or not is_number(o1[1])):
                acc.violation(["spelling", "convert", "refuses-or-fails-on-compatible-units", cfg], c2, "a number", o1)
            if not want and o1[0] != "dimerr":
                acc.violation(["spelling", "convert", "no-DimensionalityError-on-incompatible-units", cfg], c2, "DimensionalityError", o1)
            if o2 != ("ok", want):
                acc.violation(["spelling", "Quantity.is_compatible_with(unit-like)", "predicate-disagrees-with-dimension-vectors", cfg], c2, want, o2)
    acc.count("spelling strings skipped (undefined or ambiguous reading)", skipped)
    # compatible-unit listings: every canonical multiplicative unit, unrestricted ('root' group)
    # and under the default system (members of its groups)
    alln = set(M.units)
    sysn = ureg.default_system
    sysmembers = M.system_members(sysn) if sysn else alln
    for u in mult_units(M):
        if not M.dim(u) and not M.root(u).units:
            continue  # the empty container has an explicit early return
        dk = dimkey(M.dim(u))
        same = {n for n in M.units if dimkey(M.dim(n)) == dk and not n.startswith("delta_")}
        for api, grp, want in (("get_compatible_units(u,'root')", "root", same), ("get_compatible_units(u)", None, same & sysmembers)):
            acc.ev()
            o = outcome_of(lambda: {next(iter(x._units)) for x in (ureg.get_compatible_units(u, grp) if grp else ureg.get_compatible_units(u))})
            acc.nt(("listing", cfg, api, u))
            if o[0] != "ok" or o[1] != want:
                got = o[1] if o[0] == "ok" else o
                acc.violation(["listing", api, "differs-from-same-dimension-units", cfg], {"cfg": cfg, "unit": u}, sorted(want), {"missing": sorted(want - got) if isinstance(got, set) else None, "extra": sorted(got - want) if isinstance(got, set) else got})
    # listings restricted to a named group, interleaved with unrestricted ones: for every declared group and every
    # dimension class it has a member in: unrestricted, restricted, unrestricted again, restricted to every OTHER group
    # with a member in that class, unrestricted again — a listing is a question, it never changes a later answer
    gnames = sorted(g for g in M.groups)
    gm = {g: M.group_members(g) for g in gnames}
    for g in gnames:
        seen_dk = set()
        for u in sorted(gm[g]):
            if u not in M.units or not M.units[u].is_multiplicative or (not M.dim(u) and not M.root(u).units):
                continue
            dk = dimkey(M.dim(u))
            if dk in seen_dk:
                continue
            seen_dk.add(dk)
            same = {n for n in M.units if dimkey(M.dim(n)) == dk and not n.startswith("delta_")}
            plan = [("root", same), (g, same & gm[g]), ("root", same)] + [(h, same & gm[h]) for h in gnames if h != g and same & gm[h]] + [("root", same), (None, same & sysmembers)]
            for step, (grp, want) in enumerate(plan):
                acc.ev()
                acc.nt(("group-listing", cfg, g, u, step))
                o = outcome_of(lambda: {next(iter(x._units)) for x in (ureg.get_compatible_units(u, grp) if grp else ureg.get_compatible_units(u))})
                if o[0] != "ok" or o[1] != want:
                    got = o[1] if o[0] == "ok" else o
                    acc.violation(["listing", "get_compatible_units(u, group)", "differs-from-same-dimension-units" if step == 0 else "differs-from-same-dimension-units-after-earlier-listings", cfg], {"cfg": cfg, "unit": u, "group": grp, "earlier": [p[0] for p in plan[:step]]}, sorted(want), {"missing": sorted(want - got) if isinstance(got, set) else None, "extra": sorted(got - want) if isinstance(got, set) else got})
                    break
    acc.sample({"clause": "spelling", "cfg": cfg, "strings": strings[100:104]})


def _default_group_members(M):
    """default group ('international') = units not defined inside any @group block"""
    grp = M.defaults.get("group")
    in_groups = set()
    for g in M.groups:
        in_groups |= set(M.groups[g]["units"])
    orphans = {n for n in M.units if n not in in_groups and not n.startswith("delta_")}
    return orphans if grp else set()


# ----------------------------------------------------------------------------- (c) containers

ALPHA_C = ("meter", "second", "kilogram", "radian", "newton", "hertz", "liter")


def containers(tier, maxn=2):
    exps = [-2, -1, 1, 2, Fraction(1, 2)] if tier == "quick" else [-2, -1, Fraction(-1, 2), Fraction(1, 2), 1, 2, 3]
    out = []
    for n in range(1, maxn + 1):
        for names in itertools.combinations(ALPHA_C, n):
            for es in itertools.product(exps, repeat=n):
                out.append(dict(zip(names, es)))
    return out


def mk(ureg, cfg, c):
    nit = CONFIGS[cfg]["non_int_type"]
    from decimal import Decimal

    def cv(v):
        if isinstance(v, int):
            return v
        return {"float": float, "Fraction": Fraction, "Decimal": lambda x: Decimal(x.numerator) / Decimal(x.denominator)}[nit](v)

    return ureg.UnitsContainer({k: cv(v) for k, v in c.items()})


def run_containers(acc, cfg, block, nblocks, tier):
    M = model()
    ureg = get_reg(cfg)
    cs = containers(tier)
    acc.dim("containers (<=2 entries)", len(cs))
    dks = [dimkey(M.dim_of_units(c)) for c in cs]
    from pint.errors import DimensionalityError

    for i, a in enumerate(cs):
        if i % nblocks != block:
            continue
        ua = mk(ureg, cfg, a)
        for j, b in enumerate(cs):
            ub = mk(ureg, cfg, b)
            want = dks[i] == dks[j]
            acc.ev(3)
            if i != j:
                acc.nt(("cont", cfg, i, j))
            case = {"cfg": cfg, "a": {k: str(v) for k, v in a.items()}, "b": {k: str(v) for k, v in b.items()}, "block": [block, nblocks]}
            try:
                r = ureg.convert(1, ua, ub)
                o = ("ok", r)
            except DimensionalityError:
                o = ("dimerr", None)
            except Exception as e:  # noqa
                o = ("other:" + type(e).__name__, str(e)[:200])
            if want and (o[0] != "ok" or not is_number(o[1])):
                acc.violation(["compound", "convert", "refuses-or-fails-on-compatible-units", cfg], case, "a number", o)
            if not want and o[0] != "dimerr":
                acc.violation(["compound", "convert", "no-DimensionalityError-on-incompatible-units", cfg], case, "DimensionalityError", o)
            o2 = outcome_of(lambda: ureg.Unit(ua).is_compatible_with(ureg.Unit(ub)))
            o3 = outcome_of(lambda: ureg.Quantity(1, ua).is_compatible_with(ureg.Quantity(1, ub)))
            for api, oo in (("Unit.is_compatible_with(Unit)", o2), ("Quantity.is_compatible_with(Quantity)", o3)):
                if oo != ("ok", want):
                    acc.violation(["compound", api, "predicate-disagrees-with-dimension-vectors", cfg], case, want, oo)
            acc.outcome("compatible" if want else "incompatible")
    acc.sample({"clause": "compound", "cfg": cfg, "a": {k: str(v) for k, v in cs[block * 7 % len(cs)].items()}, "b": {k: str(v) for k, v in cs[-1 - block].items()}})


def run_warm(acc, cfg, tier, what):
    """history clause: the verdict for a pair must not depend on which conversions the registry
    has already performed.  Pass 1 converts EVERY ordered pair of the alphabet in one registry (so
    every memo the registry keeps is as warm as it can get), pass 2 converts every pair again and
    compares with the dimension vectors.  Whatever order two colliding pairs are first met in,
    pass 2 sees the second of them after the first."""
    from pint.errors import DimensionalityError

    M = model()
    ureg = regs.default(CONFIGS[cfg]["non_int_type"], fresh=True, **{k: v for k, v in CONFIGS[cfg].items() if k != "non_int_type"})
    if what == "containers":
        cs = containers(tier)
        items = [mk(ureg, cfg, c) for c in cs]
        dks = [dimkey(M.dim_of_units(c)) for c in cs]
        show = [{k: str(v) for k, v in c.items()} for c in cs]
    else:
        units = mult_units(M)
        items = units
        dks = [dimkey(M.dim(u)) for u in units]
        show = units
    n = len(items)
    acc.dim(f"warm alphabet ({what})", n)
    for pss in (1, 2):
        for i in range(n):
            a = items[i]
            for j in range(n):
                try:
                    r = ureg.convert(1, a, items[j])
                    o = ("ok", r)
                except DimensionalityError:
                    o = ("dimerr", None)
                except Exception as e:  # noqa
                    o = ("other:" + type(e).__name__, str(e)[:200])
                if pss == 1:
                    continue
                acc.ev()
                want = dks[i] == dks[j]
                if i != j:
                    acc.nt(("warm", what, cfg, i, j))
                if want and (o[0] != "ok" or not is_number(o[1])):
                    acc.violation(["history", what, "compatible-pair-refused-after-other-conversions", cfg], {"cfg": cfg, "a": show[i], "b": show[j], "what": what}, "a number", o)
                if not want and o[0] != "dimerr":
                    acc.violation(["history", what, "no-DimensionalityError-after-other-conversions", cfg], {"cfg": cfg, "a": show[i], "b": show[j], "what": what}, "DimensionalityError", o)
    acc.outcome("warm-" + what)
    acc.sample({"clause": "history", "cfg": cfg, "what": what, "alphabet": n, "passes": 2})


def run_qclosure(acc, cfg, tier):
    """'preserved by products, quotients and powers', on QUANTITIES: under auto_reduce_dimensions every * / **
    rewrites the unit container, and whatever it rewrites it to must still have the product / quotient / power of
    the operands' dimension vectors and stay convertible to the unreduced unit"""
    M = model()
    ureg = get_reg(cfg)
    cs = containers(tier, maxn=1) + [c for c in containers(tier) if len(c) == 2][:: 7]
    acc.dim("quantity-closure alphabet", len(cs))
    dvs = [M.dim_of_units(c) for c in cs]

    def dv_of(q):
        return dimkey({k: Fraction(v).limit_denominator(1000) for k, v in dict(q.dimensionality).items()})

    def comb(d1, d2, s2):
        out = dict(d1)
        for k, v in d2.items():
            out[k] = out.get(k, 0) + s2 * v
        return dimkey({k: v for k, v in out.items() if v})

    for i, a in enumerate(cs):
        qa = ureg.Quantity(2, mk(ureg, cfg, a))
        for j, b in enumerate(cs):
            qb = ureg.Quantity(4, mk(ureg, cfg, b))
            for opname, fn, sign in (("*", lambda: qa * qb, 1), ("/", lambda: qa / qb, -1)):
                acc.ev()
                acc.nt(("qclosure", cfg, opname, i, j))
                case = {"cfg": cfg, "a": {k: str(v) for k, v in a.items()}, "b": {k: str(v) for k, v in b.items()}, "op": opname}
                o = outcome_of(fn)
                if o[0] != "ok":
                    acc.violation(["closure", "Quantity" + opname, "raises-on-multiplicative-operands", cfg], case, "a quantity", o)
                    continue
                want = comb(dvs[i], dvs[j], sign)
                if dv_of(o[1]) != want:
                    acc.violation(["closure", "Quantity" + opname, "dimension-of-result-is-not-the-product-of-dimensions", cfg], case, str(want), str(dv_of(o[1])))
                plain = ureg.UnitsContainer(mk(ureg, cfg, a)) * ureg.UnitsContainer(mk(ureg, cfg, b)) ** sign
                o2 = outcome_of(lambda: o[1].is_compatible_with(ureg.Unit(plain)) and is_number(o[1].to(ureg.Unit(plain)).magnitude))
                if o2 != ("ok", True):
                    acc.violation(["closure", "Quantity" + opname, "result-not-convertible-to-the-plain-product-unit", cfg], case, True, o2)
        for p in (2, -1, 3):
            acc.ev()
            o = outcome_of(lambda: qa**p)
            case = {"cfg": cfg, "a": {k: str(v) for k, v in a.items()}, "op": f"**{p}"}
            if o[0] != "ok":
                acc.violation(["closure", "Quantity**", "raises-on-multiplicative-operands", cfg], case, "a quantity", o)
            elif dv_of(o[1]) != dimkey({k: v * p for k, v in dvs[i].items()}):
                acc.violation(["closure", "Quantity**", "dimension-of-result-is-not-the-product-of-dimensions", cfg], case, str(dimkey({k: v * p for k, v in dvs[i].items()})), str(dv_of(o[1])))
    acc.outcome("quantity-closure")
    acc.sample({"clause": "closure", "cfg": cfg, "example": "Q(2, liter) * Q(4, meter) under auto_reduce_dimensions has dimension [length]**4"})


def run_object_histories(acc, cfg):
    """the ureg.check decorator on a 3-parameter function under every positional / keyword-order / omitted call form and every right/wrong assignment of the passed values, the predicates of ONE quantity object after a history of in-place operations on it (its unit container is
    replaced, its memoised dimensionality has to follow): every chain of <= 2 operations, predicates read first"""
    import numpy as np

    M = model()
    ureg = get_reg(cfg)
    Q = ureg.Quantity
    ops = [
        ("*= s", lambda q: q.__imul__(Q(2.0, "second"))), ("/= s", lambda q: q.__itruediv__(Q(2.0, "second"))), ("**= 2", lambda q: q.__ipow__(2)),
        ("ito_root_units", lambda q: (q.ito_root_units(), q)[1]), ("ito_base_units", lambda q: (q.ito_base_units(), q)[1]), ("ito_reduced_units", lambda q: (q.ito_reduced_units(), q)[1]),
        ("to_root->ito back", lambda q: (q.ito(q.to_root_units().units), q)[1]),
    ]
    probes = ["meter", "second", "meter/second", "meter*second", "meter**2", "liter", "hertz", "kilometer/hour**2", ""]
    specs = ["[length]", "[time]", "[length]/[time]", "[length]*[time]", "[length]**2", "[length]**3"]
    for ustr in ("meter", "kilometer / hour", "liter", "inch * minute"):
        for mk_ in ("ndarray", "scalar"):
            for chain in itertools.chain(itertools.product(ops, repeat=1), itertools.product(ops, repeat=2)):
                acc.ev()
                acc.nt(("objhist", cfg, ustr, mk_, tuple(n for n, _ in chain)))
                q = Q(np.array([3.0, 6.0]) if mk_ == "ndarray" else 3.0, ustr)
                q.dimensionality, q.check("[length]"), q.is_compatible_with("meter")  # noqa: B018  (a program looks at the object first)
                case = {"cfg": cfg, "units": ustr, "magnitude": mk_, "operations": [n for n, _ in chain]}
                ok = True
                for n, op in chain:
                    o = outcome_of(lambda: op(q))
                    if o[0] != "ok" or not hasattr(o[1], "_units"):
                        ok = False
                        break
                    q = o[1]
                if not ok:
                    continue
                want_dim = M.dim_of_units({k: Fraction(v).limit_denominator(1000) for k, v in dict(q._units).items()})
                for p in probes:
                    pd = M.dim_of_units(dict(defs.parse_expr(p).units)) if p else {}
                    o = outcome_of(lambda: q.is_compatible_with(ureg.Unit(p) if p else ureg.Unit("")))
                    if o != ("ok", dimkey(pd) == dimkey(want_dim)):
                        acc.violation(["object-history", "Quantity.is_compatible_with", "predicate-disagrees-with-the-units-the-object-carries", cfg], dict(case, probe=p, units_now=str(q.units)), dimkey(pd) == dimkey(want_dim), o)
                        break
                for sp in specs:
                    o = outcome_of(lambda: q.check(sp))
                    truth = dict(ureg.get_dimensionality(sp)) == dict(ureg.get_dimensionality(q._units))
                    if o != ("ok", truth):
                        acc.violation(["object-history", "Quantity.check", "predicate-disagrees-with-the-units-the-object-carries", cfg], dict(case, spec=sp, units_now=str(q.units)), truth, o)
                        break
    acc.outcome("object-histories")
    acc.sample({"clause": "object-history", "cfg": cfg, "example": ["check('[length]')", "q /= Q(2, 's')", "q.ito_root_units()", "check('[length]') must now be False"]})


def run_unit_closure(acc, cfg):
    """'preserved by products, quotients and powers' at the level of Unit OBJECTS: every ordered pair of a unit-object
    alphabet, each operand either fresh or already asked for its dimensionality (memo filled), under * / ** and the reflected
    forms with a number: dimensionality, dimensionless and both is_compatible_with predicates of the result follow the model"""
    M = model()
    ureg = get_reg(cfg)
    names = ["meter", "second", "kilometer", "hour", "newton", "gram", "hertz", "liter", "radian", "meter / second", ""]
    probes = ["meter", "second", "meter/second", "second/meter", "kilometer/hour", "meter*second", "hertz", "newton", "meter**2", ""]
    pd = {p: dimkey(M.dim_of_units(dict(defs.parse_expr(p).units)) if p else {}) for p in probes}

    def mk(n, warm):
        u = ureg.Unit(n)
        if warm:
            u.dimensionality, u.dimensionless, u.is_compatible_with("meter")  # noqa: B018
        return u

    def verify(r, want, case):
        acc.ev()
        o = outcome_of(lambda: dimkey({k: Fraction(v).limit_denominator(1000) for k, v in dict(r.dimensionality).items()}))
        if o != ("ok", want):
            acc.violation(["unit-closure", "Unit.dimensionality", "differs-from-dimension-vector", cfg], case, want, o)
            return
        o = outcome_of(lambda: r.dimensionless)
        if o != ("ok", want == dimkey({})):
            acc.violation(["unit-closure", "Unit.dimensionless", "predicate-disagrees-with-dimension-vectors", cfg], case, want == dimkey({}), o)
        for p in probes:
            for api, fn in (("Unit.is_compatible_with", lambda: r.is_compatible_with(ureg.Unit(p))), ("registry.is_compatible_with", lambda: ureg.is_compatible_with(r, ureg.Unit(p)))):
                o = outcome_of(fn)
                if o != ("ok", pd[p] == want):
                    acc.violation(["unit-closure", api, "predicate-disagrees-with-dimension-vectors", cfg], dict(case, probe=p), pd[p] == want, o)
                    return

    for na, nb in itertools.product(names, repeat=2):
        da = M.dim_of_units(dict(defs.parse_expr(na).units)) if na else {}
        db = M.dim_of_units(dict(defs.parse_expr(nb).units)) if nb else {}
        for wa, wb in itertools.product((False, True), repeat=2):
            a, b = mk(na, wa), mk(nb, wb)
            acc.nt(("unit-closure", cfg, na, nb, wa, wb))
            case = {"cfg": cfg, "a": na, "b": nb, "a_asked_before": wa, "b_asked_before": wb}
            mul = {k: v for k, v in ((k, da.get(k, 0) + db.get(k, 0)) for k in set(da) | set(db)) if v}
            div = {k: v for k, v in ((k, da.get(k, 0) - db.get(k, 0)) for k in set(da) | set(db)) if v}
            verify(a * b, dimkey(mul), dict(case, op="a * b"))
            verify(a / b, dimkey(div), dict(case, op="a / b"))
            # the operands themselves still answer for what they are
            verify(a, dimkey(da), dict(case, op="a after a / b"))
            verify(b, dimkey(db), dict(case, op="b after a / b"))
    for na in names:
        da = M.dim_of_units(dict(defs.parse_expr(na).units)) if na else {}
        for wa in (False, True):
            for e in (-2, -1, 0, 1, 2, Fraction(1, 2)):
                a = mk(na, wa)
                case = {"cfg": cfg, "a": na, "a_asked_before": wa, "op": f"a ** {e}"}
                # (a non-integer exponent in the registry's own numeric type: Decimal * float is not defined)
                ee = e if isinstance(e, int) else {"Fraction": Fraction(1, 2), "Decimal": __import__("decimal").Decimal("0.5")}.get(cfg, 0.5)
                verify(a ** ee, dimkey({k: v * e for k, v in da.items() if e}), case)
            a = mk(na, wa)
            verify(1 / a, dimkey({k: -v for k, v in da.items()}), {"cfg": cfg, "a": na, "a_asked_before": wa, "op": "1 / a"})
    acc.outcome("unit-closure")
    acc.sample({"clause": "unit-closure", "cfg": cfg, "a": "meter", "b": "second", "a_asked_before": True, "b_asked_before": True, "op": "a / b"})


def run_check_binding(acc, cfg):
    """ureg.check compares every argument with the dimension declared for ITS parameter, however the call binds them:
    3 parameters (two with defaults) x every positional / keyword-order / omitted call form x every assignment of a
    right-dimension or wrong-dimension value per passed argument"""
    ureg = get_reg(cfg)
    Q = ureg.Quantity
    from pint.errors import DimensionalityError

    names = ["p0", "p1", "p2"]
    specs = ["[length]", "[time]", "[mass]"]
    good = {"p0": Q(2, "kilometer"), "p1": Q(3, "minute"), "p2": Q(5, "pound")}
    wrong = {"p0": [Q(2, "second"), Q(2, "gram")], "p1": [Q(3, "meter"), Q(3, "kilogram")], "p2": [Q(5, "inch"), Q(5, "hour")]}
    seen = []

    def f(p0, p1=good["p1"], p2=good["p2"]):
        seen.append((p0, p1, p2))
        return "called"

    w = ureg.check(*specs)(f)
    for npos in range(0, 4):
        rest = names[npos:]
        for r in range(len(rest) + 1):
            for kws in itertools.permutations(rest, r):
                passed = names[:npos] + list(kws)
                if "p0" not in passed:
                    continue
                for choice in itertools.product(*[[("good", good[n])] + [("wrong", v) for v in wrong[n]] for n in passed]):
                    vals = dict(zip(passed, choice))
                    args = [vals[n][1] for n in names[:npos]]
                    kwargs = {n: vals[n][1] for n in kws}
                    must_raise = any(tag == "wrong" for tag, _ in vals.values())
                    del seen[:]
                    acc.ev()
                    acc.nt(("check-binding", cfg, npos, kws, tuple(t for t, _ in choice), tuple(str(v.units) for _, v in choice)))
                    o = outcome_of(lambda: w(*args, **kwargs))
                    case = {"cfg": cfg, "declared": specs, "positional": npos, "keywords_in_call_order": list(kws), "values": {n: str(vals[n][1]) for n in passed}}
                    if must_raise and o[0] != "dimerr":
                        acc.violation(["decorator", "ureg.check", "wrong-dimension-accepted", "keyword-order" if len(kws) > 1 else "binding"], case, "DimensionalityError", o)
                    if not must_raise and (o != ("ok", "called") or len(seen) != 1):
                        acc.violation(["decorator", "ureg.check", "right-dimensions-refused-or-function-not-called", "keyword-order" if len(kws) > 1 else "binding"], case, "the call goes through", o)
    acc.outcome("check-binding")
    acc.sample({"clause": "decorator", "declared": specs, "call": "f(p2=5 lb, p0=2 km)", "expected": "goes through"})


def run_triples(acc, cfg, tier):
    """equivalence laws and closure under * / ** on a 40-container sub-alphabet, decided by the
    implementation's own predicate (so they hold even where R1 and pint could share a mistake)"""
    M = model()
    ureg = get_reg(cfg)
    cs = containers(tier)[:: max(1, len(containers(tier)) // 40)][:40]
    us = [ureg.Unit(mk(ureg, cfg, c)) for c in cs]
    n = len(us)
    comp = [[us[i].is_compatible_with(us[j]) for j in range(n)] for i in range(n)]
    acc.dim("triple alphabet", n)
    for i in range(n):
        acc.ev()
        if not comp[i][i]:
            acc.violation(["equivalence", "is_compatible_with", "not-reflexive", cfg], {"cfg": cfg, "a": str(cs[i])}, True, False)
        for j in range(n):
            acc.ev()
            if comp[i][j] != comp[j][i]:
                acc.violation(["equivalence", "is_compatible_with", "not-symmetric", cfg], {"cfg": cfg, "a": str(cs[i]), "b": str(cs[j])}, comp[i][j], comp[j][i])
            for k in range(n):
                acc.ev()
                if i != j and j != k:
                    acc.nt(("triple", cfg, i, j, k))
                if comp[i][j] and comp[j][k] and not comp[i][k]:
                    acc.violation(["equivalence", "is_compatible_with", "not-transitive", cfg], {"cfg": cfg, "a": str(cs[i]), "b": str(cs[j]), "c": str(cs[k])}, True, False)
                # closure: a~b  =>  a*c ~ b*c, a/c ~ b/c
                if comp[i][j]:
                    if not (us[i] * us[k]).is_compatible_with(us[j] * us[k]) or not (us[i] / us[k]).is_compatible_with(us[j] / us[k]):
                        acc.violation(["closure", "mul-div", "compatibility-not-preserved", cfg], {"cfg": cfg, "a": str(cs[i]), "b": str(cs[j]), "c": str(cs[k])}, True, False)
            for p in (-1, 2, 3, Fraction(1, 2)):
                acc.ev()
                pp = p if isinstance(p, int) else {"float": 0.5}.get(CONFIGS[cfg]["non_int_type"], None)
                if pp is None:
                    continue
                if (us[i] ** pp).is_compatible_with(us[j] ** pp) != comp[i][j]:
                    acc.violation(["closure", "pow", "compatibility-not-preserved", cfg], {"cfg": cfg, "a": str(cs[i]), "b": str(cs[j]), "p": str(p)}, comp[i][j], not comp[i][j])
    acc.outcome("triples")
    acc.sample({"clause": "equivalence+closure", "cfg": cfg, "alphabet_size": n, "example": [str(cs[1]), str(cs[5]), str(cs[9])]})


# ----------------------------------------------------------------------------- (d) dimension specs

ARG_UNITS = ("meter", "second", "kilogram", "newton", "pascal", "joule", "watt", "meter/second**2", "1/pascal", "newton**2", "hertz", "radian", "kilogram/meter**3", "joule**0.5")


def run_dimspecs(acc, cfg):
    M = model()
    ureg = get_reg(cfg)
    dims = sorted(d for d in M.dimensions if d != "[]")
    acc.dim("declared dimensions", len(dims))
    exps = [1, -1, 2, Fraction(1, 2)]
    specs = []
    for d in dims:
        for e in exps:
            if e == 1:
                specs.append((d, {d: 1}))
            elif e == -1:
                specs.append((f"1 / {d}", {d: -1}))
            elif e == 2:
                specs.append((f"{d} ** 2", {d: 2}))
            else:
                specs.append((f"{d} ** 0.5", {d: Fraction(1, 2)}))
    core_d = [d for d in ("[length]", "[time]", "[acceleration]", "[force]", "[energy]", "[pressure]", "[power]", "[density]", "[frequency]", "[area]") if d in M.dimensions]
    for d1, d2 in itertools.product(core_d, repeat=2):
        specs.append((f"{d1} / {d2}", {d1: 1, d2: -1} if d1 != d2 else {}))
        specs.append((f"{d1} * {d2} ** 2", {d1: 1, d2: 2} if d1 != d2 else {d1: 3}))
    args = []
    for s in ARG_UNITS:
        from mc.ref.defs import parse_expr

        args.append((s, dimkey(M.dim_of_units(parse_expr(s.replace("**0.5", "**(1/2)")).units))))
    for text, vec in specs:
        want_dim = dimkey(M.dim_expand(defs.Mono(1, vec)).units)
        acc.ev()
        acc.nt(("dimspec", cfg, text))
        o = outcome_of(lambda: dimkey({k: Fraction(v) for k, v in dict(ureg.get_dimensionality(text)).items()}))
        if cfg == "Decimal" and "0.5" in text and o[0] == "other:TypeError":
            # the string spec is parsed with float literals whatever the registry's numeric type
            acc.violation(["dimspec", "get_dimensionality", "float-exponent-spec-in-Decimal-registry-raises-TypeError"], {"cfg": cfg, "spec": text}, want_dim, o)
            continue
        if o != ("ok", want_dim):
            acc.violation(["dimspec", "get_dimensionality", "differs-from-expanded-dimension", cfg], {"cfg": cfg, "spec": text}, want_dim, o)
        for s, dk in args:
            want = dk == want_dim
            q = ureg.Quantity(1, s)
            acc.ev(2)
            o1 = outcome_of(lambda: q.check(text))
            if o1 != ("ok", want):
                acc.violation(["dimspec", "Quantity.check", "disagrees-with-dimension-vectors", cfg], {"cfg": cfg, "spec": text, "arg": s}, want, o1)

            def deco():
                f = ureg.check(text)(lambda x: "called")
                return f(q)

            o2 = outcome_of(deco)
            exp2 = ("ok", "called") if want else ("dimerr", None)
            if o2 != exp2:
                acc.violation(["dimspec", "ureg.check", "disagrees-with-dimension-vectors", cfg], {"cfg": cfg, "spec": text, "arg": s}, exp2, o2)
            acc.outcome("check-pass" if want else "check-fail")
    acc.sample({"clause": "dimspec", "cfg": cfg, "spec": specs[9][0], "args": list(ARG_UNITS[:3])})


# ----------------------------------------------------------------------------- (e) generated registries


def gen_registries():
    """derived-dimension DAGs of depth <= 3 over two base dimensions, +/- a dimensionless base unit;
    exponent alphabet for the derived layers {1,-1,2}"""
    for e1, e2, e3 in itertools.product((1, -1, 2), repeat=3):
        for with_dless in (False, True):
            lines = [
                "ua = [A]",
                "ub = [B]",
                f"[C] = [A] ** {e1} * [B]",
                f"[D] = [C] ** {e2} / [A]",
                f"[E] = [D] ** {e3} * [C]",
                f"uc = ua ** {e1} * ub",
                f"ud = uc ** {e2} / ua",
                f"ue = 3 * ud ** {e3} * uc",
                "uf = 2 * ua",
            ]
            if with_dless:
                lines += ["un = []", "ug = un * ua"]
            yield (e1, e2, e3, with_dless), lines


def run_generated(acc):
    from pint.errors import DimensionalityError

    for key, lines in gen_registries():
        M = defs.read(lines)
        ureg = regs.tiny(lines)
        names = [n for n in M.units]
        for a in names:
            for b in names:
                want = M.dim(a) == M.dim(b)
                acc.ev(2)
                if a != b:
                    acc.nt(("gen", key, a, b))
                o = outcome_of(lambda: ureg.convert(1, a, b))
                case = {"registry": lines, "a": a, "b": b}
                if want and (o[0] != "ok" or not is_number(o[1])):
                    acc.violation(["generated", "convert", "refuses-or-fails-on-compatible-units"], case, "a number", o)
                if not want and o[0] != "dimerr":
                    acc.violation(["generated", "convert", "no-DimensionalityError-on-incompatible-units"], case, "DimensionalityError", o)
                o2 = outcome_of(lambda: ureg.Quantity(1, a).is_compatible_with(b))
                if o2 != ("ok", want):
                    acc.violation(["generated", "Quantity.is_compatible_with(unit-like)", "predicate-disagrees-with-dimension-vectors"], case, want, o2)
                acc.outcome("compatible" if want else "incompatible")
        for d in ("[C]", "[D]", "[E]"):
            for p, txt in ((1, d), (2, f"{d} ** 2"), (-1, f"1 / {d}")):
                want_dim = dimkey(M.dim_expand(defs.Mono(1, {d: p})).units)
                acc.ev()
                o = outcome_of(lambda: dimkey({k: Fraction(v) for k, v in dict(ureg.get_dimensionality(txt)).items()}))
                if o != ("ok", want_dim):
                    acc.violation(["generated", "get_dimensionality", "differs-from-expanded-dimension"], {"registry": lines, "spec": txt}, want_dim, o)
                for a in names:
                    want = dimkey(M.dim(a)) == want_dim and p == 1 or dimkey(M.dim_of_units({a: 1})) == want_dim
                    o1 = outcome_of(lambda: ureg.Quantity(1, a).check(txt))
                    acc.ev()
                    if o1 != ("ok", want):
                        acc.violation(["generated", "Quantity.check", "disagrees-with-dimension-vectors"], {"registry": lines, "spec": txt, "arg": a}, want, o1)
    acc.sample({"clause": "generated", "registry": lines})


# ----------------------------------------------------------------------------- dispatch / replay


def run_shard(acc, shard, tier, seed):
    kind = shard[0]
    if kind == "pairs":
        run_pairs(acc, shard[1], shard[2], shard[3])
    elif kind == "spellings":
        run_spellings(acc, shard[1])
    elif kind == "containers":
        run_containers(acc, shard[1], shard[2], shard[3], tier)
    elif kind == "triples":
        run_triples(acc, shard[1], tier)
    elif kind == "dimspecs":
        run_dimspecs(acc, shard[1])
    elif kind == "generated":
        run_generated(acc)
    elif kind == "warm":
        run_warm(acc, shard[1], tier, shard[2])
    elif kind == "qclosure":
        run_qclosure(acc, shard[1], tier)
    elif kind == "objhist":
        run_object_histories(acc, shard[1])
    elif kind == "checkbind":
        run_check_binding(acc, shard[1])
    elif kind == "unitclosure":
        run_unit_closure(acc, shard[1])
    else:
        raise core.HarnessError(f"unknown shard {shard}")


def replay(rec):
    """Re-run one recorded case with direct calls."""
    case, site = rec["case"], rec["site"]
    acc = core.Acc(PROPERTY)
    M = model()
    cfg = case.get("cfg", "float")
    if site[0] == "generated":
        ureg = regs.tiny(case["registry"])
        Mg = defs.read(case["registry"])
        detail = {}
        if "spec" in case:
            detail["get_dimensionality"] = outcome_of(lambda: dict(ureg.get_dimensionality(case["spec"])))
            if "arg" in case:
                detail["check"] = outcome_of(lambda: ureg.Quantity(1, case["arg"]).check(case["spec"]))
            run_generated(acc)
        else:
            run_generated(acc)
    elif site[0] == "unit-pair":
        ureg = get_reg(cfg)
        want = M.dim(case["a"]) == M.dim(case["b"])
        check_pair_fast(acc, ureg, cfg, case["a"], case["b"], want)
    elif site[0] == "spelling" or site[0] == "listing":
        run_spellings(acc, cfg)
    elif site[0] == "compound":
        ureg = get_reg(cfg)
        a = {k: Fraction(v) for k, v in case["a"].items()}
        b = {k: Fraction(v) for k, v in case["b"].items()}
        want = M.dim_of_units(a) == M.dim_of_units(b)
        check_pair(acc, ureg, cfg, mk(ureg, cfg, a), mk(ureg, cfg, b), want, clause="compound")
        if tuple(site) not in {tuple(v["site"]) for v in acc.violations} and "block" in case:
            # the verdict may depend on the conversions performed before it: redo the whole block in order
            run_containers(acc, cfg, case["block"][0], case["block"][1], rec.get("tier", "quick"))
    elif site[0] == "object-history":
        run_object_histories(acc, cfg)
    elif site[0] == "unit-closure":
        run_unit_closure(acc, cfg)
    elif site[0] == "decorator":
        run_check_binding(acc, cfg)
    elif site[0] == "closure" and site[1].startswith("Quantity"):
        run_qclosure(acc, cfg, rec.get("tier", "quick"))
    elif site[0] in ("equivalence", "closure"):
        run_triples(acc, cfg, rec.get("tier", "quick"))
    elif site[0] == "dimspec":
        run_dimspecs(acc, cfg)
    elif site[0] == "history":
        run_warm(acc, cfg, rec.get("tier", "quick"), case["what"])
    sites = {tuple(v["site"]) for v in acc.violations}
    return tuple(site) in sites, {"sites_seen": sorted(sites)}


MANIFEST = {'category': 'exploration', 'technique': 'bounded exhaustive enumeration of unit pairs / spellings / compound containers / dimension specs against an independent definition-file reader (R1) — small-scope model checking of the compatibility relation', 'text': "All ordered pairs of the multiplicative canonical units of the bundled registry (~150k), every defined spelling alone and prefixed/pluralised, every ordered pair of 1-2 entry compound containers over a 7-unit alphabet with integer and half-integer exponents, all triples of a 40-container sub-alphabet (equivalence laws, closure under * / **), every declared dimension x exponent alphabet as a dimension spec through get_dimensionality / Quantity.check / ureg.check, compatible-unit listings of every unit, products, quotients and powers of QUANTITIES over the compound alphabet in a float registry and in an auto-reducing exact (Fraction) registry — the result must have the product of the dimension vectors and stay convertible to the plain product unit —, the predicates of ONE quantity object after every chain of <= 2 in-place operations (*=, /=, **=, ito_root/base/reduced_units, ito) against the units it then carries, a history clause (every ordered pair of the compound alphabet — thorough: of the canonical units too — converted twice in ONE registry, so that each pair is judged again after every other pair has warmed the registry's memos), and 54 generated registries with derived-dimension DAGs: each conversion must return a number exactly when R1's base-dimension vectors agree and raise DimensionalityError otherwise, and each predicate must equal that relation. thorough repeats everything for Fraction, Decimal, case-insensitive and auto_reduce_dimensions registries.", 'note': 'Trusted: R1 (mc/ref/defs.py, no pint imports; cross-checked against pint on the unchanged tree). Strings with several non-equivalent prefix readings are left to C08; offset/log units to C06; compounds with more than 2 (pairs) / 3 factors and units added after construction are outside the bound.', 'ref': 'DESIGN.md §4 C01'}
MANIFEST["text"] += ' Listings restricted to a named group are interleaved with unrestricted ones (for every declared group and every dimension class it has a member in: unrestricted, restricted, unrestricted, restricted to every other group, unrestricted, default system): a listing never changes a later listing.'
MANIFEST["text"] += " Unit objects: every ordered pair of an 11-unit-object alphabet, each operand fresh or already asked for its dimensionality, under * and /, and each under ** (6 exponents) and 1/u: dimensionality, dimensionless and both is_compatible_with predicates of the result (10 probes) follow the model, and the operands still answer for themselves."
