"""C12 — context activation is scoped, stack-like, atomic and leaves no residue.

Model checking (E2) with fault enumeration (E3).  States are event histories replayed on a
fresh real registry; events are enable / disable / with-enter / with-exit / raise-inside-with /
per-call activation / activations that fail naturally / activations with an injected fault at
every internal step / define / cache-touching queries.  A reference stack model (R5: a plain
list) is stepped in lock-step; in every reached state the whole probe vector of the real
registry must equal that of a FRESH registry on which only the reference stack was enabled,
a failed activation must change nothing, and pooled context objects (one of them shared with a
second registry) must not be modified."""
from __future__ import annotations

import copy
from fractions import Fraction

from mc import core, regs, explore

PROPERTY = "C12"
LEVEL = "model_checking"
RULE = (
    "BFS over all event histories up to depth 3 (quick) / 4 (thorough) with at most 1 / 2 failing or fault-injected activations per history; 27 events: enable x 9 context selections, per-call to(), disable(1), "
    "disable(), 3 with-enter, with-exit, 4 calls of with_context-decorated functions (2 of them failing to activate), raise-inside-with (an Exception, KeyboardInterrupt, GeneratorExit), 4 naturally failing activations, 5 injected-fault activations (every internal step of the activation), define, 2 cache-touching queries; "
    "14-probe observation vector + pooled-context snapshots in every state vs a fresh registry with the reference stack. non-trivial = distinct state fingerprint"
)
ASSUMPTIONS = [
    "reference = a Python list of (context name, explicit kwargs), push on successful enable / with-enter, pop n on disable(n) / with-exit, clear on disable(); a failed activation leaves it unchanged",
    "the fresh-registry oracle replays the reference stack with individual enable_contexts calls in stack order",
    "fingerprint = registry state (_units layers, _cache, _caches, _context_units, _base_units_cache, _active_ctx) + open-block bookkeeping of the driver",
]
SITE_GRAMMAR = "[clause, probe-or-api, failure-kind, event-kind-that-led-here]"

LINES = """
kilo- = 1e3 = k-
ua = [A]
ub = [B]
gram = [M] = g
inch = 2 * ua
foot = 12 * inch = ft
mile = 5280 * foot
pound = 500 * gram = lb
deg = 2 * ua; offset: 7
@context(n=1) A = Ax
    [A] -> [B]: value * 3 * n * ub / ua
@end
@context B
    [A] -> [B]: value * 5 * ub / ua
    [B] -> [A]: value * 7 * ua / ub
@end
@context R
    foot = 10 * inch
@end
@context RB
    [A] -> [B]: value * 11 * ub / ua
    inch = 3 * ua
@end
@context K
    pound = 250 * gram; offset: 10
@end
@context K2
    deg = 3 * ua
@end
@context BAD
    foot = 3 * ub
@end
@context BAD2
    inch = 5 * ua
    foot = 3 * ub
@end
@system fsys
    foot : ua
@end
@system isys
    inch : ua
@end
@defaults
    group = G0
    system = isys
@end
""".strip().splitlines()


class InjectedFault(Exception):
    pass


def mk_shared():
    """a context object created in Python and registered in two registries"""
    pint = core.boot()
    ctx = pint.Context("SH", aliases=("SHx",), defaults={"n": 2})
    ctx.add_transformation("[A]", "[B]", lambda ureg, x, n: x * 13 * n * ureg.ub / ureg.ua)
    ctx.redefine("pound = 250 * gram")
    return ctx


class Sys:
    """the system under exploration: registry under test + a second registry sharing one context object"""

    def __init__(self):
        regs.clear_process_caches()
        self.reg = regs.tiny(LINES, non_int_type="Fraction")
        self.other = regs.tiny(LINES, non_int_type="Fraction")
        self.shared = mk_shared()
        self.reg.add_context(self.shared)
        self.other.add_context(self.shared)
        # two NAMELESS context objects (never registered; passed to enable_contexts as objects) that are alike in everything
        # a cache key could look at — no name, no aliases, no rules, no defaults — except in what they redefine
        pint = core.boot()
        self.anon = {"@X1": pint.Context(), "@X2": pint.Context()}
        self.anon["@X1"].redefine("foot = 9 * inch")
        self.anon["@X2"].redefine("pound = 100 * gram")
        self.blocks = []  # open with-blocks: (context manager, n contexts)
        self.model = []  # reference stack: (name, kwargs)
        self.mblocks = []  # reference: sizes of open blocks
        self.defined = []


EVENTS = [
    ("enable", ["A"], {}), ("enable", ["A"], {"n": 2}), ("enable", ["Ax"], {"n": 5}), ("enable", ["B"], {}), ("enable", ["R"], {}), ("enable", ["RB"], {}),
    ("enable", ["A", "R"], {}), ("enable", ["R", "RB"], {}), ("enable", ["SH"], {}),
    ("enable", ["@X1"], {}), ("enable", ["@X2"], {}),
    # contexts whose redefinition changes the KIND of a unit: scaled -> offset (K), offset -> scaled (K2)
    ("enable", ["K"], {}), ("enable", ["K2"], {}), ("with", ["K2", "K"], {}),
    # a keyword value that cannot be part of a cache key (a list): the activation of a redefining context fails on it
    ("enable", ["R"], {"n": "@list"}), ("with", ["RB"], {"n": "@list"}), ("enable", ["A", "R"], {"n": "@list"}),
    ("to", ["A"], {"n": 7}),
    # a function decorated with ureg.with_context: its contexts are active during the call only — also when their
    # activation fails, whatever the caller has active
    ("deco", ["R"], {}), ("deco", ["A"], {"n": 4}), ("deco", ["BAD"], {}), ("deco", ["NOSUCH"], {}),
    # ... and when the decorated function itself raises
    ("deco-raise", ["R"], {}), ("deco-raise", ["A"], {"n": 4}), ("deco-raise", ["RB"], {}),
    ("disable", 1), ("disable", None), ("disable", 0),  # removing ZERO contexts removes none
    ("with", [], {}),  # a block that names no context
    ("with", ["R"], {}), ("with", ["A"], {"n": 3}), ("with", ["RB", "B"], {}),
    ("exit",), ("raise",), ("raise", "KeyboardInterrupt"), ("raise", "GeneratorExit"),
    ("enable", ["BAD"], {}), ("enable", ["BAD2"], {}), ("enable", ["R", "BAD2"], {}), ("enable", ["NOSUCH"], {}),
    ("fault", ["R"], "redefine", 0), ("fault", ["RB"], "redefine", 0), ("fault", ["R", "RB"], "redefine", 1), ("fault", ["A"], "switch", 0), ("fault", ["RB"], "define", 0),
    ("define", "newu = 4 * ua"),
    ("q", "base"), ("q", "conv"), ("q", "kinds"),
]
FAILING = {"BAD", "BAD2", "NOSUCH"}


def ev_key(ev):
    return tuple(tuple(x) if isinstance(x, list) else (tuple(sorted(x.items())) if isinstance(x, dict) else x) for x in ev)


def _kw_items(kw):
    return kw.items() if isinstance(kw, dict) else kw


def is_failing(ev):
    return ev[0] == "fault" or (ev[0] in ("enable", "with", "deco") and (any(n in FAILING for n in ev[1]) or any(v == "@list" for _, v in _kw_items(ev[2]))))


def real_kw(kw):
    return {k: ([1, 2] if v == "@list" else v) for k, v in dict(kw).items()}


def call(fn):
    try:
        return ["ok", fn()]
    except InjectedFault:
        return ["exc", "InjectedFault"]
    except Exception as e:  # noqa
        return ["exc", type(e).__name__]


def fr(x):
    try:
        return str(Fraction(x))
    except Exception:  # noqa
        return repr(x)


def probes(reg):
    Q = reg.Quantity
    out = {}
    out["A->B"] = call(lambda: fr(Q(1, "ua").to("ub").magnitude))
    out["B->A"] = call(lambda: fr(Q(1, "ub").to("ua").magnitude))
    out["foot->ua"] = call(lambda: fr(Q(1, "foot").to("ua").magnitude))
    out["mile->inch"] = call(lambda: fr(Q(1, "mile").to("inch").magnitude))
    out["root(mile)"] = call(lambda: fr(reg.get_root_units("mile")[0]))
    out["base(mile)"] = call(lambda: [fr(reg.get_base_units("mile")[0]), sorted(dict(reg.get_base_units("mile")[1]._units))])
    out["base(mile,fsys)"] = call(lambda: [fr(reg.get_base_units("mile", system="fsys")[0]), sorted(dict(reg.get_base_units("mile", system="fsys")[1]._units))])
    out["to_base(mile)"] = call(lambda: fr(Q(1, "mile").to_base_units().magnitude))
    out["pound->g"] = call(lambda: fr(Q(1, "pound").to("gram").magnitude))
    out["deg->ua"] = call(lambda: fr(Q(1, "deg").to("ua").magnitude))
    out["g->pound"] = call(lambda: fr(Q(510, "gram").to("pound").magnitude))
    out["compat(ua)"] = call(lambda: sorted(next(iter(u._units)) for u in reg.get_compatible_units("ua", "root")))
    out["kilofoot->ua"] = call(lambda: fr(Q(1, "kilofoot").to("ua").magnitude))
    out["parse(kft)"] = call(lambda: sorted(dict(reg.parse_units("kft")._units)))
    out["newu->ua"] = call(lambda: fr(Q(1, "newu").to("ua").magnitude))
    out["stack"] = [c.name for c in reg._active_ctx.contexts]
    # the registry's own options are not part of what a context may change (an activation lifts the redefinition
    # policy while it installs its redefinitions and has to put it back, also when it fails half-way)
    out["option:on_redefinition"] = getattr(reg, "_on_redefinition", None)
    out["option:modes"] = [getattr(reg, "autoconvert_offset_to_baseunit", None), getattr(reg, "default_as_delta", None), getattr(reg, "case_sensitive", None)]
    return out


def ctx_snapshot(s):
    out = {}
    for name in ("A", "B", "R", "RB", "BAD", "BAD2", "SH"):
        c = s.reg._contexts[name]
        out[name] = [c.name, list(c.aliases), sorted((k, fr(v)) for k, v in c.defaults.items()), len(c.redefinitions), len(c.funcs)]
    return out


class CtxDriver(explore.Driver):
    def __init__(self, max_failing):
        self.max_failing = max_failing
        self._ref_cache = {}
        self._pristine_snap = None
        self._other_ref = None

    def fresh(self):
        return Sys()

    def events(self):
        return [ev_key(e) for e in EVENTS]

    def enabled(self, hist):
        nf = sum(1 for e in hist if is_failing(e))
        # open blocks are tracked by replaying the reference only
        opened = 0
        for e in hist:
            if e[0] == "with" and not is_failing(e):
                opened += 1
            elif e[0] == "exit" and opened:
                opened -= 1
            elif e[0] == "raise":
                opened = 0
        out = []
        for e in self.events():
            if is_failing(e) and nf >= self.max_failing:
                continue
            if e[0] == "exit" and not opened:
                continue
            if e[0] == "raise" and not opened:
                continue
            out.append(e)
        return out

    # ---- executing one event on the real system and on the reference
    def apply(self, s, ev):
        reg = s.reg
        kind = ev[0]
        if kind == "enable":
            names, kw = list(ev[1]), real_kw(ev[2])
            o = call(lambda: reg.enable_contexts(*[s.anon.get(n, n) for n in names], **kw))
            if not is_failing(ev):
                s.model.extend((n, kw) for n in names)
            return o[:1] if o[0] == "ok" else o
        if kind == "to":
            names, kw = list(ev[1]), dict(ev[2])
            return call(lambda: fr(reg.Quantity(1, "ua").to("ub", *names, **kw).magnitude))
        if kind == "deco-raise":
            names, kw = list(ev[1]), dict(ev[2])

            def rbody():
                raise RuntimeError("raised inside the decorated function")

            o = call(lambda: reg.with_context(*names, **kw)(rbody)())
            return o
        if kind == "deco":
            names, kw = list(ev[1]), dict(ev[2])

            def body():
                return sorted(c.name for c in reg._active_ctx.contexts[: len(names)])  # the most recent ones come first

            o = call(lambda: reg.with_context(*names, **kw)(body)())
            return o if o[0] != "ok" else ["ok", [str(x) for x in o[1]]]
        if kind == "disable":
            n = ev[1]
            o = call(lambda: reg.disable_contexts(n))
            if n is None or n >= len(s.model):
                del s.model[:]
            else:
                del s.model[len(s.model) - n :]
            return o[:1]
        if kind == "with":
            names, kw = list(ev[1]), real_kw(ev[2])
            cm = reg.context(*names, **kw)
            o = call(cm.__enter__)
            if o[0] == "ok":
                s.blocks.append((cm, len(names)))
                s.model.extend((n, kw) for n in names)
                s.mblocks.append(len(names))
                return ["ok"]
            return o
        if kind == "exit":
            cm, n = s.blocks.pop()
            o = call(lambda: cm.__exit__(None, None, None))
            k = s.mblocks.pop()
            del s.model[max(0, len(s.model) - k) :]
            return o[:1]
        if kind == "raise":
            outs = []
            while s.blocks:
                cm, n = s.blocks.pop()
                # an ordinary error, or a BaseException that is not an Exception (Ctrl-C, a generator being closed):
                # the block is left either way
                cls = {"KeyboardInterrupt": KeyboardInterrupt, "GeneratorExit": GeneratorExit}.get(ev[1] if len(ev) > 1 else "", RuntimeError)
                err = cls("raised inside the with-block")

                def leave():
                    try:
                        return cm.__exit__(cls, err, None)
                    except BaseException as e:  # noqa  (the manager re-raises what it was given)
                        if e is err:
                            return False
                        raise

                outs.append(call(leave)[0])
                k = s.mblocks.pop()
                del s.model[max(0, len(s.model) - k) :]
            return outs
        if kind == "fault":
            names, seam, k = list(ev[1]), ev[2], ev[3]
            return self.faulty_enable(s, names, seam, k)
        if kind == "define":
            o = call(lambda: reg.define(ev[1]))
            s.defined.append(ev[1])
            return o[:1]
        if kind == "q":
            if ev[1] == "base":
                return call(lambda: fr(reg.get_base_units("mile")[0]))
            if ev[1] == "kinds":
                return call(lambda: [fr(reg.Quantity(1, "pound").to("gram").magnitude), fr(reg.Quantity(1, "deg").to("ua").magnitude)])
            return call(lambda: fr(reg.convert(1, "foot", "ua")))
        raise core.HarnessError(ev)

    def faulty_enable(self, s, names, seam, k):
        """E3: the k-th call through `seam` during this activation raises"""
        reg = s.reg
        attr = {"redefine": "_redefine", "switch": "_switch_context_cache_and_units", "define": "define"}[seam]
        orig = getattr(reg, attr)
        state = {"n": 0}

        def wrapper(*a, **kw):
            i = state["n"]
            state["n"] += 1
            if i == k:
                raise InjectedFault(f"{seam}#{k}")
            return orig(*a, **kw)

        reg.__dict__[attr] = wrapper
        try:
            o = call(lambda: reg.enable_contexts(*names))
        finally:
            del reg.__dict__[attr]
        if o[0] == "ok":
            # the seam was not reached k+1 times: the activation succeeded and counts as a normal enable
            s.model.extend((n, {}) for n in names)
            return ["ok", "fault-not-reached"]
        return o

    def cleanup(self, s):
        # close still-open with-blocks explicitly so that the generators are not finalised by the GC later
        while s.blocks:
            cm, _ = s.blocks.pop()
            try:
                cm.__exit__(None, None, None)
            except Exception:  # noqa
                pass

    def fp(self, s, hist):
        d = vars(s.reg)
        keys = ("_units", "_cache", "_caches", "_context_units", "_base_units_cache", "_active_ctx", "_default_system_name")
        return explore.fingerprint({k: d[k] for k in keys if k in d}, extra=(len(s.blocks), tuple(n for _, n in s.blocks)))

    # ---- oracle
    def reference_obs(self, model, defined):
        key = (tuple((n, tuple(sorted(kw.items()))) for n, kw in model), tuple(defined))
        if key not in self._ref_cache:
            f = Sys()
            for d in defined:
                f.reg.define(d)
            for n, kw in model:
                f.reg.enable_contexts(f.anon.get(n, n), **kw)
            self._ref_cache[key] = probes(f.reg)
        return self._ref_cache[key]

    def outcome_oracle(self, acc, s, hist, outs):
        # failed activations must have raised (checked on every transition, also when nothing changed)
        last = hist[-1]
        if last[0] == "deco" and not is_failing(last):
            reg = s.reg
            want = ["ok", sorted(reg._contexts[n].name for n in last[1])]
            if outs[-1] != want:
                acc.violation(["decorator", "with_context", "contexts-not-active-inside-the-decorated-call", ""], {"history": [list(e) for e in hist], "outcomes": outs}, want, outs[-1])
        if last[0] == "deco-raise" and outs[-1][:2] != ["exc", "RuntimeError"] and tuple(outs[-1][:2]) != ("exc", "RuntimeError"):
            acc.violation(["decorator", "with_context", "exception-of-the-decorated-function-not-propagated", ""], {"history": [list(e) for e in hist], "outcomes": outs}, "RuntimeError", outs[-1])
        if is_failing(last) and outs[-1][0] == "ok" and outs[-1] != ["ok", "fault-not-reached"]:
            acc.violation(["atomicity", "enable_contexts", "failing-activation-did-not-raise", "failing-" + last[0]], {"history": [list(e) for e in hist], "outcomes": outs}, "an exception", outs[-1])

    def oracle(self, acc, s, hist, outs):
        if self._pristine_snap is None:
            p = Sys()
            self._pristine_snap = ctx_snapshot(p)
            self._other_ref = probes(p.other)
        last = hist[-1] if hist else ("init",)
        lkind = last[0] if not is_failing(last) else ("failing-" + last[0])
        case = {"history": [list(e) for e in hist], "outcomes": outs}
        # (2) the whole observation vector equals that of a fresh registry with the reference stack
        want = self.reference_obs(s.model, s.defined)
        got = probes(s.reg)
        acc.ev()
        for k in want:
            if got[k] != want[k]:
                clause = "atomicity" if hist and is_failing(last) else ("residue" if len(s.model) == 0 else "stack")
                if k == "newu->ua":
                    # a unit defined while a unit-redefining context is active (pint issue #1097 path): one stable site
                    acc.violation(["define-inside-context", k, "unit-defined-while-a-redefining-context-was-active-is-not-visible-afterwards", ""], dict(case, implied_stack=[[n, kw] for n, kw in s.model]), want[k], got[k])
                    continue
                if k in ("base(mile)", "to_base(mile)") and any(e[0] == "q" and e[1] == "base" for e in hist) or (k == "to_base(mile)" and got["base(mile)"] != want["base(mile)"]):
                    # get_base_units memoises per unit only: an answer computed under one context combination is
                    # returned under another (both directions); probes run in order, so to_base follows base
                    acc.violation(["base-units-cache", "get_base_units", "answer-memoised-under-another-context-combination", ""], dict(case, implied_stack=[[n, kw] for n, kw in s.model]), want[k], got[k])
                    continue
                acc.violation([clause, k, "differs-from-fresh-registry-with-the-implied-stack", lkind], dict(case, implied_stack=[[n, kw] for n, kw in s.model]), want[k], got[k])
        # (3) contexts are never modified by being activated; the other registry never changes
        snap = ctx_snapshot(s)
        if snap != self._pristine_snap:
            bad = [k for k in snap if snap[k] != self._pristine_snap[k]]
            acc.violation(["shared-context", bad[0], "context-object-modified-by-activation", lkind], case, self._pristine_snap[bad[0]], snap[bad[0]])
        o2 = probes(s.other)
        if o2 != self._other_ref:
            bad = [k for k in o2 if o2[k] != self._other_ref[k]]
            acc.violation(["shared-context", bad[0], "second-registry-sharing-a-context-changed", lkind], case, self._other_ref[bad[0]], o2[bad[0]])
        acc.sample({"history": [list(e) for e in hist], "implied_stack": [n for n, _ in s.model], "probes": {k: got[k] for k in ("A->B", "foot->ua", "stack")}}, limit=2)


def shards(tier, seed):
    depth = 3 if tier == "quick" else 4
    out = [("root", depth)]
    for e in EVENTS:
        out.append(("sub", depth, list(ev_key(e))))
    return out


def run_shard(acc, shard, tier, seed):
    maxf = 1 if tier == "quick" else 2
    drv = CtxDriver(maxf)
    depth = shard[1]
    if shard[0] == "root":
        explore.explore(drv, acc, 0, roots=[()])
        acc.dim("events", len(EVENTS))
        acc.dim("fault budget", maxf)
        return
    first = tuple(tuple(x) if isinstance(x, list) else x for x in shard[2])
    first = ev_key(first)
    if first not in drv.enabled(()):
        return
    explore.explore(drv, acc, depth, roots=[(first,)], oracle_on="new" if tier == "quick" else "all")


def replay(rec):
    site, case = rec["site"], rec["case"]
    acc = core.Acc(PROPERTY)
    drv = CtxDriver(9)
    hist = tuple(ev_key(e) for e in case["history"])
    s, outs = explore.run_history(drv, hist)
    if hist:
        drv.outcome_oracle(acc, s, hist, outs)  # the checks of the last event's own outcome
    drv.oracle(acc, s, hist, outs)
    sites = {tuple(v["site"]) for v in acc.violations}
    return tuple(site) in sites, {"sites_seen": sorted(sites)[:20], "outcomes": outs}


MANIFEST = {
    "category": "model_checking",
    "technique": "explicit-state BFS over activation histories on the real registry (fingerprint dedup, replay from scratch), reference stack model in lock-step, fault-point enumeration at every internal step of an activation, fresh-registry differential oracle",
    "text": "All histories up to depth 3 (4 thorough) over 29 events — enable in 9 selections (by name, alias, with parameters, several at once, a Python-made context shared with a second registry), per-call "
    "activation, disable(1), disable(), with-enter x3, with-exit, raise-inside-with (an Exception, KeyboardInterrupt, GeneratorExit), 4 naturally failing activations (dimensionality-changing redefinition, valid-then-invalid redefinitions, a good context followed "
    "by a bad one, unknown name), 5 activations with an injected fault at a chosen internal step (_redefine #k, define #k, the cache/unit-table switch), define, and two cache-touching queries — are replayed on the "
    "real registry with at most 1 (2) failing activations. In every state a 14-probe vector (rule conversions that identify the active rule by primes, redefined units and their dependents, root/base units, "
    "prefixed redefined unit, compatible units, the active stack) must equal that of a fresh registry on which exactly the reference stack was enabled; failed activations must leave everything unchanged; context "
    "objects and the second registry must be untouched.",
    "note": "Trusted: the list-based reference stack and the probe set. quick runs the oracle once per distinct state fingerprint (sound as far as the fingerprint covers the mutable registry state it names); "
    "thorough re-checks on every transition. Longer histories and other context shapes are outside the bound.",
    "ref": "DESIGN.md §4 C12",
}
MANIFEST["text"] += ' Registry options (on_redefinition, autoconvert modes) are among the probes that must be restored.'
MANIFEST["text"] += ' Two nameless Context objects that differ only in their redefinitions, and activations failing on an unhashable keyword value, are among the events.'
MANIFEST["text"] += " Decorated calls that raise, and contexts whose redefinition changes a unit's kind (scaled <-> offset) with a query touching both, are among the events."
MANIFEST["text"] += ' A removal count of zero and a with-block naming no context are among the events.'
