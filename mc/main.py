"""./check <ID> [--tier quick|thorough] | ./check <ID> --replay <file> | ./check --list"""
from __future__ import annotations

import argparse
import glob
import importlib
import json
import os
import subprocess
import sys
import time

from . import core


def driver_module(pid):
    pid = pid.upper()
    cands = glob.glob(os.path.join(core.HOME, "checks", pid.lower() + "_*.py")) + glob.glob(
        os.path.join(core.HOME, "checks", pid.lower() + ".py")
    )
    if not cands:
        raise SystemExit(f"no driver for {pid}")
    return "checks." + os.path.basename(cands[0])[:-3]


def main(argv=None):
    ap = argparse.ArgumentParser()
    ap.add_argument("pid", nargs="?")
    ap.add_argument("--tier", default=None)
    ap.add_argument("--replay", default=None)
    ap.add_argument("--list", action="store_true")
    ap.add_argument("--nproc", type=int, default=None)
    ap.add_argument("--no-reverify", action="store_true")
    a = ap.parse_args(argv)
    if a.list:
        for p in sorted(glob.glob(os.path.join(core.HOME, "checks", "c[0-9]*.py"))):
            print(os.path.basename(p))
        return 0
    tier = a.tier or os.environ.get("VERIF_TIER") or "quick"
    if tier not in ("quick", "thorough"):
        raise SystemExit("tier must be quick|thorough")
    try:
        seed = int(os.environ.get("VERIF_SEED", "0"))
    except ValueError:
        seed = 0
    sys.path.insert(0, core.HOME)
    core.boot()
    modname = driver_module(a.pid)
    mod = importlib.import_module(modname)

    if a.replay:
        with open(a.replay) as fh:
            rec = json.load(fh)
        violated, detail = mod.replay(rec)
        print(json.dumps({"reproduced": bool(violated), "site": rec["site"], "detail": core.jsonable(detail)}, indent=1, default=repr))
        if violated:
            print(f"VIOLATION property={mod.PROPERTY} replay={os.path.abspath(a.replay)}")
            return 1
        return 0

    t0 = time.time()
    shards = mod.shards(tier, seed)
    tot, crashes = core.run_shards(modname, shards, tier, seed, nproc=a.nproc)
    extra = None
    if hasattr(mod, "finalize"):
        extra = mod.finalize(tot, tier, seed)
    rc = core.finish(mod, tier, seed, tot, crashes, time.time() - t0, extra_cov=extra)
    if rc == 1 and not a.no_reverify and hasattr(mod, "replay"):
        # every reported violation must reproduce from its replay file in a FRESH process
        rdir = os.path.join(core.OUT, "replays", mod.PROPERTY)
        shown = [ln for ln in []]
        bad = 0
        import re

        # re-read the VIOLATION lines we printed by scanning the replay dir for this run's files
        for path in sorted(glob.glob(os.path.join(rdir, "*.json")), key=os.path.getmtime)[-5:]:
            if os.path.getmtime(path) < t0:
                continue
            with open(path) as fh:
                if "crash_shard" in fh.read(4000):
                    continue
            r = subprocess.run([os.path.join(core.HOME, "check"), a.pid, "--replay", path], capture_output=True, text=True)
            if r.returncode != 1:
                bad += 1
                print(f"HARNESS-ERROR: violation {path} did not reproduce in a fresh process (rc={r.returncode})", file=sys.stderr)
        if bad:
            return 2
    return rc


if __name__ == "__main__":
    sys.exit(main())
