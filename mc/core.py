"""Shared machinery: booting pint from the tree under test, per-shard accumulators,
deterministic sharding over worker processes, violation records, known findings, evidence.

Nothing here samples: drivers enumerate finite spaces completely and every counter written
to the evidence file is measured on the run that writes it.
"""
from __future__ import annotations

import collections
import hashlib
import importlib
import json
import multiprocessing as mp
import os
import subprocess
import sys
import time
import traceback
from fractions import Fraction
from decimal import Decimal

HOME = os.environ.get("VERIF_HOME") or os.path.dirname(os.path.dirname(os.path.abspath(__file__)))
# where evidence and replay files go: /verif itself for the registered commands; a scratch directory when the tools run a
# check against a scratch copy of the repository (tools/seedtest.sh, tools/verify_seed.sh), so that /verif/evidence only ever
# describes runs against /repo
OUT = os.environ.get("VERIF_OUT") or HOME
REPO = os.path.realpath(os.environ.get("VERIF_REPO", "/repo"))
NPROC = int(os.environ.get("VERIF_NPROC", "16"))
MAX_REPLAYS_PER_SITE = 3

_booted = False


def boot():
    """Import pint from the tree under test (never from an installed copy)."""
    global _booted
    if _booted:
        return sys.modules["pint"]
    if sys.path[0] != REPO:
        sys.path.insert(0, REPO)
    import pint  # noqa

    got = os.path.realpath(pint.__file__)
    if not got.startswith(REPO + os.sep):
        raise SystemExit(f"HARNESS-ERROR: pint imported from {got}, expected under {REPO}")
    _booted = True
    return pint


class HarnessError(Exception):
    pass


# --------------------------------------------------------------------------- JSON helpers


def jsonable(x, depth=0):
    """Lossy but readable JSON rendering, used only for evidence/replay *display* fields."""
    if depth > 8:
        return repr(x)
    if x is None or isinstance(x, (bool, int, str)):
        return x
    if isinstance(x, float):
        if x != x or x in (float("inf"), float("-inf")):
            return repr(x)
        return x
    if isinstance(x, (Fraction, Decimal)):
        return str(x)
    if isinstance(x, (list, tuple, set, frozenset)):
        seq = list(x)
        if isinstance(x, (set, frozenset)):
            seq = sorted(seq, key=repr)
        return [jsonable(i, depth + 1) for i in seq]
    if isinstance(x, dict):
        return {str(k): jsonable(v, depth + 1) for k, v in sorted(x.items(), key=lambda kv: repr(kv[0]))}
    if isinstance(x, BaseException):
        return f"{type(x).__name__}: {x}"
    return repr(x)


def stable_key(x) -> str:
    return hashlib.sha1(json.dumps(jsonable(x), sort_keys=True).encode()).hexdigest()


# --------------------------------------------------------------------------- accumulator


class Acc:
    """Per-shard accumulator. Its result() is a plain dict that pickles cheaply."""

    def __init__(self, prop):
        self.prop = prop
        self.evaluations = 0
        self.nontrivial = set()
        self.outcomes = collections.Counter()
        self.samples = []
        self.violations = []  # records kept (≤ MAX_REPLAYS_PER_SITE per site)
        self.site_counts = collections.Counter()
        self.counters = collections.Counter()
        self.caps = []
        self.dims = {}
        self.sets = collections.defaultdict(set)

    def add(self, name, key):
        """named set of distinct keys (e.g. state fingerprints), merged by union across shards"""
        self.sets[name].add(key)

    def ev(self, n=1):
        self.evaluations += n

    def nt(self, key):
        """Register a non-trivial case by its canonical key (hashable)."""
        self.nontrivial.add(hash(key))

    def outcome(self, label, n=1):
        self.outcomes[label] += n

    def sample(self, obj, limit=3):
        if len(self.samples) < limit:
            self.samples.append(jsonable(obj))

    def count(self, name, n=1):
        self.counters[name] += n

    def cap(self, text):
        self.caps.append(text)

    def dim(self, name, value):
        self.dims[name] = value

    def violation(self, site, case, expected, observed, config=None, replay=None):
        """site: list[str] naming WHAT failed (narrower than the property);
        case: JSON-native description sufficient for the driver's replay()."""
        site = [str(s) for s in site]
        k = tuple(site)
        self.site_counts[k] += 1
        if self.site_counts[k] <= MAX_REPLAYS_PER_SITE:
            self.violations.append(
                {
                    "property": self.prop,
                    "site": site,
                    "config": jsonable(config),
                    "case": case if replay is None else replay,
                    "case_display": jsonable(case),
                    "expected": jsonable(expected),
                    "observed": jsonable(observed),
                }
            )

    def result(self):
        return {
            "evaluations": self.evaluations,
            "nontrivial": self.nontrivial,
            "outcomes": dict(self.outcomes),
            "samples": self.samples,
            "violations": self.violations,
            "site_counts": {json.dumps(list(k)): v for k, v in self.site_counts.items()},
            "counters": dict(self.counters),
            "caps": self.caps,
            "dims": self.dims,
            "sets": {k: v for k, v in self.sets.items()},
        }


def merge(results):
    tot = {
        "evaluations": 0,
        "nontrivial": set(),
        "outcomes": collections.Counter(),
        "samples": [],
        "violations": [],
        "site_counts": collections.Counter(),
        "counters": collections.Counter(),
        "caps": [],
        "dims": {},
        "sets": collections.defaultdict(set),
    }
    for r in results:
        tot["evaluations"] += r["evaluations"]
        tot["nontrivial"] |= r["nontrivial"]
        tot["outcomes"].update(r["outcomes"])
        tot["samples"].extend(r["samples"])
        tot["violations"].extend(r["violations"])
        tot["site_counts"].update(r["site_counts"])
        tot["counters"].update(r["counters"])
        tot["caps"].extend(r["caps"])
        for k, v in r["dims"].items():
            if isinstance(v, int) and isinstance(tot["dims"].get(k), int) and k.startswith("max_"):
                tot["dims"][k] = max(tot["dims"][k], v)
            else:
                tot["dims"].setdefault(k, v)
        for k, v in r.get("sets", {}).items():
            tot["sets"][k] |= v
    return tot


# --------------------------------------------------------------------------- workers


def _pint_frames(tb):
    out = []
    for fr in traceback.extract_tb(tb):
        fn = os.path.realpath(fr.filename)
        if fn.startswith(REPO + os.sep):
            out.append(f"{os.path.relpath(fn, REPO)}:{fr.name}")
    return out


def _worker(job):
    modname, shard, tier, seed = job
    try:
        boot()
        mod = importlib.import_module(modname)
        acc = Acc(mod.PROPERTY)
        t0 = time.time()
        mod.run_shard(acc, shard, tier, seed)
        res = acc.result()
        res["wall"] = time.time() - t0
        if os.environ.get("VERIF_DEBUG"):
            print(f"  shard {jsonable(shard)} wall={res['wall']:.1f}s", file=sys.stderr)
        return ("ok", res)
    except BaseException as e:  # noqa
        frames = _pint_frames(e.__traceback__)
        return ("crash", {"shard": jsonable(shard), "exc": f"{type(e).__name__}: {e}", "pint_frames": frames, "tb": traceback.format_exc()})


def run_shards(modname, shards, tier, seed, nproc=None):
    """Run every shard (all of them: the partition is the enumeration) on a pool of
    long-lived forked workers; results are merged in shard order, so output is deterministic."""
    nproc = nproc or NPROC
    jobs = [(modname, s, tier, seed) for s in shards]
    if nproc <= 1 or len(jobs) <= 1:
        outs = [_worker(j) for j in jobs]
    else:
        ctx = mp.get_context("fork")
        with ctx.Pool(min(nproc, len(jobs))) as pool:
            outs = list(pool.imap(_worker, jobs, chunksize=1))
    good, crashes = [], []
    for tag, r in outs:
        (good if tag == "ok" else crashes).append(r)
    return merge(good), crashes


# --------------------------------------------------------------------------- known findings


def load_findings():
    p = os.path.join(HOME, "known_findings.json")
    if not os.path.exists(p):
        return []
    with open(p) as f:
        return json.load(f).get("findings", [])


def match_finding(findings, prop, site):
    for f in findings:
        if f.get("status", "known") != "known":
            continue  # fixed entries are documentation only and suppress nothing
        if f["property"] == prop and list(f["site"]) == list(site):
            return f
    return None


# --------------------------------------------------------------------------- finishing a run


def finish(mod, tier, seed, tot, crashes, wall, extra_cov=None):
    prop = mod.PROPERTY
    level = mod.LEVEL
    findings = load_findings()
    rdir = os.path.join(OUT, "replays", prop)
    os.makedirs(rdir, exist_ok=True)

    # crashes inside pint code on cases the unchanged tree handles are violations; crashes in
    # harness code only are harness errors (exit 2), never a VIOLATION line.
    harness_errors = []
    for c in crashes:
        if c["pint_frames"]:
            site = ["harness", "unexpected-exception", c["exc"].split(":")[0], c["pint_frames"][-1]]
            rec = {"property": prop, "site": site, "config": None, "case": {"crash_shard": c["shard"]},
                   "case_display": c["shard"], "expected": "no exception escaping the driver", "observed": c["exc"], "tb": c["tb"]}
            tot["violations"].append(rec)
            tot["site_counts"][json.dumps(site)] += 1
        else:
            harness_errors.append(c)

    known_hits = collections.OrderedDict()
    new_sites = collections.OrderedDict()
    for v in tot["violations"]:
        f = match_finding(findings, prop, v["site"])
        key = json.dumps(v["site"])
        if f is not None:
            known_hits.setdefault(key, (f, v))
        else:
            new_sites.setdefault(key, []).append(v)

    lines = []
    for key, (f, v) in known_hits.items():
        lines.append(f"KNOWN-FINDING: property={prop} {f['what']}  [site={key} occurrences={tot['site_counts'].get(key, 1)}]")
    nviol = 0
    for key, vs in new_sites.items():
        for i, v in enumerate(vs[:MAX_REPLAYS_PER_SITE]):
            name = stable_key([v["site"], v["case_display"], v["config"]])[:16] + ".json"
            path = os.path.join(rdir, name)
            v = dict(v)
            v["tier"], v["seed"] = tier, seed
            with open(path, "w") as fh:
                json.dump(v, fh, indent=1, default=repr)
            if i == 0:
                lines.append(f"VIOLATION property={prop} replay={path}")
                lines.append(f"  site={key} occurrences={tot['site_counts'].get(key, 1)}")
                lines.append(f"  case={json.dumps(v['case_display'], default=repr)[:400]}")
                lines.append(f"  expected={json.dumps(v['expected'], default=repr)[:300]}")
                lines.append(f"  observed={json.dumps(v['observed'], default=repr)[:300]}")
        nviol += 1

    cov = {
        "evaluations": tot["evaluations"],
        "distinct_nontrivial": len(tot["nontrivial"]),
        "rule": getattr(mod, "RULE", ""),
        "samples": tot["samples"][:6] or ["(none)"],
        "exhaustive": not tot["caps"],
        "distinct_outcomes": len(tot["outcomes"]),
        "outcomes": dict(sorted(tot["outcomes"].items(), key=lambda kv: -kv[1])[:40]),
        "dimensions": tot["dims"],
        "counters": dict(tot["counters"]),
        "caps_hit": tot["caps"],
        "known_findings_matched": [json.loads(k) for k in known_hits],
        "violating_sites": [json.loads(k) for k in new_sites],
        "site_grammar": getattr(mod, "SITE_GRAMMAR", ""),
    }
    if level == "model_checking":
        cov["states"] = len(tot["sets"].get("states", ())) or int(tot["counters"].get("states", 0))
        cov["transitions"] = int(tot["counters"].get("transitions", 0))
        cov["traces_validated_against_impl"] = int(tot["counters"].get("traces_validated_against_impl", 0))
    if extra_cov:
        cov.update(extra_cov)
    ev = {
        "property_id": prop,
        "tier": tier,
        "seed": seed,
        "level": level,
        "coverage": cov,
        "assumptions": list(getattr(mod, "ASSUMPTIONS", [])),
        "wall_s": round(wall, 3),
        "violations": nviol,
    }
    os.makedirs(os.path.join(OUT, "evidence"), exist_ok=True)
    with open(os.path.join(OUT, "evidence", f"{prop}.json"), "w") as fh:
        json.dump(ev, fh, indent=1, default=repr)

    for ln in lines:
        print(ln)
    print(
        f"[{prop} {tier} seed={seed}] evaluations={cov['evaluations']} distinct_nontrivial={cov['distinct_nontrivial']} "
        f"outcomes={cov['distinct_outcomes']} known={len(known_hits)} violations={nviol} exhaustive={cov['exhaustive']} wall={wall:.1f}s"
        + (f" states={cov['states']} transitions={cov['transitions']}" if level == "model_checking" else "")
    )
    if harness_errors:
        for c in harness_errors:
            print("HARNESS-ERROR in shard", c["shard"], c["exc"])
            print("HARNESS-ERROR in shard", c["shard"], c["exc"], file=sys.stderr)
            print(c["tb"], file=sys.stderr)
        return 2
    return 1 if nviol else 0
