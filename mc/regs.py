"""Registries used by the drivers: the bundled default one in its configurations and tiny
generated ones (a few ms to build, so every explored history can start from a fresh one)."""
from __future__ import annotations

import copy
import functools
from decimal import Decimal
from fractions import Fraction

from . import core

NIT = {"float": float, "Fraction": Fraction, "Decimal": Decimal}


def clear_process_caches():
    """Process-wide memo tables pint keeps outside any registry (owned nondeterminism:
    a history that should not be about them starts from empty ones)."""
    pint = core.boot()
    from pint.util import ParserHelper

    ParserHelper.from_string.__func__.cache_clear() if hasattr(ParserHelper.from_string, "__func__") else None
    try:
        ParserHelper.from_string.cache_clear()
    except AttributeError:
        pass
    import pint.facets.plain.registry as pr

    for name in ("pattern_to_regex",):
        f = getattr(pr, name, None)
        if f is not None and hasattr(f, "cache_clear"):
            f.cache_clear()
    try:
        import pint.delegates.formatter._spec_helpers as sh

        for name in dir(sh):
            f = getattr(sh, name)
            if hasattr(f, "cache_clear"):
                f.cache_clear()
    except Exception:
        pass


_default_cache = {}


def default(non_int_type="float", fresh=False, **kw):
    """The bundled registry. Cached per configuration unless fresh=True."""
    pint = core.boot()
    key = (non_int_type, tuple(sorted(kw.items())))
    if fresh or key not in _default_cache:
        args = dict(kw)
        if non_int_type != "float":
            args["non_int_type"] = NIT[non_int_type]
        reg = pint.UnitRegistry(cache_folder=None, **args)
        if fresh:
            return reg
        _default_cache[key] = reg
    return _default_cache[key]


TINY_LINES = """
kilo- = 1e3 = k-
milli- = 1e-3 = m-
centi- = 1e-2 = c-
mega- = 1e6 = M-
meter = [length] = m = metre
second = [time] = s = sec
gram = [mass] = g
kelvin = [temperature]; offset: 0 = K
radian = [] = rad
count = []
[speed] = [length] / [time]
[area] = [length] ** 2
[frequency] = 1 / [time]
[force] = [mass] * [length] / [time] ** 2
inch = 0.0254 * meter = in
foot = 12 * inch = ft
mile = 5280 * foot = mi
minute = 60 * second = min
hour = 60 * minute = h = hr
pound = 0.5 * kilogram = lb
percent = 0.01 = %
hertz = 1 / second = Hz
newton = kilogram * meter / second ** 2 = N
degC = kelvin; offset: 273.15 = celsius
degF = 5 / 9 * kelvin; offset: 233.15 + 200 / 9 = fahrenheit
hectare = 10000 * meter ** 2 = ha
""".strip().splitlines()


def tiny(lines=None, non_int_type="float", **kw):
    pint = core.boot()
    args = dict(kw)
    if non_int_type != "float":
        args["non_int_type"] = NIT[non_int_type]
    return pint.UnitRegistry(list(lines if lines is not None else TINY_LINES), cache_folder=None, **args)
