"""R1 — an independent reader of pint definition files.

Shares no code with pint (no pint import at all): own line splitter, own recursive-descent
arithmetic parser, exact monomial algebra  Fraction x prod(radicals) x prod(name ** p/q).
From the text it derives, per unit spelling: canonical name, symbol, aliases, exact root factor,
root-unit vector, base-dimension vector, converter kind (scale / offset / log), and for the
whole file: prefixes, groups (with `using` closure), systems (rules), contexts (rules,
defaults, redefinitions), defaults.  It also implements R4, the name-resolution model.
"""
from __future__ import annotations

import os
import re
from decimal import Decimal, getcontext, localcontext
from fractions import Fraction


class DefError(Exception):
    pass


# --------------------------------------------------------------------------- monomials


def _iroot(n: int, k: int):
    """exact integer k-th root of n>=0 or None"""
    if n < 0:
        return None
    if n in (0, 1):
        return n
    if k > 64:
        return None  # (only reached for float-noise exponents such as 0.333...; never exact)
    lo, hi = 0, 1 << ((n.bit_length() + k - 1) // k + 1)
    while lo < hi:
        mid = (lo + hi) // 2
        if mid**k < n:
            lo = mid + 1
        else:
            hi = mid
    return lo if lo**k == n else None


class Mono:
    """coef * prod(base ** exp for radicals) * prod(name ** exp for units)

    `frac_step` records that a non-integer power was applied somewhere along the way: such
    a quantity is *not rational* in the sense of the exactness clauses (pint necessarily goes
    through a float there), even if the radicals cancel in the end."""

    __slots__ = ("coef", "rad", "units", "frac_step")

    def __init__(self, coef=1, units=None, rad=None, frac_step=False):
        self.coef = Fraction(coef)
        self.units = {k: Fraction(v) for k, v in (units or {}).items() if v != 0}
        self.rad = {Fraction(k): Fraction(v) for k, v in (rad or {}).items() if v != 0}
        self.frac_step = frac_step

    def copy(self):
        return Mono(self.coef, self.units, self.rad, self.frac_step)

    @property
    def is_number(self):
        return not self.units

    def _norm(self):
        # fold radicals with integral exponents back into the coefficient
        for b in list(self.rad):
            e = self.rad[b]
            if e.denominator == 1:
                self.coef *= b ** int(e)
                del self.rad[b]
            elif abs(e) >= 1:
                ip = int(e) if e > 0 else -int(-e)
                self.coef *= b**ip
                self.rad[b] = e - ip
                if self.rad[b] == 0:
                    del self.rad[b]
        return self

    def __mul__(self, o):
        if not isinstance(o, Mono):
            o = Mono(o)
        r = Mono(self.coef * o.coef, self.units, self.rad, self.frac_step or o.frac_step)
        for k, v in o.units.items():
            r.units[k] = r.units.get(k, 0) + v
            if r.units[k] == 0:
                del r.units[k]
        for k, v in o.rad.items():
            r.rad[k] = r.rad.get(k, 0) + v
            if r.rad[k] == 0:
                del r.rad[k]
        return r._norm()

    def __pow__(self, p):
        p = Fraction(p)
        r = Mono(1, {k: v * p for k, v in self.units.items()}, {k: v * p for k, v in self.rad.items()}, self.frac_step or p.denominator != 1)
        if p.denominator == 1:
            if self.coef == 0 and p < 0:
                raise DefError("division by zero")
            r.coef = self.coef ** int(p)
        else:
            c = self.coef
            if c < 0:
                raise DefError("fractional power of a negative number")
            if c not in (0, 1):
                rn, rd = _iroot(c.numerator, p.denominator), _iroot(c.denominator, p.denominator)
                if rn is not None and rd is not None:
                    r.coef = Fraction(rn, rd) ** p.numerator
                else:
                    r.rad[c] = r.rad.get(c, 0) + p
            else:
                r.coef = c
        return r._norm()

    def __truediv__(self, o):
        if not isinstance(o, Mono):
            o = Mono(o)
        return self * (o ** -1)

    def number(self) -> Fraction:
        if self.units or self.rad:
            raise DefError("not a rational number")
        return self.coef

    def dec(self, prec=60) -> Decimal:
        """numeric value of the coefficient part to `prec` digits"""
        with localcontext() as ctx:
            ctx.prec = prec + 10
            v = Decimal(self.coef.numerator) / Decimal(self.coef.denominator)
            for b, e in self.rad.items():
                bb = Decimal(b.numerator) / Decimal(b.denominator)
                v *= (bb.ln() * (Decimal(e.numerator) / Decimal(e.denominator))).exp()
            ctx.prec = prec
            return +v

    @property
    def rational(self):
        return not self.rad and not self.frac_step

    def __repr__(self):
        return f"Mono({self.coef}, {dict(self.units)}, rad={dict(self.rad)}, frac_step={self.frac_step})"


# --------------------------------------------------------------------------- expression parser

_TOK = re.compile(
    r"\s*(?:(?P<num>(?:\d+\.?\d*|\.\d+)(?:[eE][+-]?\d+)?)|(?P<op>\*\*|[*/^()+\-])|(?P<name>[^\s*/^()+\-]+))"
)


def tokenize(s):
    pos, out = 0, []
    s = s.strip()
    while pos < len(s):
        m = _TOK.match(s, pos)
        if not m:
            raise DefError(f"cannot tokenise {s!r} at {pos}")
        pos = m.end()
        if m.group("num") is not None:
            out.append(("num", m.group("num")))
        elif m.group("op") is not None:
            out.append(("op", m.group("op")))
        else:
            out.append(("name", m.group("name")))
    return out


def num_fraction(text) -> Fraction:
    return Fraction(Decimal(text))


class ExprParser:
    """expr := term (('+'|'-') term)* ; term := factor (('*'|'/'|juxtaposition) factor)* ;
    factor := ('+'|'-') factor | atom (('**'|'^') factor)? ; atom := NUMBER | NAME | '(' expr ')'"""

    def __init__(self, text):
        self.toks = tokenize(text)
        self.i = 0

    def peek(self):
        return self.toks[self.i] if self.i < len(self.toks) else (None, None)

    def take(self):
        t = self.peek()
        self.i += 1
        return t

    def parse(self) -> Mono:
        if not self.toks:
            raise DefError("empty expression")
        v = self.expr()
        if self.i != len(self.toks):
            raise DefError(f"trailing tokens {self.toks[self.i:]}")
        return v

    def expr(self):
        v = self.term()
        while self.peek() in (("op", "+"), ("op", "-")):
            op = self.take()[1]
            w = self.term()
            if v.units or w.units or v.rad or w.rad:
                raise DefError("sum of non-numbers")
            v = Mono(v.coef + w.coef if op == "+" else v.coef - w.coef, frac_step=v.frac_step or w.frac_step)
        return v

    def term(self):
        v = self.factor()
        while True:
            k, t = self.peek()
            if (k, t) == ("op", "*"):
                self.take()
                v = v * self.factor()
            elif (k, t) == ("op", "/"):
                self.take()
                v = v / self.factor()
            elif k in ("num", "name") or (k, t) == ("op", "("):
                v = v * self.factor()
            else:
                return v

    def factor(self):
        k, t = self.peek()
        if (k, t) == ("op", "-"):
            self.take()
            return self.factor() * Mono(-1)
        if (k, t) == ("op", "+"):
            self.take()
            return self.factor()
        a = self.atom()
        if self.peek() in (("op", "**"), ("op", "^")):
            self.take()
            e = self.factor()
            return a ** e.number()
        return a

    def atom(self):
        k, t = self.take()
        if k == "num":
            return Mono(num_fraction(t))
        if k == "name":
            return Mono(1, {t: 1})
        if (k, t) == ("op", "("):
            v = self.expr()
            if self.take() != ("op", ")"):
                raise DefError("missing )")
            return v
        raise DefError(f"unexpected token {t!r}")


def parse_expr(text) -> Mono:
    return ExprParser(text).parse()


# --------------------------------------------------------------------------- file model


class UnitDef:
    def __init__(self, name, expr, symbol, aliases, modifiers, group=None, lineno=0):
        self.name, self.expr, self.symbol_given, self.aliases = name, expr, symbol, tuple(aliases)
        self.modifiers = modifiers  # {'offset': Fraction} or {'logbase':..., 'logfactor':...}
        self.group = group
        self.lineno = lineno

    @property
    def symbol(self):
        return self.symbol_given if self.symbol_given else self.name

    @property
    def kind(self):
        if "logbase" in self.modifiers or "logfactor" in self.modifiers:
            return "log"
        if "offset" in self.modifiers:
            return "offset"  # NB offset 0 (kelvin, degR) is multiplicative for pint
        return "scale"

    @property
    def is_multiplicative(self):
        if self.kind == "log":
            return False
        return self.modifiers.get("offset", 0) == 0

    def spellings(self):
        out = [self.name]
        if self.symbol_given:
            out.append(self.symbol_given)
        out.extend(self.aliases)
        return out


class PrefixDef:
    def __init__(self, name, value: Mono, symbol, aliases):
        self.name, self.value, self.symbol_given, self.aliases = name, value, symbol, tuple(aliases)

    @property
    def symbol(self):
        return self.symbol_given if self.symbol_given else self.name

    def spellings(self):
        out = [self.name]
        if self.symbol_given:
            out.append(self.symbol_given)
        out.extend(self.aliases)
        return out


class Model:
    def __init__(self):
        self.prefixes = {}  # canonical name -> PrefixDef (definition order)
        self.units = {}  # canonical name -> UnitDef
        self.dimensions = {}  # '[x]' -> expr text or None (base)
        self.groups = {}  # name -> {'units': [...], 'using': [...]}
        self.systems = {}  # name -> {'rules': [(new, old|None)], 'using': [...]}
        self.contexts = {}  # name -> {'aliases', 'defaults', 'rules', 'redefs'}
        self.defaults = {}
        self.order = []  # definition order of unit canonical names
        self._spell = None
        self._pspell = None
        self._root_cache = {}
        self._dim_cache = {}

    # ---- spellings
    def spelling_table(self):
        """every defined unit spelling -> canonical name (later definitions win, as in a dict)"""
        if self._spell is None:
            t = {}
            for u in self.units.values():
                for s in u.spellings():
                    t[s] = u.name
            self._spell = t
        return self._spell

    def prefix_table(self):
        if self._pspell is None:
            t = {}
            for p in self.prefixes.values():
                for s in p.spellings():
                    t[s] = p.name
            self._pspell = t
        return self._pspell

    def invalidate(self):
        self._spell = self._pspell = None
        self._root_cache.clear()
        self._dim_cache.clear()

    # ---- R4: name resolution
    def readings(self, s, case_sensitive=True):
        """All readings (prefix canonical name or '', unit canonical name) of a string, in
        preference order: exact spelling first; then un-pluralised before plural, prefixes in
        definition order. One-letter stems are not de-pluralised. Equivalent readings
        (kilo+gram vs kilogram if both defined) are merged, preferring the prefixed one."""
        st, pt = self.spelling_table(), self.prefix_table()
        out = []

        def unit_matches(stem):
            if case_sensitive:
                return [st[stem]] if stem in st else []
            low = stem.lower()
            return [st[k] for k in st if k.lower() == low]

        for suffix in ("", "s"):
            if suffix and not s.endswith(suffix):
                continue
            for pspell, pname in [("", "")] + list(pt.items()):
                if not s.startswith(pspell):
                    continue
                stem = s[len(pspell) :]
                if suffix:
                    stem = stem[: -len(suffix)]
                    if len(stem) == 1:
                        continue
                for uname in unit_matches(stem):
                    if (pname, uname) not in out:
                        out.append((pname, uname))
        for p, u in list(out):
            if p and ("", p + u) in out:
                out.remove(("", p + u))
        return out

    def resolve(self, s, case_sensitive=True):
        """canonical (prefix, unit) or raise DefError; exact spelling wins."""
        st = self.spelling_table()
        if s in st:
            return ("", st[s])
        r = self.readings(s, case_sensitive)
        if not r:
            raise DefError(f"undefined unit {s!r}")
        return r[0]

    # ---- expansion
    def unit_mono(self, name) -> Mono:
        """definition of canonical unit `name` as Mono over *spellings as written*"""
        return parse_expr(self.units[name].expr)

    def is_base(self, name):
        e = self.units[name].expr.strip()
        return e.startswith("[")

    def root(self, spelling, _stack=()) -> Mono:
        """exact root factor and root units of a (possibly prefixed / plural) spelling"""
        if spelling in self._root_cache:
            return self._root_cache[spelling]
        p, u = self.resolve(spelling)
        if (p, u) in _stack:
            raise DefError(f"cycle through {u}")
        if self.is_base(u):
            m = Mono(1, {u: 1})
        else:
            d = self.unit_mono(u)
            m = Mono(d.coef, None, d.rad, d.frac_step)
            for ref, e in d.units.items():
                m = m * (self.root(ref, _stack + ((p, u),)) ** e)
        if p:
            m = m * self.prefixes[p].value
        self._root_cache[spelling] = m
        return m

    def root_of_units(self, units: dict) -> Mono:
        m = Mono(1)
        for k, e in units.items():
            m = m * (self.root(k) ** Fraction(e))
        return m

    def base_dim_of_unit(self, base_unit_name) -> dict:
        e = self.units[base_unit_name].expr.strip()
        if e == "[]":
            return {}
        return self.dim_expand(parse_expr(e)).units

    def dim_expand(self, m: Mono, _stack=()) -> Mono:
        out = Mono(1)
        for d, e in m.units.items():
            if d == "[]":
                continue
            if not d.startswith("["):
                raise DefError(f"unit reference {d!r} in a dimension expression")
            if d in _stack:
                raise DefError("dimension cycle")
            if d not in self.dimensions or self.dimensions[d] is None:
                out = out * (Mono(1, {d: 1}) ** e)
            else:
                out = out * (self.dim_expand(parse_expr(self.dimensions[d]), _stack + (d,)) ** e)
        return out

    def dim(self, spelling) -> dict:
        """base-dimension vector {'[length]': Fraction} of a spelling"""
        if spelling in self._dim_cache:
            return self._dim_cache[spelling]
        r = self.root(spelling)
        out = Mono(1)
        for bu, e in r.units.items():
            out = out * (Mono(1, self.base_dim_of_unit(bu)) ** e)
        self._dim_cache[spelling] = dict(out.units)
        return self._dim_cache[spelling]

    def dim_of_units(self, units: dict) -> dict:
        out = Mono(1)
        for k, e in units.items():
            out = out * (Mono(1, self.dim(k)) ** Fraction(e))
        return dict(out.units)

    def rational_unit(self, spelling) -> bool:
        return self.root(spelling).rational

    # ---- groups / systems
    def group_members(self, g, _seen=None) -> set:
        _seen = _seen or set()
        if g in _seen:
            return set()
        _seen.add(g)
        if g == "root":
            return self.root_group_members()
        decl = self.groups.get(g, {"units": [], "using": []})
        if g not in self.groups and g != self.defaults.get("group"):
            raise DefError(f"unknown group {g}")
        out = set(decl["units"])
        if g == self.defaults.get("group"):
            out |= self.orphans()
        for h in decl["using"]:
            out |= self.group_members(h, _seen)
        return out

    def orphans(self) -> set:
        """units defined outside every @group block: they form the default group"""
        grouped = set()
        for g in self.groups.values():
            grouped |= set(g["units"])
        return {n for n in self.units if n not in grouped and not hasattr(self.units[n], "is_delta_of")}

    def root_group_members(self) -> set:
        """the implicit 'root' group: every unit written in the files (auto-generated delta_ units are not members)"""
        return {n for n in self.units if not hasattr(self.units[n], "is_delta_of")}

    def system_members(self, s) -> set:
        out = set()
        # "If the system has no group, it automatically uses the root group" (documented in the system header syntax)
        for g in self.systems[s]["using"] or ["root"]:
            out |= self.group_members(g)
        return out


# --------------------------------------------------------------------------- reader

_RULE = re.compile(r"^(?P<src>[^:]*?)\s*(?P<arrow><->|->)\s*(?P<dst>[^:]*?)\s*:\s*(?P<eq>.*)$")


def strip_comment(line):
    i = line.find("#")
    return (line if i < 0 else line[:i]).rstrip()


def split_eq(line):
    return [p.strip() for p in line.split("=")]


def read(path_or_lines, base_dir=None, model=None) -> Model:
    m = model or Model()
    if isinstance(path_or_lines, (list, tuple)):
        lines = list(path_or_lines)
    else:
        base_dir = os.path.dirname(os.path.abspath(path_or_lines))
        with open(path_or_lines, encoding="utf-8") as fh:
            lines = fh.read().splitlines()
    block = None  # (kind, name, payload)
    for lineno, raw in enumerate(lines, 1):
        line = strip_comment(raw).strip()
        if not line:
            continue
        if line.startswith("@end"):
            if block is None:
                raise DefError(f"line {lineno}: @end without block")
            block = None
            continue
        if line.startswith("@"):
            if block is not None:
                raise DefError(f"line {lineno}: directive inside a block")
            head = line.split(None, 1)
            directive = head[0]
            rest = head[1] if len(head) > 1 else ""
            if directive == "@import":
                if base_dir is None:
                    raise DefError("@import without a base directory")
                read(os.path.join(base_dir, rest.strip()), model=m)
            elif directive == "@defaults":
                block = ("defaults", None, None)
            elif directive == "@group":
                parts = re.split(r"\s+using\s+", rest)
                name = parts[0].strip()
                using = [x.strip() for x in parts[1].split(",")] if len(parts) > 1 else []
                m.groups[name] = {"units": [], "using": using}
                block = ("group", name, None)
            elif directive == "@system":
                parts = re.split(r"\s+using\s+", rest)
                name = parts[0].strip()
                using = [x.strip() for x in parts[1].split(",")] if len(parts) > 1 else []
                m.systems[name] = {"rules": [], "using": using}
                block = ("system", name, None)
            elif directive.startswith("@context"):
                mm = re.match(r"^@context\s*(?:\((?P<defs>[^)]*)\))?\s*(?P<names>.*)$", line)
                defaults = {}
                if mm.group("defs"):
                    for kv in mm.group("defs").split(","):
                        k, v = kv.split("=")
                        defaults[k.strip()] = v.strip()
                names = split_eq(mm.group("names"))
                m.contexts[names[0]] = {"aliases": names[1:], "defaults": defaults, "rules": [], "redefs": []}
                block = ("context", names[0], None)
            elif directive == "@alias":
                parts = split_eq(rest)
                tgt = m.spelling_table().get(parts[0], parts[0])
                if tgt not in m.units:
                    raise DefError(f"line {lineno}: alias of unknown unit {parts[0]}")
                m.units[tgt].aliases = tuple(m.units[tgt].aliases) + tuple(parts[1:])
                m.invalidate()
            else:
                raise DefError(f"line {lineno}: unknown directive {directive}")
            continue
        if block is not None and block[0] == "defaults":
            k, v = split_eq(line)
            m.defaults[k] = v
            continue
        if block is not None and block[0] == "system":
            if ":" in line:
                new, old = [x.strip() for x in line.split(":")]
            else:
                new, old = line.strip(), None
            m.systems[block[1]]["rules"].append((new, old))
            continue
        if block is not None and block[0] == "context":
            mm = _RULE.match(line)
            if mm:
                m.contexts[block[1]]["rules"].append((mm.group("src").strip(), mm.group("dst").strip(), mm.group("arrow") == "<->", mm.group("eq").strip()))
            else:
                parts = split_eq(line)
                m.contexts[block[1]]["redefs"].append((parts[0], parts[1]))
            continue
        # plain definition line (possibly inside a group)
        parts = split_eq(line)
        if len(parts) < 2:
            raise DefError(f"line {lineno}: no '=' in {line!r}")
        name = parts[0]
        if name.startswith("["):
            m.dimensions[name] = parts[1]
            for d in parse_expr(parts[1]).units:
                m.dimensions.setdefault(d, None)
            continue
        value_and_mods = [x.strip() for x in parts[1].split(";")]
        expr = value_and_mods[0]
        mods = {}
        for md in value_and_mods[1:]:
            k, v = md.split(":")
            mods[k.strip()] = parse_expr(v).number()
        symbol = parts[2] if len(parts) > 2 and parts[2] != "_" else None
        aliases = [a for a in parts[3:] if a != "_"]
        if name.endswith("-"):
            m.prefixes[name[:-1]] = PrefixDef(name[:-1], parse_expr(expr), symbol[:-1] if symbol else None, [a.rstrip("-") for a in aliases])
            m.invalidate()
            continue
        u = UnitDef(name, expr, symbol, aliases, mods, group=block[1] if block and block[0] == "group" else None, lineno=lineno)
        m.units[name] = u
        m.order.append(name)
        if expr.startswith("[") and expr != "[]":
            for d in parse_expr(expr).units:
                m.dimensions.setdefault(d, None)
        if u.group:
            m.groups[u.group]["units"].append(name)
        if not u.is_multiplicative and u.kind == "offset":
            d = UnitDef("delta_" + name, expr, ("Δ" + symbol) if symbol else None, ["Δ" + a for a in aliases] + ["delta_" + a for a in aliases], {}, group=None, lineno=lineno)
            d.is_delta_of = name
            m.units[d.name] = d
            m.order.append(d.name)
        m.invalidate()
    if block is not None:
        raise DefError("unterminated block")
    return m


_default_model = {}


def default_model(repo):
    """the bundled definition files of the tree under test, read by R1"""
    path = os.path.join(repo, "pint", "default_en.txt")
    key = (path, os.path.getmtime(path), os.path.getmtime(os.path.join(repo, "pint", "constants_en.txt")))
    if key not in _default_model:
        _default_model.clear()
        _default_model[key] = read(path)
    return _default_model[key]
