"""E2 — explicit-state exploration of event histories on the REAL implementation.

A state is the event history that reaches it (live registries neither copy cheaply nor
faithfully).  For every dequeued history h and every enabled event e the driver builds a fresh
system, replays h+[e] on it (the outcomes of the prefix must be identical to the ones recorded
when the prefix was first explored — divergence is a hard harness error), runs the oracle, and
enqueues h+[e] iff the structural fingerprint of the reached state is new.  Breadth-first, so
the first counter-example is a shortest one.

canon()/fingerprint() serialise *whatever is reachable* from an object's __dict__ with
identities replaced by stable labels; the abstraction errs on the fine side (costs time, cannot
merge states with different futures)."""
from __future__ import annotations

import collections
import dataclasses
import enum
import hashlib
import types
from decimal import Decimal
from fractions import Fraction


class Divergence(Exception):
    pass


# --------------------------------------------------------------------------- canonical structural form

_SKIP_ATTRS = {
    # static per-registry machinery: classes generated at construction, parser, formatter, file names
    "Quantity", "Unit", "Measurement", "Group", "System", "Context", "UnitsContainer", "_def_parser", "formatter", "_diskcache",
    "_filename", "preprocessors", "_adders", "_subclasses", "_initialized", "_REGISTRY", "_registry", "registry",
}


def canon(x, depth=0, seen=None, skip=_SKIP_ATTRS):
    if seen is None:
        seen = {}
    if isinstance(x, int) and not isinstance(x, bool) and abs(x) >= 2**40:
        # Context.hashable() puts id(function) into cache keys: a memory address, different in every process. Registry
        # numbers of that size are Fractions / Decimals / floats (handled below), never bare ints.
        return ("addr",)
    if x is None or isinstance(x, (bool, int, str, bytes)):
        return x
    if isinstance(x, float):
        return repr(x)
    if isinstance(x, (Fraction, Decimal, complex)):
        return (type(x).__name__, str(x))
    if isinstance(x, enum.Enum):
        return ("enum", type(x).__name__, x.name)
    if depth > 12:
        return ("deep", type(x).__name__)
    oid = id(x)
    if oid in seen:
        return ("ref", seen[oid])
    tn = type(x).__name__
    if isinstance(x, (types.FunctionType, types.BuiltinFunctionType, types.MethodType, type)):
        return ("callable", getattr(x, "__module__", ""), getattr(x, "__qualname__", tn))
    if tn in ("UnitsContainer", "ParserHelper"):
        items = tuple(sorted((k, canon(v, depth + 1, seen, skip)) for k, v in x._d.items()))
        return (tn, canon(getattr(x, "scale", None), depth + 1, seen, skip), items)
    seen[oid] = len(seen)
    if isinstance(x, collections.ChainMap):
        return ("ChainMap", tuple(canon(m, depth + 1, seen, skip) for m in x.maps))
    if isinstance(x, dict):
        return (tn, tuple(sorted(((canon(k, depth + 1, seen, skip), canon(v, depth + 1, seen, skip)) for k, v in x.items()), key=repr)))
    if isinstance(x, (set, frozenset)):
        return (tn, tuple(sorted((canon(i, depth + 1, seen, skip) for i in x), key=repr)))
    if isinstance(x, (list, tuple, collections.deque)):
        return (tn, tuple(canon(i, depth + 1, seen, skip) for i in x))
    if dataclasses.is_dataclass(x) and not isinstance(x, type):
        return (tn, tuple((f.name, canon(getattr(x, f.name, None), depth + 1, seen, skip)) for f in dataclasses.fields(x) if f.name not in skip))
    d = {}
    if hasattr(x, "__dict__"):
        d.update(vars(x))
    for cls in type(x).__mro__:
        for s in getattr(cls, "__slots__", ()) or ():
            if isinstance(s, str) and hasattr(x, s) and s not in ("__weakref__", "__dict__"):
                d[s] = getattr(x, s)
    if d:
        return (tn, tuple(sorted((k, canon(v, depth + 1, seen, skip)) for k, v in d.items() if k not in skip)))
    r = repr(x)
    return (tn, r if " at 0x" not in r else "")


def fingerprint(*objs, extra=None):
    h = hashlib.sha1()
    for o in objs:
        h.update(repr(canon(o)).encode("utf-8", "replace"))
        h.update(b"|")
    if extra is not None:
        h.update(repr(extra).encode())
    return h.hexdigest()


# --------------------------------------------------------------------------- the explorer


class Driver:
    """Subclass and fill in. Events must be JSON-native (str / list) so histories can be replayed
    from a file."""

    def fresh(self):
        raise NotImplementedError

    def events(self):
        raise NotImplementedError

    def enabled(self, hist):
        return self.events()

    def apply(self, sys_, ev):
        """execute one event on the real system; return a JSON-native outcome"""
        raise NotImplementedError

    def fp(self, sys_, hist):
        raise NotImplementedError

    def oracle(self, acc, sys_, hist, outcomes):
        """check invariants / reference agreement in the state reached by hist"""
        raise NotImplementedError

    def cleanup(self, sys_):
        pass

    def outcome_oracle(self, acc, sys_, hist, outcomes):
        """cheap check of the LAST event's own outcome; run on every transition, also when the state is not new"""
        return None

    def terminal(self, outs, sys_=None):
        """True if a history with these outcomes must not be extended (e.g. a step did not terminate)"""
        return False


def run_history(driver, hist):
    sys_ = driver.fresh()
    outs = []
    for ev in hist:
        outs.append(driver.apply(sys_, ev))
    return sys_, outs


def explore(driver, acc, depth, roots=None, max_states=None, oracle_on="all"):
    """BFS from the empty history (or from the given root histories). Returns nothing; counters
    go to acc: sets 'states' (fingerprints) and counters transitions / traces / depth."""
    frontier = collections.deque()
    recorded = {}
    seen = set()  # local to this call: a second exploration with other settings starts over
    if roots is None:
        roots = [()]
    for r in roots:
        r = tuple(r)
        sys_, outs = run_history(driver, r)
        fp = driver.fp(sys_, r)
        if r:
            acc.count("transitions", len(r))
        acc.add("states", fp)
        seen.add(fp)
        if r:
            driver.outcome_oracle(acc, sys_, r, outs)
        driver.oracle(acc, sys_, r, outs)
        acc.count("traces_validated_against_impl")
        driver.cleanup(sys_)
        recorded[r] = outs
        frontier.append(r)
    maxd = 0
    capped = False
    while frontier:
        hist = frontier.popleft()
        if len(hist) >= depth:
            continue
        for ev in driver.enabled(hist):
            nh = hist + (ev,)
            sys_, outs = run_history(driver, nh)
            if outs[: len(hist)] != recorded[hist]:
                raise Divergence(f"replay of {list(hist)} diverged: {recorded[hist]} vs {outs[:len(hist)]}")
            acc.count("transitions")
            acc.ev()
            fp = driver.fp(sys_, nh)
            driver.outcome_oracle(acc, sys_, nh, outs)
            # oracle_on="new": the oracle (a whole probe vector, each probe on its own replay) runs once per
            # distinct state — sound as far as the fingerprint captures everything futures depend on;
            # oracle_on="all" re-checks it on every transition and does not rely on that argument.
            if oracle_on == "all" or fp not in seen:
                driver.oracle(acc, sys_, nh, outs)
                acc.count("traces_validated_against_impl")
            driver.cleanup(sys_)
            maxd = max(maxd, len(nh))
            if fp not in seen:
                seen.add(fp)
                acc.add("states", fp)
                acc.nt(("state", fp))
                recorded[nh] = outs
                if max_states is not None and len(seen) >= max_states:
                    capped = True
                    continue
                if not driver.terminal(outs, sys_):
                    frontier.append(nh)
        del recorded[hist]
    acc.dims.setdefault("max_depth_completed", 0)
    acc.dims["max_depth_completed"] = max(acc.dims["max_depth_completed"], maxd)
    if capped:
        acc.cap(f"state cap {max_states} reached; histories of the capped states were not extended")
